#!/bin/bash
# For every stored seed whose patch still applies to /repo: apply it (working tree only), run the quick check of its property,
# restore the tree. Output: notes/seed_regress.txt  (needs a quiet /repo)
cd /verif || exit 2
out=notes/seed_regress.txt; : > $out
git -C /repo diff --quiet || { echo "/repo not clean"; exit 2; }
for d in seeded/C*; do
  sid=$(basename $d); prop=${sid:0:3}
  if ! git -C /repo apply --check /verif/$d/patch.diff 2>/dev/null; then echo "$sid: patch no longer applies" >> $out; continue; fi
  git -C /repo apply /verif/$d/patch.diff
  o=$(./check $prop 2>&1 | grep -v conda)
  echo "$sid $prop: violations=$(echo "$o" | grep -c '^VIOLATION') $(echo "$o" | grep -m1 'class=' | cut -c1-160)" >> $out
  git -C /repo checkout -- .
done
git -C /repo status --short | head -2
grep -c "violations=0" $out
