#!/usr/bin/env python3
"""Regenerates /verif/MANIFEST.json from the table below (keeps it valid while checks are added)."""
import json, os, subprocess
V = os.path.dirname(os.path.dirname(os.path.abspath(__file__)))

# id -> (engine, category, technique, text, level_note, design_ref)
CHECKS = {
 'C01': ('rqmc', 'model_checking',
         'bounded-exhaustive enumeration of edit scripts x context widths x directions through the real parser+apply, oracle = B itself',
         'Every edit script up to length 6 (thorough 8) over {a,b} and up to 3 (4) over a 13-line nasty alphabet, with all no-final-newline/absent-side flags, context widths 0-3 and both directions is rendered by a reference differ and applied by the real code; the result must be byte-identical to B (A for -R) with offset 0 and fuzz 0.',
         'Small-scope: lines are opaque to the code, so the bound bites on lengths only. Header dialects and -pN are covered at CLI level as far as built (see evidence).',
         '5/C01'),
 'C02': ('rqmc', 'model_checking',
         'bounded-exhaustive enumeration of (file, hunk, stated line, fuzz limit, direction) on the real apply, clause-wise oracle from brute-force match sets',
         'All files over {a,b} up to 5 (7) lines x all hunk shapes with up to 2 (3) context lines per side x stated lines x fuzz limits 0-3 x direction, plus two-hunk patches for the previous-offset rule (also on all files of 9 (11) lines, where a nearer match of the second hunk before the first one exists and must not be used); each verdict of the real code is checked clause by clause (matches where applied, nearest/forward-first, anchoring, lowest level, fails only when nothing matches).',
         'The oracle leaves open what the statement leaves open (a second hunk with a match inside or right behind the first one), so it cannot false-alarm on GNU-conforming variants; magnitudes beyond the bound are not covered.',
         '5/C02'),
 'C03': ('rqmc', 'model_checking',
         'bounded-exhaustive enumeration of overlapping multi-hunk patches on the real apply, line-level reconstruction oracle from the hunk reports',
         'All canonical files up to 4 (5) lines x ordered pairs/triples of position-derived hunks (all overlap relations) x fuzz x direction; expected content is rebuilt from the original and the per-hunk reports only.',
         'Relies on the report convention that `line` is where the trimmed old side was found in the original file.',
         '5/C03'),
 'C04': ('rqmc', 'model_checking',
         'bounded-exhaustive apply->rollback over the C03 space plus explicit-state BFS over stacks of file patches with LIFO rollback',
         'Every case of the C03 space is applied and rolled back; a BFS over apply-stacks (creates, deletes, mode changes, partial failures) checks the recorded pre-state after every rollback.',
         'Lib-level rollback is called with the direction of the application; driver-level rollback (renames, -R entries) is checked by the CLI sweeps as far as built.',
         '5/C04'),
 'C11': ('rqmc', 'model_checking',
         'bounded-exhaustive enumeration of token sequences / numeric grid / token edits through the real parser and apply in crash-isolating shard subprocesses',
         'All sequences of up to 4 (thorough 5) of 37 whole-line tokens (last one also truncated), the full 12^4 grid of boundary numbers in hunk headers and all <=2-token edits of 5 patch skeletons are parsed (strip 0/1/5) and, when they parse, applied and rolled back; any panic, abort, hang or oversized allocation is attributed to the one input in flight.',
         'Covers syntactically meaningful line sequences, not arbitrary bytes. CLI-level totality (exit status 0/1) is covered by the workspace sweep as far as built (see evidence).',
         '5/C11'),
 'C12': ('rqmc', 'model_checking',
         'bounded-exhaustive enumeration of parseable inputs (token sequences, token edits, reference diffs x header dialects) through the real parse-write-parse-write',
         'Every parseable input of the C11 sequence/edit spaces and every reference diff under 9 header dialects (incl. diff -N) is written and re-parsed; file-patch fields, hunk sides and start lines must agree, creating/deleting/hunk-less entries must also do the same to a menu of files, and the second write must be byte-identical.',
         'Context/changed classification of lines is deliberately not compared (the writer re-derives it). (KF-02, vanishing no-op hunk-less entries, was repaired.)',
         '5/C12'),
 'C15': ('wsweep', 'model_checking',
         'bounded-exhaustive enumeration of workspaces hard-linked into a twin tree x loaders x threads on the real binary under the LD_PRELOAD monitor',
         'Every workspace of the C05 alphabet is pushed with all its files hard-linked into a twin tree, with the default and the mmap loader and 1/2 threads: the twin must stay byte-, mode- and inode-identical, every changed file must have a fresh inode, and files no patch names must keep their inode and link count with no mutating call logged on them.',
         'The monitor sees libc calls only; tool-owned outputs (.pc, *.rej) are outside the statement.',
         '5/C15'),
 'C16': ('wsweep', 'model_checking',
         'bounded-exhaustive enumeration of series-line spellings x strip levels x header forms, and of the old/new-name existence matrix x kinds x push splits x threads, on the real binary; toy-quilt oracle',
         'All getopts spellings of -p0..2 with/without -R in both orders between comment/blank/whitespace lines, path depths 1-3, every name of up to three leading components over {d,e,.} (thorough: also //) at -p0..4 with a decoy file at each of the 15 places, header forms where only one name decides at -p0..3; and the 5x5 existence matrix of old and new name x {modify, create, delete} x {one push, split} x threads {1,2}: the tree shows which name was patched and with which strip level and direction.',
         'Both candidate files hold identical lines so the hunk fits either name; the oracle is the toy-quilt rule (old name if it currently exists, else new).',
         '5/C16'),
 'C17': ('wsweep', 'model_checking',
         'bounded-exhaustive enumeration of (series, applied-patches) pairs x goals x threads x verbosity, and of bad patch files at every range position, on the real binary',
         'All pairs of duplicate-free series over 3 (thorough: 4) names and applied-patches sequences of up to 3 (4) names (incl. longer, reordered, edited, duplicated), all goal arguments, threads 1/2, both verbosities, plus missing/unparseable/unreadable patch files at every position of the range after 0-2 applied patches: whenever the precondition of the statement holds the run must exit 1 with a message and leave the full snapshot (inodes, mtimes) identical.',
         'Unreadable is simulated by a directory in place of the patch file (the sandbox runs as root).',
         '5/C17'),
 'C18': ('wsweep', 'fault_enumeration',
         'exhaustive single-fault enumeration at the libc boundary of the real binary (LD_PRELOAD): one run per mutating call k and errno, for sequential and (scheduler-serialised) parallel drivers',
         'For ~50 (thorough ~1750: every series of the base space) workloads x backup {always,never} x 3 drivers, every mutating libc call of the fault-free run is failed once per applicable errno (EIO, ENOSPC, EACCES) and, for a subset, every write is cut short: the run must exit non-zero without crashing, name the failing path, and record no patch whose files are not all on disk; short writes must change nothing.',
         'Single faults only; faults are injected in the dynamically linked binary\'s libc calls; the parallel driver runs under the serial schedules lowest-first and highest-first.',
         '5/C18'),
 'C19': ('wsweep', 'model_checking',
         'bounded-exhaustive enumeration of escaping name spellings x header positions x kinds x strip levels x threads on the real binary inside a sentinel directory under the LD_PRELOAD monitor',
         '10 hand-picked spellings (absolute, several shapes of "..", plain and quoted) and every name of up to 3 (thorough: 4) components over {a, x, .., .} x header position x file-patch kind (incl. failing hunks => rejects) x -p0..3 x threads: the sentinel tree outside the workspace must be identical (inodes, mtimes), the monitor must log no call outside the workspace, and a name that still escapes after stripping must be refused with exit 1.',
         'The monitor sees libc calls only; decoy files sit at every escape target.',
         '5/C19'),
 'C20': ('rqmc', 'model_checking',
         'metamorphic bounded-exhaustive enumeration: same (file, patch) at all fuzz-limit pairs F<F\' on the real apply',
         'Every (file, patch) of the C02 and C03 spaces is run at limits 0..3; whenever it applies completely at F it must apply identically (content and per-hunk placement) at every F\'>F.',
         'Lib level; CLI --fuzz plumbing is covered by the workspace sweep as far as built.',
         '5/C20'),
 'C05': ('wsweep', 'model_checking',
         'bounded-exhaustive enumeration of series over a template alphabet (deviation-bounded) x option sets on the real binary, toy-quilt reference model as oracle',
         'All series with <=2 (thorough 3) file patches and <=1 (2) deviations from plain modification, incl. per-patch -R/-pN/empty patch, crossed with backup mode, threads 1/2 and verbosity, are pushed by the real hooked binary; tree (contents, modes, emptied directories), names appended to applied-patches and exit status must equal the reference model after the first k patches.',
         'Unique line tokens make placement trivial (C02 covers placement). Parallel runs use the serial schedule of the cooperative scheduler; other schedules are C06.',
         '5/C05'),
 'C08': ('wsweep', 'model_checking',
         'bounded-exhaustive enumeration of patch chains on one file x backup mode x backup count x threads x prior applied state on the real binary, toy-quilt oracle',
         'Chains of up to 3 (4) file patches touching f with <=1 deviation, all <=2-file-patch series, all backup modes and counts, threads 1/2, and pushes on top of a really pushed prefix: .pc/<patch>/<file> must hold exactly the pre-patch content and mode for the last N patches of the run, nothing else; simulated pop restores the start tree.',
         'A zero-length backup cannot distinguish an absent from an empty file (quilt format); the pop simulation ignores empty files.',
         '5/C08'),
 'C13': ('wsweep', 'model_checking',
         'bounded-exhaustive enumeration of failing patches (every subset of hunks/files failing, every failure reason) on the real binary; rejects parsed by the real parser and compared with the generator\'s failing hunks',
         'Failing patches with 1-2 (3) files, 1-3 hunks per file and every non-empty subset of hunks failing, every failure reason of the menu, with threads 1/2/3: the set of *.rej and the hunks inside them (lines and start lines) must be exactly the failing hunks.',
         'Two failing entries for the same file in one patch are outside the reject oracle (duplicate-reject behaviour is not modelled).',
         '5/C13'),
 'C06': ('wsweep', 'model_checking',
         'stateless model checking (CHESS-style preemption-bounded DFS) of the real multi-threaded driver under a cooperative scheduler at source hooks; differential oracle vs. --threads 1',
         'For ~25 workloads and N in {2,3} (thorough {2,3,4}) every schedule of the worker threads with <=1 (3) preemptions at the hooked synchronisation and file-system points is executed on the real binary; exit class, tree, .pc and rejects must equal the single-threaded run, no file may be handled by two workers, and replays must be identical.',
         'Sequentially consistent interleavings at the hooked points only; N=16 runs on default schedules; the schedule bound completed is reported.',
         '5/C06'),
 'C09': ('wsweep', 'model_checking',
         'explicit-state BFS over the invocation graph of the real binary (nodes = workspace snapshots, edges = push invocations), every node compared with the single-invocation reference',
         'For every 3-patch (thorough 3-4) series of the alphabet the graph reachable by push / push m / push <name> / push -a with 1 and 2 threads is explored to fixpoint; each node must equal the state of `push g` from pristine, invocations with nothing to do must leave the snapshot (incl. inodes/mtimes) untouched.',
         'Backups excluded as in the statement; series whose failure is an I/O error are C17\'s subject.',
         '5/C09'),
 'C10': ('wsweep', 'model_checking',
         'bounded-exhaustive enumeration of workspaces x threads x backup settings with --dry-run on the real binary under an LD_PRELOAD file-system monitor; differential vs. the real run',
         'Every workspace of the C05 sweep is run with --dry-run: the full recursive snapshot incl. inodes and mtimes must be identical, the monitor must log no mutating libc call, and exit class and failing patch name must equal the real run.',
         'The monitor sees libc calls only.',
         '5/C10'),
 'C14': ('wsweep', 'model_checking',
         'bounded-exhaustive enumeration of workspaces x all 192 presentation/loader option sets x threads on the real binary; differential vs. the -q default-loader run',
         'Workspaces of the alphabet incl. zero-length source and patch files and multi-entry failing patches are pushed under every combination of --mmap, verbosity, --color, --stats, -A multiapply with 1 and 2 threads; tree, .pc, rejects and exit class must equal the reference run.',
         'Quick tier uses 1-file-patch workspaces plus selected failing ones.',
         '5/C14'),
 'C07': ('rqdist', 'model_checking',
         'explicit-state BFS over the real FilenameDistributor to fixpoint, invariant vs. union-find reference in every state',
         'Every reachable state of the real distributor over N<=5 (thorough 7) names is visited (fixpoint, so call sequences of every length); in each, build() must give all names of one reference component the same thread for 8 thread counts.',
         'Bounded by the number of distinct names; the state key contains everything add/build read, so merging is exact. Needs the cfg accessor verif_state().',
         '5/C07'),
}
NOT_YET = {}

def main():
    props = [json.loads(l) for l in open(os.path.join(V, 'properties.jsonl'))]
    hooks_commits = subprocess.run(['git', '-C', '/repo', 'log', '--format=%H', '--grep', '^verif hooks'], stdout=subprocess.PIPE).stdout.decode().split()
    m = {
     'version': 1,
     'setup_cmd': './check build',
     'hooks': {
      'guard': 'opensuse_rapidquilt_verif',
      'enable': 'RUSTFLAGS="--cfg opensuse_rapidquilt_verif" CARGO_TARGET_DIR=/verif/.build/rq cargo build --offline (done by every check; the harness crate /verif/rqmc is built with the same flag)',
      'baseline_off_cmd': 'cd /repo && cargo test --workspace --no-fail-fast --offline',
      'source_commits': hooks_commits,
      'add_only': True,
     },
     'engines': [
      {'name': 'rqmc', 'path': 'rqmc/src/main.rs', 'kind_free_text': 'Rust harness linking /repo libpatch: bounded-exhaustive sweeps of parser/apply/rollback/writer (DESIGN 4.1, 4.2)', 'serves_properties': []},
      {'name': 'rqdist', 'path': 'rqmc/src/bin/rqdist.rs', 'kind_free_text': 'explicit-state BFS over the real FilenameDistributor (DESIGN 4.2)', 'serves_properties': []},
      {'name': 'wsweep', 'path': 'lib/', 'kind_free_text': 'Python workspace sweep driving the real hooked rapidquilt binary against a toy-quilt reference model; schedule explorer; LD_PRELOAD monitor/fault enumerator (DESIGN 4.3-4.5)', 'serves_properties': []},
     ],
     'checks': [],
     'not_applicable': [],
     'notes': 'See DESIGN.md. Every check executes the real code of /repo\'s working tree; exit 2 means machinery error (no verdict). Known findings: KNOWN_FINDINGS.json.',
    }
    for p in props:
        pid = p['id']
        if pid in CHECKS:
            eng, cat, tech, text, note, ref = CHECKS[pid]
            m['checks'].append({
             'property_id': pid,
             'quick_cmd': './check %s --tier quick' % pid,
             'thorough_cmd': './check %s --tier thorough' % pid,
             'evidence_file': 'evidence/%s.json' % pid,
             'replay_cmd_template': './check replay {path}',
             'engine': eng,
             'level_claimed': {'category': cat, 'text': text, 'design_ref': 'DESIGN.md section ' + ref},
             'level_note': note,
             'technique': tech,
            })
            for e in m['engines']:
                if e['name'] == eng:
                    e['serves_properties'].append(pid)
        else:
            m['not_applicable'].append({'property_id': pid, 'reason': NOT_YET.get(pid, 'check designed (DESIGN.md section 5) but not built yet in this round; not claimed')})
    json.dump(m, open(os.path.join(V, 'MANIFEST.json'), 'w'), indent=1)
    print('checks:', [c['property_id'] for c in m['checks']])

main()
