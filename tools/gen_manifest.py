#!/usr/bin/env python3
"""Regenerates /verif/MANIFEST.json from the table below (keeps it valid while checks are added)."""
import json, os, subprocess
V = os.path.dirname(os.path.dirname(os.path.abspath(__file__)))

# id -> (engine, category, technique, text, level_note, design_ref)
CHECKS = {
 'C07': ('rqdist', 'model_checking',
         'explicit-state BFS over the real FilenameDistributor to fixpoint, invariant vs. union-find reference in every state',
         'Every reachable state of the real distributor over N<=5 (thorough 7) names is visited (fixpoint, so call sequences of every length); in each, build() must give all names of one reference component the same thread for 8 thread counts.',
         'Bounded by the number of distinct names; the state key contains everything add/build read, so merging is exact. Needs the cfg accessor verif_state().',
         '5/C07'),
}
NOT_YET = {}

def main():
    props = [json.loads(l) for l in open(os.path.join(V, 'properties.jsonl'))]
    hooks_commits = subprocess.run(['git', '-C', '/repo', 'log', '--format=%H', '--grep', '^verif hooks'], stdout=subprocess.PIPE).stdout.decode().split()
    m = {
     'version': 1,
     'setup_cmd': './check build',
     'hooks': {
      'guard': 'opensuse_rapidquilt_verif',
      'enable': 'RUSTFLAGS="--cfg opensuse_rapidquilt_verif" CARGO_TARGET_DIR=/verif/.build/rq cargo build --offline (done by every check; the harness crate /verif/rqmc is built with the same flag)',
      'baseline_off_cmd': 'cd /repo && cargo test --workspace --no-fail-fast --offline',
      'source_commits': hooks_commits,
      'add_only': True,
     },
     'engines': [
      {'name': 'rqmc', 'path': 'rqmc/src/main.rs', 'kind_free_text': 'Rust harness linking /repo libpatch: bounded-exhaustive sweeps of parser/apply/rollback/writer (DESIGN 4.1, 4.2)', 'serves_properties': []},
      {'name': 'rqdist', 'path': 'rqmc/src/bin/rqdist.rs', 'kind_free_text': 'explicit-state BFS over the real FilenameDistributor (DESIGN 4.2)', 'serves_properties': []},
      {'name': 'wsweep', 'path': 'lib/', 'kind_free_text': 'Python workspace sweep driving the real hooked rapidquilt binary against a toy-quilt reference model; schedule explorer; LD_PRELOAD monitor/fault enumerator (DESIGN 4.3-4.5)', 'serves_properties': []},
     ],
     'checks': [],
     'not_applicable': [],
     'notes': 'See DESIGN.md. Every check executes the real code of /repo\'s working tree; exit 2 means machinery error (no verdict). Known findings: KNOWN_FINDINGS.json.',
    }
    for p in props:
        pid = p['id']
        if pid in CHECKS:
            eng, cat, tech, text, note, ref = CHECKS[pid]
            m['checks'].append({
             'property_id': pid,
             'quick_cmd': './check %s --tier quick' % pid,
             'thorough_cmd': './check %s --tier thorough' % pid,
             'evidence_file': 'evidence/%s.json' % pid,
             'replay_cmd_template': './check replay {path}',
             'engine': eng,
             'level_claimed': {'category': cat, 'text': text, 'design_ref': 'DESIGN.md section ' + ref},
             'level_note': note,
             'technique': tech,
            })
            for e in m['engines']:
                if e['name'] == eng or (eng not in ('rqmc', 'rqdist') and e['name'] == 'wsweep'):
                    e['serves_properties'].append(pid)
        else:
            m['not_applicable'].append({'property_id': pid, 'reason': NOT_YET.get(pid, 'check designed (DESIGN.md section 5) but not built yet in this round; not claimed')})
    json.dump(m, open(os.path.join(V, 'MANIFEST.json'), 'w'), indent=1)
    print('checks:', [c['property_id'] for c in m['checks']])

main()
