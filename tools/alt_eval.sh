#!/bin/bash
# usage: alt_eval.sh <label> <diff-file|-> <check>...
# Runs checks against a scratch copy of /repo (HEAD + the diff) WITHOUT touching /repo's working tree, so that it can be
# used while a long run is exercising /repo. A copy of /verif (without build output) is made next to the scratch tree, its
# harness is pointed at the scratch tree, and the checks run there with RQV_REPO set. Everything is removed afterwards.
# Prints one line per check: "<label> <check>: violations=N ..." or "NO VERDICT" for a machinery error.
label=$1; diff=$2; shift 2
base=${RQV_ALT_BASE:-/tmp/wt}
T=$base/alt.$$; V=$base/altv.$$
trap 'git -C /repo worktree remove --force "$T" 2>/dev/null; rm -rf "$T" "$V"; git -C /repo worktree prune' EXIT
git -C /repo worktree add -q --detach "$T" HEAD || exit 2
if [ "$diff" != "-" ]; then git -C "$T" apply "$diff" || { echo "$label: patch no longer applies"; exit 3; }; fi
mkdir -p "$V"
rsync -a --exclude .build --exclude .scratch --exclude .git --exclude seeded --exclude notes /verif/ "$V"/
# seed the build directory with what is already compiled (dependencies), so that only the subject is rebuilt
if [ -d /verif/.build ] && [ -z "$RQV_ALT_COLD" ]; then cp -a /verif/.build "$V"/.build; fi
sed -i "s#path = \"/repo\"#path = \"$T\"#" "$V"/rqmc/Cargo.toml
sed -i "s#\"/repo/src/#\"$T/src/#" "$V"/rqmc/src/bin/rqdist.rs
for p in "$@"; do
  s=$(date +%s)
  out=$(cd "$V" && RQV_REPO="$T" ./check $p ${RQV_ALT_TIER:+--tier $RQV_ALT_TIER} 2>&1 | grep -v conda); rc=$?
  if echo "$out" | grep -q 'MACHINERY ERROR'; then echo "$label $p: NO VERDICT - $(echo "$out" | grep -m1 'MACHINERY ERROR' | cut -c1-160)"; continue; fi
  echo "$label $p: violations=$(echo "$out" | grep -c '^VIOLATION') known=$(echo "$out" | grep -c '^KNOWN-FINDING') $(( $(date +%s)-s ))s $(echo "$out" | grep -m3 'class=' | tr '\n' ';' | cut -c1-300)"
done
