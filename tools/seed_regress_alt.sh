#!/bin/bash
# Like seed_regress.sh, but through alt_eval.sh: /repo's working tree is left alone, several seeds are evaluated at a time.
# Output: notes/seed_regress.txt
cd /verif || exit 2
jobs=${1:-3}
out=notes/seed_regress.txt
ls -d seeded/C* | xargs -P $jobs -I{} bash -c 'd={}; sid=$(basename $d); prop=${sid:0:3}; if ! git -C /repo apply --check /verif/$d/patch.diff 2>/dev/null; then echo "$sid: patch no longer applies"; else /verif/tools/alt_eval.sh $sid /verif/$d/patch.diff $prop 2>&1 | grep "^$sid"; fi' | sort > $out.new
mv $out.new $out
grep -c "violations=0" $out
