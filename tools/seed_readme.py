#!/usr/bin/env python3
"""Adds the 'needs' text to seeded/*/meta.json (from the table below) and regenerates seeded/README.md."""
import json, os, glob
NEEDS = {
 'C01d-plus-side-start-from-minus-count': 'a -R entry whose diff was made with context 0 and has a deletion-only hunk below the top of the file',
 'C03d-addition-keeps-suffix-context': 'a hunk with two change groups the last of which only adds lines, followed by a hunk whose leading context overlaps its tail (or --fuzz 2)',
 'C04d-run-ahead-patches-undone-oldest-first': '--threads >= 2, a failing patch, and a worker already two or more patches behind it on one file (or a rename chain)',
 'C07d-strip-skipped-for-p0-again': 'a -p0 entry spelling a file ./name and another entry spelling it plainly, in one push (same change as C16d)',
 'C10d-no-link-check-in-dry-run': '--dry-run on a tree with a symbolic link leading out of it that a patch goes through',
 'C11d-zone-guard-on-the-wrong-slice': 'a ---/+++ line with a full time stamp followed by a sign and exactly two characters (2024-05-06 07:08:09+02)',
 'C12d-empty-unterminated-line-written-bare': 'a hunk line that is empty and carries the no-newline tag',
 'C15d-rename-undo-forgets-the-file-existed': 'a git rename applied and rolled back (its hunk fails, or a worker ran ahead) on a file an earlier applied patch changed and that has another hard link',
 'C18d-unlink-failure-dropped': 'a failing unlink of a file the push deletes (or, with --mmap, changes)',
 'C20d-frozen-line-from-the-fuzz-limit': 'two overlapping hunks, the first with less leading than trailing context, and a fuzz limit above the level the first hunk needs',
 'C02d-length-guard-hoisted-out-of-the-fuzz-loop': '--fuzz >= 1 and a file with fewer lines than the whole old side of a hunk that fits once its ends are trimmed',
 'C05d-refused-rename-puts-content-into-the-wrong-file': 'a git rename onto an existing non-empty file (refused) whose source an earlier patch of the same push touched: the source is deleted',
 'C06d-erring-workers-state-dropped': 'a failing patch on one worker, a load error in a later patch on another worker that has applied earlier patches, and the second worker getting there first',
 'C08d-onfail-decided-by-rejects': '--threads 1, --backup onfail, the push stopping at a patch that fails without any rejected hunk (refused rename)',
 'C09d-rename-record-taken-after-the-move': 'a failing git rename onto a name that an earlier patch of the same push deleted or renamed away (or, for backups, onto an existing empty file)',
 'C13d-reject-header-of-insertion-from-the-new-side': 'a rejected context-free pure insertion whose two line numbers are more than one apart (earlier hunks changed the line count)',
 'C14d-mmap-size-from-lstat': '--mmap and a symbolic link on a path that is loaded: the patched file or the patch file',
 'C16d-strip-skipped-for-p0': 'a -p0 entry spelling a file ./name and another entry spelling it plainly, in one push',
 'C17d-hunk-header-without-plus-is-garbage': 'a hunk header whose first range is not followed by " +": taken for garbage, the hunk is dropped quietly',
 'C19d-last-component-not-checked-for-links': 'a symbolic link in the tree that is itself the target of a patch and points out of the tree',
 'C01c-old-name-existed-arm': '.orig-style differing names whose old name was on disk at the start and was removed by an earlier patch of the same push (reported by C16 and C09; C01 pushes single patches)',
 'C04c-deleted-flag-restored-before-undo': 'an existing zero-length file, a /dev/null creation onto it and a sibling entry of the same patch that fails: rolling back removes the empty file',
 'C08c-mode-not-restored-without-mode-line': 'a file with a non-default mode deleted by one patch and re-created by a later one in the same invocation, with backups: the backup of the deleting patch gets the default mode',
 'C10c-dry-run-stops-at-any-failure': '--dry-run --threads >= 2, two broken patches on files of different workers, the worker of the later one recording its failure first',
 'C11c-closest-match-start-line-underflow': 'a failing hunk without -q whose first matching line sits deeper in the hunk than in the file (file c d e, hunk a b c d)',
 'C15c-create-resets-record': 'one push in which an earlier patch deletes (or renames away) a hard-linked file and a later patch creates that name again',
 'C16c-default-strip-zero-with-options': 'a series line with options but without -p (p1.patch -R): applied at -p0',
 'C18c-write-instead-of-write-all': 'a written file with a line of 8192 bytes or more and a short write inside that line',
 'C19c-check-after-drain-parallel': 'the parallel driver (--threads >= 2): the name check runs on an already drained list and passes everything',
 'C20c-report-capacity-from-fuzz': 'a --fuzz limit around 2*10^17 or larger: capacity overflow panic',
 'C02c-empty-side-line-from-wrong-count': 'a hunk with exactly one empty side (diff -U0 pure deletion) applied with -R: the new-side line is off by one, the insertion lands one line early (reported by C01 and C12; C02 leaves context-free empty-side hunks to C01)',
 'C03c-line-count-diff-ignores-direction': 'a -R entry whose file patch has two hunks, an earlier one changing the line count: later hunks are spliced at positions shifted by twice that change',
 'C05c-failure-index-stored-not-min': 'same slip as C06-fetch-min-to-store, written for C05: schedule-dependent, so C05 (serial schedule) is silent and C06 reports it',
 'C06c-backup-window-from-series-end-parallel': 'same slip as C08-backup-window-from-series-end, written for C06: reported by C06 (small --backup-count workload) and C08',
 'C07c-compression-pass-reversed': 'a component merged three times each time under an earlier-seen name (f2->f3, f1-f2, f0-f1 after f0,f1 were seen): the flattening pass run downwards resolves to the grandparent',
 'C09c-create-over-file-created-in-same-run': 'a file created earlier in the same invocation and created again from /dev/null (or prepended to with -U0): overwritten in one push, refused / prepended when the pushes are split',
 'C12c-vertical-tab-name-unquoted': 'a quoted file name containing a vertical tab: written unquoted, read back cut at the tab',
 'C13c-space-name-unquoted-in-reject': 'a failing patch on a file whose name contains a space: the reject header names it unquoted and parses as a patch for the first word',
 'C14c-reject-bypass-only-when-not-quiet': '-q, a failing patch whose target sits in a directory that does not exist: the ENOENT of the reject is an error instead of a bypass, nothing is saved',
 'C17c-empty-series-with-applied-unwrap': 'a non-empty .pc/applied-patches and a series without entries: unwrap on the last series patch, exit 101',
 'C19b-only-head-component-judged': 'a name whose ".." is not the first component after -pN stripping (a/sub/../../victim at -p1, ./../victim at -p0)',
 'C15b-refused-rename-reinserts-source': 'a git rename onto an existing non-empty file (refused) whose source was edited by an earlier patch of the same push: the source entry forgets it was on disk and is rewritten in place',
 'C16b-only-renames-linked-in-distributor': '--threads >= 2, a non-rename patch with differing old/new names (old absent), another patch touching the file under its plain name, the two names on different workers',
 'C17b-goal-ignored-with-all': '-a given together with a goal argument that is unknown or already applied, with at least one patch unapplied: exit 0 and patches applied',
 'C18b-applied-patches-not-flushed': 'a fault on the write that appends to .pc/applied-patches: exit 0, no message',
 'C20b-rollback-uses-fuzz-limit': '--backup always and --fuzz strictly above the level a hunk with leading context needed: the rollback for the backups misaligns and aborts',
 'C03b-removal-keeps-suffix-context': 'a hunk with two change groups whose last group only removes lines (context in between counted as trailing context), applied with --fuzz larger than its real trailing context',
 'C07b-distributor-skips-repeated-name': '--threads >= 2 and three file patches in series order: one on X, the next relating X to Y (rename / differing names), another touching Y',
 'C09b-deleted-entry-falls-back-to-disk': 'patch i deletes or renames away X, a later patch of the same invocation has --- a/X +++ b/Y: a single push fails at it, split pushes succeed',
 'C10b-backups-in-parallel-dry-run': '--dry-run with --threads >= 2 and --backup always: backup files are written',
 'C11b-kind-from-first-hunk': 'a file patch with two or more hunks whose first hunk is a context-free pure insertion at line 0 or removal from line 1 (diff -U0): classified create/delete, assertion panic when applied',
 'C12b-zero-line-hunk-dropped': 'a modifying file patch containing a hunk with both counts 0 (@@ -2,0 +2,0 @@): dropped by the writer',
 'C13b-reject-named-after-final-name': 'the push stops at a patch with a git rename entry whose own content hunk fails: the reject is named after the new name',
 'C14b-searcher-window-unclamped': '-A multiapply on a file that repeats one of the hunk\'s old-side lines near its end: index out of bounds, exit 101',
 'C01b-hunkless-deletion-keeps-file': 'git dialect, a hunk-less "deleted file mode" entry on an existing zero-length file, forward: success reported, the empty file stays',
 'C02b-offset-accumulated': 'one file patch with at least three hunks, two earlier hunks applied at different non-zero offsets, and a later hunk whose old side matches at several positions',
 'C04b-rename-undone-into-old-name': 'a rename that is rolled back where the patched name is not the patch\'s old name: a reversed (-R) rename in a failing patch, or a forward rename of an already renamed file',
 'C05b-bypassed-reject-skips-rollback': 'an earlier patch of the same push creates a file in a directory that does not exist on disk yet, a later patch fails partially on it (reject cannot be created, bypass path)',
 'C06b-union-reparents-member': 'a name X first, later a pair (A,B) that puts B below A, later a pair (Y,B) with Y in X\'s component: a rename chain is split over two workers (--threads >= 2)',
 'C08b-backup-kept-if-exists': 'backups produced and a patch with two entries for one file (or rename A->B followed by an edit of B): the surviving backup is the state before the last entry, not before the patch',
 'C14-diagnostics-end-node-unclamped': 'a failing series without -q and a failing hunk whose closest match is at the end of the file while the hunk has more lines than the file has left: index out of bounds in the diagnostics, exit 101 before anything is saved',
 'C15-move-in-swaps-existed': 'a rename whose target was on disk at the start of the push (renamed away and back, rename onto an existing empty file, rollback of a failed patch with a rename, refused rename): the target is rewritten in place instead of being replaced',
 'C16-old-name-existed-at-start': 'a file patch with differing old/new names whose old name was on disk at the start and was deleted or renamed away by an earlier patch of the same invocation',
 'C17-top-applied-goal-accepted': 'a goal naming exactly the top applied patch (two-step sequence: push 2, then push <second patch>): exit 0 without a message',
 'C18-backup-of-renamed-name-error-dropped': 'backups enabled, a rename patch inside the backup window and a fault hitting exactly the backup of the new name',
 'C19-only-first-name-checked': 'differing ---/+++ names where the old name is harmless and the new name escapes the tree, and the old file is absent (or the patch is a git rename)',
 'C20-try-max-fuzz-first': '--fuzz >= 1, a file patch with two hunks where the later hunk, stripped of its context, also occurs at or above the earlier hunk and has stale line numbers',
 'C01-frozen-line-ignores-direction': 'a -R series entry whose file patch has two hunks, the first deleting d more lines than it adds and the second starting within d unchanged lines (d >= 2c+1 at context width c): close changes at -U0, a net deletion of 7+ lines at -U3',
 'C04-rollback-ignores-applied-fuzz': '--fuzz >= 1, a modifying hunk that really needed fuzz, and that application being rolled back (--backup always, or onfail with a later failing patch)',
 'C07-union-compares-members-not-roots': 'at least five names first seen in the order y,z,a,b,c and the relations a-c, b-c, b-z, z-y in exactly that order (a deep inverted chain that the single compression pass flattens one level short)',
 'C09-named-goal-relative': 'an earlier invocation applied k>0 patches and a later one names its goal by patch name (not among the last k patches): it overshoots by k patches',
 'C10-sequential-rejects-in-dry-run': '--dry-run on a failing series through the single-threaded driver (--threads 1): a reject file is written',
 'C11-rename-with-one-name-accepted': 'a git patch with both "rename from" and "rename to" whose new side is /dev/null: accepted by the parser, unwrap panic when applied (exit 101)',
 'C12-modes-without-leading-zeros': 'a git file patch whose mode has a leading zero (000644, 040000): written with fewer than six digits, which the parser rejects',
 'C02-backward-scan-bound': 'a hunk with equal leading/trailing context whose stated line (plus previous offset) lies beyond file_len - hunk_len while its only/nearest match sits flush at the end of the file (e.g. after an earlier patch shrank the file)',
 'C03-frozen-line-untrimmed-suffix': '--fuzz >= 1, a hunk that only applies with fuzz (suffix context trimmed), followed by a hunk whose leading context overlaps the lines the first one changed',
 'C05-previous-deleted-after-apply': 'a failing patch with two entries: one creates or deletes a file cleanly, a sibling entry has a failing hunk, so the clean create/delete has to be undone',
 'C06-fetch-min-to-store': 'two failing patches on files of different workers and the interleaving in which the worker of the later one passes the stop test, the other worker publishes the earlier failure, then the first one stores its own (higher) index',
 'C08-backup-window-from-series-end': '--threads >= 2, a push that stops early at a failing patch, backups enabled and --backup-count smaller than the number of patches in the range',
 'C13-stop-check-at-patch-boundary': '--threads >= 2, a failing patch with failing hunks in files of different workers, one worker publishing the failure before the other reaches that patch',
}
V = os.path.dirname(os.path.dirname(os.path.abspath(__file__)))
rows = []
for m in sorted(glob.glob(os.path.join(V, 'seeded', '*', 'meta.json'))):
    d = json.load(open(m))
    if d['id'] in NEEDS:
        d['needs_to_manifest'] = NEEDS[d['id']]
        json.dump(d, open(m, 'w'), indent=1)
    caught = [c for c, r in d.get('checks_against_the_change', {}).items() if isinstance(r, dict) and r.get('exit') == 1]
    silent = [c for c, r in d.get('checks_against_the_change', {}).items() if isinstance(r, dict) and r.get('exit') == 0]
    rows.append((d['id'], d['property'], d.get('needs_to_manifest', ''), ', '.join(caught) or '-', ', '.join(silent) or '-', d.get('note', '')))
with open(os.path.join(V, 'seeded', 'README.md'), 'w') as f:
    f.write('# Seeded property-breaking changes\n\nEach directory holds a change to openSUSE/rapidquilt written by an independent sub-agent that was given only the text of one property and a scratch\n'
            'worktree (nothing from /verif): `patch.diff`, the agent\'s demonstration (`demo/`, fails with the change, passes without), its `NOTES.md`, and `meta.json`\n'
            '(what was confirmed, what was run, and the result of the quick checks with the change applied to /repo). All of them compile and pass the 49 existing tests.\n'
            'None of them is ever committed to /repo. Re-run with `tools/seed_eval.py` (from a worktree) or by hand: `git -C /repo apply seeded/<id>/patch.diff; ./check <Cxx>; git -C /repo checkout -- .`\n\n'
            '| seed | property | needs, in order to manifest | reported by (quick tier) | silent (as expected: other property) | note |\n|---|---|---|---|---|---|\n')
    for r in rows:
        f.write('| %s | %s | %s | %s | %s | %s |\n' % r)
print(len(rows), 'seeds')
