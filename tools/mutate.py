#!/usr/bin/env python3
"""tools/mutate.py [--no-suite] <file-in-repo> <old> <new> <check-id>...   apply a one-line mutation to /repo, run the
repo's suite and the given checks (quick tier), restore the file. For self-validation only; never commits."""
import subprocess, sys, os
args = sys.argv[1:]
suite = True
if args[0] == '--no-suite':
    suite = False; args = args[1:]
f, old, new, checks = args[0], args[1], args[2], args[3:]
path = os.path.join('/repo', f)
src = open(path).read()
if src.count(old) != 1:
    sys.exit('pattern occurs %d times' % src.count(old))
open(path, 'w').write(src.replace(old, new))
try:
    if suite:
        p = subprocess.run('cd /repo && cargo test --workspace --no-fail-fast --offline 2>&1 | grep -E "^test result|panicked|FAILED" | head -8', shell=True, stdout=subprocess.PIPE)
        out = p.stdout.decode()
        print('SUITE:', 'FAILS' if 'FAILED' in out or 'failed;' in out and ' 0 failed' not in out else 'passes')
        print(out)
    for c in checks:
        p = subprocess.run(['/verif/check', c], stdout=subprocess.PIPE, stderr=subprocess.PIPE)
        print('CHECK', c, 'rc=%d' % p.returncode)
        print('\n'.join((p.stdout.decode() + p.stderr.decode()).splitlines()[-6:]))
finally:
    open(path, 'w').write(src)
    subprocess.run(['git', '-C', '/repo', 'status', '--short'])
