#!/usr/bin/env python3
"""tools/seed_eval.py <seed-id> <worktree> <property> <check>...
Confirms a seeded change written by a sub-agent (suite passes with it; its demo fails with it and passes without it,
both built in the scratch worktree), stores it under /verif/seeded/<seed-id>/, then applies it to /repo, runs the given
checks (quick tier), and restores /repo. Never commits anything in /repo."""
import json, os, shutil, subprocess, sys, time

sid, wt, prop, checks = sys.argv[1], sys.argv[2], sys.argv[3], sys.argv[4:]
dst = os.path.join('/verif/seeded', sid)
sh = lambda cmd, **kw: subprocess.run(cmd, shell=True, stdout=subprocess.PIPE, stderr=subprocess.STDOUT, **kw)
env = dict(os.environ, CARGO_TARGET_DIR=os.path.join(wt, 'target'))
ran = []

def step(name, cmd, cwd=wt):
    p = sh(cmd, cwd=cwd, env=env)
    out = p.stdout.decode(errors='replace')
    ran.append({'step': name, 'cmd': cmd, 'exit': p.returncode, 'tail': out.strip().splitlines()[-3:]})
    print('[%s] exit=%d %s' % (name, p.returncode, ' | '.join(out.strip().splitlines()[-2:])[:300]))
    return p.returncode, out

diff = open(os.path.join(wt, 'mutant.diff')).read()
# 1. with the change: suite passes, demo fails
rc, out = step('suite-with-change', 'cargo test --workspace --offline 2>&1 | grep -E "^test result|FAILED"')
suite_ok = 'FAILED' not in out and out.count('test result: ok') >= 2
step('build-with-change', 'cargo build --offline 2>&1 | tail -1')
demo = 'bash demo/run.sh %s/target/debug/rapidquilt' % wt
rc_mut, _ = step('demo-with-change', demo)
# 2. without the change: demo passes
# (no `git stash`: the stash is shared between worktrees)
step('take-the-change-out', 'git diff -- src > .seed_eval.diff && git apply -R .seed_eval.diff')
step('build-without-change', 'cargo build --offline 2>&1 | tail -1')
rc_base, _ = step('demo-without-change', demo)
step('put-the-change-back', 'git apply .seed_eval.diff && rm -f .seed_eval.diff')
confirmed = suite_ok and rc_mut != 0 and rc_base == 0
print('CONFIRMED' if confirmed else 'NOT CONFIRMED', 'suite_ok=%s demo_with=%d demo_without=%d' % (suite_ok, rc_mut, rc_base))
if not confirmed:
    sys.exit(1)
os.makedirs(dst, exist_ok=True)
open(os.path.join(dst, 'patch.diff'), 'w').write(diff)
if os.path.isdir(os.path.join(dst, 'demo')):
    shutil.rmtree(os.path.join(dst, 'demo'))
shutil.copytree(os.path.join(wt, 'demo'), os.path.join(dst, 'demo'), ignore=shutil.ignore_patterns('*.orig', 'target'))
# drop big generated inputs (demos regenerate them) - keep the stored demo small
for root, dirs, files in os.walk(os.path.join(dst, 'demo')):
    for f in files:
        p = os.path.join(root, f)
        if os.path.getsize(p) > 300000:
            os.unlink(p)
for notes in ('NOTES.md', 'NOTES.txt'):
    if os.path.exists(os.path.join(wt, notes)):
        shutil.copy(os.path.join(wt, notes), os.path.join(dst, 'NOTES.md'))
# 3. the checks against the change
results = {}
if os.environ.get('SEED_EVAL_ALT'):
    # through tools/alt_eval.sh: a scratch copy of the tree, /repo's working tree is left alone (several seeds at a time)
    q = sh('/verif/tools/alt_eval.sh %s %s/patch.diff %s' % (sid, dst, ' '.join(checks)))
    for l in q.stdout.decode(errors='replace').splitlines():
        if l.startswith(sid + ' '):
            c = l.split()[1].rstrip(':')
            n = int(l.split('violations=')[1].split()[0]) if 'violations=' in l else -1
            results[c] = {'violation_lines': n, 'classes': [x.strip() for x in l.split('  ', 1)[1].split(';') if x.strip()][:4] if '  ' in l else [], 'line': l[:400]}
            print('CHECK', l[:300])
        elif 'no longer applies' in l:
            results['apply'] = 'failed'
    p = None
else:
    p = sh('git -C /repo apply --check %s/patch.diff && git -C /repo apply %s/patch.diff' % (dst, dst))
if p is None:
    pass
elif p.returncode != 0:
    print('patch does not apply to /repo HEAD:', p.stdout.decode()[-300:])
    results['apply'] = 'failed'
else:
    try:
        for c in checks:
            t0 = time.time()
            q = subprocess.run(['/verif/check', c], stdout=subprocess.PIPE, stderr=subprocess.PIPE)
            lines = (q.stdout.decode() + q.stderr.decode()).splitlines()
            viol = [l for l in lines if l.startswith('VIOLATION')]
            cls = [l.strip() for l in lines if l.strip().startswith('class=')][:4]
            results[c] = {'exit': q.returncode, 'violation_lines': len(viol), 'classes': cls, 'wall_s': round(time.time() - t0, 1)}
            print('CHECK %s exit=%d %s' % (c, q.returncode, cls[:2]))
    finally:
        sh('git -C /repo checkout -- . && git -C /repo status --short')
        shutil.rmtree('/verif/replays', ignore_errors=True); os.makedirs('/verif/replays'); open('/verif/replays/.gitkeep', 'w').close()
meta = {'id': sid, 'property': prop, 'written_by': 'independent sub-agent given only the property text and a scratch worktree',
        'base_commit': subprocess.run(['git', '-C', wt, 'rev-parse', 'HEAD'], stdout=subprocess.PIPE).stdout.decode().strip(),
        'confirmed': {'suite_passes_with_change': suite_ok, 'demo_fails_with_change': rc_mut != 0, 'demo_passes_without_change': rc_base == 0},
        'what_i_ran': ran, 'checks_against_the_change': results}
note = os.path.join(wt, 'NOTES.md')
json.dump(meta, open(os.path.join(dst, 'meta.json'), 'w'), indent=1)
print(json.dumps(results, indent=1))
