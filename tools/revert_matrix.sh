#!/bin/bash
# Undo each repair of round 4 in turn (working tree of /repo only) and run the checks that are meant to notice it.
# Output: notes/revert_matrix.txt. /repo must be clean and no other run may be using it.
cd /verif || exit 2
h() { git -C /repo log --format='%h %s' | grep -F -- "$1" | head -1 | cut -d' ' -f1; }
out=notes/revert_matrix.txt; : > $out
run() { c=$(h "$1"); shift; [ -z "$c" ] && { echo "no commit for $1" >> $out; return; }; tools/revert_eval.sh $c "$@" 2>&1 | grep -v conda | cut -c1-220 >> $out; }
run "rejected hunks of several entries" C13
run '"./file" and "file" name the same file' C05 C13
run "whose extension is not valid UTF-8" C13
run "names more than once keeps the mode" C08
run "undoing a rename brings back" C08
run "reported with the name of the file" C18
run "push count near the integer limit" C09
run "comment after the options of a series entry" C16
run "strip count in the series file that is not a number" C16
run "with fuzz, a hunk is looked for where" C02
run "tied to the start of the file by the line number" C02
run "forward search for a hunk starts at the first line" C11
run "context-free hunk at the top of a file that stays is placed" C02
run "in a parallel push an error counts only" C06 C05
run "comparison hint of the failure diagnostics is skipped" C11
run "unquoted file name with blanks" C01
run "git entry without hunks that describes no change" C12
run "other spellings of that path stand for" C12
run "applied-patches that can not be read or understood" C17
run "--fuzz value that is not a number" C20
run "reject file left over from an earlier run" C15
run "mode of a written file is set after its content" C08
run "reached through a symbolic link may become empty" C05
run "fuzz hint of the failure diagnostics makes one attempt" C11
run "applied-patches is read as what it is" C09
run "directory of a file that one patch creates and a later one deletes" C09
run "counts the components of a name as they are written" C16
run "has used up, or that is a directory" C16
run "appended to .pc/applied-patches on a line of their own" C08
run "does not take a directory of size 0 for an empty file" C17
run "working directory itself is not removed" C19
run "does not follow a symbolic link below .pc" C19
run "entry dated to the epoch on one side keeps the name" C01
run "series file is read as bytes" C16
run "climbs past a directory that never came to exist" C09
run "also skipped when finding the matching lines alone" C11
# the refusal of used-up names uses the error that the refusal of names ending in a slash introduced: undone together, and each judged by its own cases
c5=$(h "all of whose names -pN has used up"); c6=$(h "ends in a slash or in")
tools/revert_eval.sh $c5 C16 2>&1 | grep -v conda | cut -c1-220 >> $out
tools/revert_eval.sh $c5,$c6 C05 C10 2>&1 | grep -v conda | cut -c1-220 >> $out
run "holds the names of the patches byte for byte" C09
run "never was there leaves no directory to clean up" C05
run "is written with its epoch date" C12
run "rollback also takes back that the file was there" C05 C06 C09
run "expected behind the frozen lines is not looked for among them" C02
run "date of a header line is looked for behind the name only" C12
run "can not be listed is an error" C18
run "beyond the file size limit fails" C18
run "comparisons of failed hunks with the file take a bounded amount" C11
run "lists of earlier patches in a failure report are bounded" C11
run "file where an emptied directory used to be does not stop the cleaning" C05
# the check of backups uses the function that the check of targets introduced: undone together
c3=$(h "does not follow a symbolic link below .pc"); c4=$(h "leads out of the working directory through a symbolic link")
tools/revert_eval.sh $c3,$c4 C19 2>&1 | grep -v conda | cut -c1-220 >> $out
# two repairs that touch the same lines: undone together (newest first)
c1=$(h "writes backups, cleans directories and writes rejects in the order"); c2=$(h "files that only rolled-back patches had loaded are not written")
tools/revert_eval.sh $c1,$c2 C05 C06 2>&1 | grep -v conda | cut -c1-220 >> $out
tools/revert_eval.sh $c1 C06 2>&1 | grep -v conda | cut -c1-220 >> $out
cat $out
