#!/bin/bash
# usage: revert_eval.sh <commit>[,<commit>...] <check>...  (several commits: newest first)   - undo one repair in /repo's working tree (not committed), run the checks, restore the tree
c=$1; shift
cd /repo || exit 2
git diff --quiet || { echo "/repo not clean"; exit 2; }
for one in ${c//,/ }; do if ! git revert -n "$one" >/dev/null 2>&1; then echo "revert of $one conflicts"; git revert --abort 2>/dev/null; git reset -q --hard HEAD; exit 3; fi; done
for p in "$@"; do
  out=$(cd /verif && ./check $p 2>&1 | grep -v conda)
  if echo "$out" | grep -q 'MACHINERY ERROR'; then echo "$c $p: NO VERDICT - $(echo "$out" | grep -m1 'MACHINERY ERROR' | cut -c1-120) (a later repair builds on this one: undo them together)"; continue; fi
  echo "$c $p: violations=$(echo "$out" | grep -c '^VIOLATION') $(echo "$out" | grep -m3 'class=' | tr '\n' ';' | cut -c1-300)"
done
git revert --abort 2>/dev/null; git reset -q --hard HEAD
