#!/usr/bin/env python3
"""Markdown table of what the two tiers covered: quick figures from evidence/*.json (as committed), thorough figures from a
log of `./check Cxx --tier thorough` runs (lines "[Cxx thorough] evaluations=... wall=...s")."""
import glob
import json
import re
import sys

ADDED = {
    'C01': 'dialects diff-N (KF-05) and git-space (names with blanks, tab-terminated)',
    'C02': 'one reading of the expected line (first guess + prefix fuzz); header pairs with differing line numbers; context-free hunks with an empty other side; two-hunk sweep on 9/11-line files with the second hunk decided when its matches lie clearly before or behind the first; hunks with two groups of changes',
    'C05': './name spellings as a per-patch option; hand-written workspaces (links, patches that cannot be loaded behind/before the failing one, non-UTF-8 names)',
    'C06': 'the same hand-written workspaces as workloads; ./name variants; rename onto an empty file / of a missing file behind a failure; .pc/p0.patch unusable',
    'C08': 'rename onto an empty 0600 file; file named twice with a mode change; runs as uid 65534 (set-id bits); applied-patches without final newline; every series of two file patches with one patch reversed',
    'C09': 'huge push counts as edges; ./name variants; hand-written graphs (links, #-named patch, empty directory; KF-03, KF-04; rolled-back creations; three explored at default verbosity)',
    'C10': 'special series and C06 workloads incl. the hand-written ones',
    'C11': 'grid body with a second hunk; CLI: lookalike lines, 4000 context lines; exotic tokens (tab-terminated names, /dev/null spellings)',
    'C12': 'same token additions; the former KF-02 class now has to pass; what creating, deleting and hunk-less entries do to a menu of files is compared; diff -N dialect, names that look like dates',
    'C13': 'several failing entries for one file (one section each, in order, also with failing entries for other files in between); non-UTF-8 name',
    'C14': '34 000 (thorough: 70 000) files with and without --mmap; failing patch with several entries for one file behind an earlier patch on it',
    'C15': 'a stale hard-linked reject next to every file',
    'C16': 'trailing comments; strip counts that are no numbers; strip and old/new choice corners with decoy files; the strip count over every name of up to three leading components; -R in the existence matrix',
    'C17': 'unreadable / unparseable applied-patches; thorough: four names',
    'C18': 'the message must name applied-patches by its path; failing directory listings; a file size limit; thorough: every series of the base space',
    'C19': 'symbolic links in the tree that lead out (and ones that stay inside); every name of up to 3 (4) components over {a, x, .., .} at every strip level',
    'C20': 'limits 2^64 and 10^30',
}


def fmt(n):
    if n is None:
        return '-'
    n = int(n)
    if n >= 10 ** 6:
        return '%.1f M' % (n / 1e6)
    if n >= 10 ** 4:
        return '%.0f k' % (n / 1e3)
    return str(n)


def main():
    thorough = {}
    if len(sys.argv) > 1:
        for l in open(sys.argv[1], errors='replace'):
            m = re.match(r'\[(C\d\d) thorough\] evaluations=(\d+) .*? wall=([\d.]+)s', l)
            if m:
                thorough[m.group(1)] = (int(m.group(2)), float(m.group(3)))
    print('| id | quick: evaluations (wall) | thorough: evaluations (wall) | added in round 4 |')
    print('|----|---------------------------|------------------------------|------------------|')
    for f in sorted(glob.glob('/verif/evidence/C*.json')):
        d = json.load(open(f))
        pid = d.get('property_id') or f[-8:-5]
        cov = d.get('coverage', {})
        q = '%s (%.0f s)' % (fmt(cov.get('evaluations')), d.get('wall_s') or 0)
        t = thorough.get(pid)
        print('| %s | %s | %s | %s |' % (pid, q, '%s (%.0f s)' % (fmt(t[0]), t[1]) if t else '-', ADDED.get(pid, '')))


main()
