//! C20 (lib level, metamorphic): raising the fuzz limit never changes an application that
//! already succeeded. Spaces: the C02 single-hunk space and the C03 derived multi-hunk space.
use crate::c02;
use crate::c03;
use crate::util::*;

const FMAX: usize = 3;

fn check(txt: &[u8], fbytes: &[u8], rev: bool, rep: &mut Report) {
    let runs: Vec<Result<Applied, ApplyErr>> = (0..=FMAX).map(|f| parse_apply(txt, Some(fbytes), None, rev, f, false)).collect();
    for f in 0..FMAX {
        let base = match &runs[f] {
            Ok(a) if a.ok => a,
            _ => continue,
        };
        for f2 in (f + 1)..=FMAX {
            rep.evaluations += 1;
            let multi = base.hunks.len() > 1;
            let fuzzy = base.hunks.iter().any(|h| matches!(h, HR::Applied { fuzz, .. } if *fuzz > 0));
            let could_fuzz = base.shapes.iter().any(|s| s.prefix.max(s.suffix) > f);
            // non-trivial: the higher limit opens a fuzz level that the lower one did not allow
            if could_fuzz {
                rep.nontrivial += 1;
            }
            if multi {
                rep.count("multi-hunk");
            }
            if fuzzy {
                rep.count("fuzz-used-at-lower-limit");
            }
            let mode: Option<String> = match &runs[f2] {
                Err(ApplyErr::Panic(m)) => Some(format!("panic:{}", &m[..m.len().min(40)])),
                Err(_) => Some("harness".into()),
                Ok(b) => {
                    if !b.ok {
                        Some("fails-at-higher-limit".into())
                    } else if b.after.content != base.after.content || b.after.deleted != base.after.deleted {
                        Some("different-content".into())
                    } else if b.hunks != base.hunks {
                        Some("different-placement".into())
                    } else {
                        None
                    }
                }
            };
            if rep.nontrivial % 30_000 == 5 && (multi || fuzzy) {
                rep.sample(|| J::obj(vec![("patch", J::bytes(txt)), ("file", J::bytes(fbytes)), ("reverse", J::B(rev)), ("F", J::u(f as u64)), ("F2", J::u(f2 as u64)), ("hunks_at_F", J::A(base.hunks.iter().map(hr_json).collect()))]));
            }
            if let Some(mode) = mode {
                let class = format!("{}-hunk{}", if multi { "multi" } else { "single" }, if fuzzy { "-fuzz-used" } else { "" });
                rep.violation(&class, &mode, || {
                    apply_witness(txt, Some(fbytes), None, rev, f2,
                        J::obj(vec![("at_limit", J::u(f as u64)), ("hunks", J::A(base.hunks.iter().map(hr_json).collect())), ("content", J::bytes(&base.after.content))]),
                        match &runs[f2] { Ok(b) => J::obj(vec![("at_limit", J::u(f2 as u64)), ("ok", J::B(b.ok)), ("hunks", J::A(b.hunks.iter().map(hr_json).collect())), ("content", J::bytes(&b.after.content))]), Err(e) => J::s(&format!("{:?}", e)) })
                });
            }
        }
    }
}

/// rqmc c20 <c02 file len> <c02 max ctx> <c03 file len> <c03 max ctx>
pub fn run(args: &[String]) {
    let t0 = std::time::Instant::now();
    let n: usize = args.get(0).and_then(|s| s.parse().ok()).unwrap_or(4);
    let maxctx: usize = args.get(1).and_then(|s| s.parse().ok()).unwrap_or(2);
    let n3: usize = args.get(2).and_then(|s| s.parse().ok()).unwrap_or(4);
    let ctx3: usize = args.get(3).and_then(|s| s.parse().ok()).unwrap_or(2);
    let files = seqs_upto(n, 2);
    let sh = c02::shapes(maxctx, 2);
    let files3 = canon_seqs(n3, 3);
    let n1 = sh.len();
    let rep = par_shards(n1 + files3.len(), n_threads(), |i, rep| {
        if i < n1 {
            for stated in 1..=(n + 2) {
                let mut txt = b"--- f\n+++ f\n".to_vec();
                c02_render(&sh[i], stated, &mut txt);
                for file in &files {
                    let fbytes = sym_file(file);
                    for &rev in &[false, true] {
                        check(&txt, &fbytes, rev, rep);
                    }
                }
            }
        } else {
            let file = &files3[i - n1];
            let fbytes = sym_file(file);
            let hs = c03::hunks_for(file, ctx3, &[-1, 0, 1]);
            for h1 in &hs {
                for h2 in &hs {
                    if h2.pos + h2.p < h1.pos {
                        continue;
                    }
                    for &rev in &[false, true] {
                        let txt = c03::render(file, &[h1, h2], rev);
                        check(&txt, &fbytes, rev, rep);
                    }
                }
            }
        }
    });
    let out = rep.to_json(vec![
        ("c02_space", J::obj(vec![("max_file_len", J::u(n as u64)), ("max_context", J::u(maxctx as u64))])),
        ("c03_space", J::obj(vec![("max_file_len", J::u(n3 as u64)), ("max_context", J::u(ctx3 as u64))])),
        ("fuzz_limits", J::s("all pairs F < F' <= 3")),
        ("wall_s", J::F(t0.elapsed().as_secs_f64())),
    ]);
    println!("{}", out.to_string());
}

fn c02_render(sh: &c02::Shape, stated: usize, out: &mut Vec<u8>) {
    sh.render_pub(stated, stated, out)
}
