//! Shared plumbing: JSON output, reports, sharded execution, apply helpers.
#![allow(dead_code)]

use std::collections::BTreeMap;
use std::fmt::Write as _;
use std::sync::atomic::{AtomicUsize, Ordering};
use std::sync::Mutex;

use libpatch::analysis::{fn_analysis_note_noop, AnalysisSet};
use libpatch::modified_file::ModifiedFile;
use libpatch::patch::unified::parser::parse_patch;
use libpatch::patch::{FilePatchKind, HunkApplyReport, PatchDirection, TextFilePatch};

// ---------------------------------------------------------------- JSON

#[derive(Clone, Debug)]
pub enum J {
    Null,
    B(bool),
    I(i64),
    F(f64),
    S(String),
    A(Vec<J>),
    O(Vec<(String, J)>),
}

impl J {
    /// bytes -> string of code points 0..255 (python: s.encode('latin-1'))
    pub fn bytes(b: &[u8]) -> J {
        J::S(b.iter().map(|&c| c as char).collect())
    }
    pub fn s(x: &str) -> J {
        J::S(x.to_string())
    }
    pub fn u(x: u64) -> J {
        J::I(x as i64)
    }
    pub fn obj(v: Vec<(&str, J)>) -> J {
        J::O(v.into_iter().map(|(k, v)| (k.to_string(), v)).collect())
    }
    pub fn write(&self, out: &mut String) {
        match self {
            J::Null => out.push_str("null"),
            J::B(b) => out.push_str(if *b { "true" } else { "false" }),
            J::I(i) => {
                let _ = write!(out, "{}", i);
            }
            J::F(f) => {
                let _ = write!(out, "{:.3}", f);
            }
            J::S(s) => {
                out.push('"');
                for c in s.chars() {
                    match c {
                        '"' => out.push_str("\\\""),
                        '\\' => out.push_str("\\\\"),
                        '\n' => out.push_str("\\n"),
                        '\r' => out.push_str("\\r"),
                        '\t' => out.push_str("\\t"),
                        c if (c as u32) < 0x20 || ((c as u32) >= 0x7f && (c as u32) < 0x100) => {
                            let _ = write!(out, "\\u{:04x}", c as u32);
                        }
                        c => out.push(c),
                    }
                }
                out.push('"');
            }
            J::A(v) => {
                out.push('[');
                for (i, x) in v.iter().enumerate() {
                    if i > 0 {
                        out.push(',');
                    }
                    x.write(out);
                }
                out.push(']');
            }
            J::O(v) => {
                out.push('{');
                for (i, (k, x)) in v.iter().enumerate() {
                    if i > 0 {
                        out.push(',');
                    }
                    J::S(k.clone()).write(out);
                    out.push(':');
                    x.write(out);
                }
                out.push('}');
            }
        }
    }
    pub fn to_string(&self) -> String {
        let mut s = String::new();
        self.write(&mut s);
        s
    }
}

// ---------------------------------------------------------------- Report

pub const MAX_WITNESSES: usize = 3;
pub const MAX_SAMPLES: usize = 6;

#[derive(Default, Clone)]
pub struct VClass {
    pub count: u64,
    pub witnesses: Vec<J>,
}

/// What one sweep (or one shard of it) observed.
#[derive(Default, Clone)]
pub struct Report {
    pub evaluations: u64,
    pub nontrivial: u64,
    /// named counters (outcome histogram etc.)
    pub counters: BTreeMap<String, u64>,
    /// (class, mode) -> count + first witnesses
    pub violations: BTreeMap<(String, String), VClass>,
    pub samples: Vec<J>,
    /// cases that hit a cap (not exhaustive)
    pub capped: bool,
}

impl Report {
    pub fn count(&mut self, name: &str) {
        *self.counters.entry(name.to_string()).or_insert(0) += 1;
    }
    pub fn add(&mut self, name: &str, n: u64) {
        *self.counters.entry(name.to_string()).or_insert(0) += n;
    }
    pub fn violation(&mut self, class: &str, mode: &str, witness: impl FnOnce() -> J) {
        let e = self.violations.entry((class.to_string(), mode.to_string())).or_default();
        e.count += 1;
        if e.witnesses.len() < MAX_WITNESSES {
            e.witnesses.push(witness());
        }
    }
    pub fn sample(&mut self, s: impl FnOnce() -> J) {
        if self.samples.len() < MAX_SAMPLES {
            self.samples.push(s());
        }
    }
    pub fn merge(&mut self, o: Report) {
        self.evaluations += o.evaluations;
        self.nontrivial += o.nontrivial;
        self.capped |= o.capped;
        for (k, v) in o.counters {
            *self.counters.entry(k).or_insert(0) += v;
        }
        for (k, v) in o.violations {
            let e = self.violations.entry(k).or_default();
            e.count += v.count;
            for w in v.witnesses {
                if e.witnesses.len() < MAX_WITNESSES {
                    e.witnesses.push(w);
                }
            }
        }
        for s in o.samples {
            if self.samples.len() < MAX_SAMPLES {
                self.samples.push(s);
            }
        }
    }
    pub fn total_violations(&self) -> u64 {
        self.violations.values().map(|v| v.count).sum()
    }
    pub fn to_json(&self, extra: Vec<(&str, J)>) -> J {
        let mut o: Vec<(String, J)> = vec![
            ("evaluations".into(), J::u(self.evaluations)),
            ("distinct_nontrivial".into(), J::u(self.nontrivial)),
            ("capped".into(), J::B(self.capped)),
            ("counters".into(), J::O(self.counters.iter().map(|(k, v)| (k.clone(), J::u(*v))).collect())),
            ("samples".into(), J::A(self.samples.clone())),
            (
                "violation_classes".into(),
                J::A(self
                    .violations
                    .iter()
                    .map(|((c, m), v)| {
                        J::obj(vec![
                            ("class", J::s(c)),
                            ("mode", J::s(m)),
                            ("count", J::u(v.count)),
                            ("witnesses", J::A(v.witnesses.clone())),
                        ])
                    })
                    .collect()),
            ),
        ];
        for (k, v) in extra {
            o.push((k.to_string(), v));
        }
        J::O(o)
    }
}

/// Run `f(shard, &mut Report)` for every shard in 0..n on all cores; merge in shard order
/// (so that witnesses and samples do not depend on thread timing).
pub fn par_shards<F>(n: usize, threads: usize, f: F) -> Report
where
    F: Fn(usize, &mut Report) + Sync,
{
    // RQMC_PART=k/N: this process only runs the shards i with i % N == k (process-level parallelism,
    // used where many allocating threads in one process contend in the allocator)
    let (part_k, part_n) = std::env::var("RQMC_PART").ok().and_then(|s| { let mut it = s.split('/'); Some((it.next()?.parse::<usize>().ok()?, it.next()?.parse::<usize>().ok()?)) }).unwrap_or((0, 1));
    let next = AtomicUsize::new(0);
    let results: Mutex<Vec<Option<Report>>> = Mutex::new((0..n).map(|_| None).collect());
    std::thread::scope(|s| {
        for _ in 0..threads.max(1) {
            s.spawn(|| loop {
                let i = next.fetch_add(1, Ordering::SeqCst);
                if i >= n {
                    break;
                }
                let mut r = Report::default();
                if i % part_n == part_k {
                    f(i, &mut r);
                }
                results.lock().unwrap()[i] = Some(r);
            });
        }
    });
    let mut total = Report::default();
    for r in results.into_inner().unwrap() {
        total.merge(r.expect("shard did not finish"));
    }
    total
}

pub fn n_threads() -> usize {
    std::env::var("RQMC_THREADS").ok().and_then(|s| s.parse().ok()).unwrap_or_else(|| {
        std::thread::available_parallelism().map(|n| n.get()).unwrap_or(4)
    })
}

pub fn silence_panics() {
    std::panic::set_hook(Box::new(|_| {}));
}

pub fn panic_message(e: Box<dyn std::any::Any + Send>) -> String {
    let s = if let Some(s) = e.downcast_ref::<String>() {
        s.clone()
    } else if let Some(s) = e.downcast_ref::<&str>() {
        s.to_string()
    } else {
        "panic".to_string()
    };
    s.chars().take(60).collect()
}

// ---------------------------------------------------------------- apply helpers

#[derive(Debug, Clone, PartialEq)]
pub enum HR {
    Applied { line: isize, offset: isize, fuzz: usize },
    Failed(String),
    Skipped,
}

#[derive(Debug, Clone)]
pub struct HunkShape {
    pub prefix: usize,
    pub suffix: usize,
    /// direction-adjusted: what the hunk looks for / what it puts there
    pub old: Vec<Vec<u8>>,
    pub new: Vec<Vec<u8>>,
    /// direction-adjusted 0-based start lines as parsed
    pub old_line: isize,
    pub new_line: isize,
}

#[derive(Debug, Clone, PartialEq)]
pub struct FileState {
    pub content: Vec<u8>,
    pub deleted: bool,
    pub mode: Option<u32>,
}

#[derive(Debug, Clone)]
pub struct Applied {
    pub ok: bool,
    pub kind: String,
    pub hunks: Vec<HR>,
    pub shapes: Vec<HunkShape>,
    pub after: FileState,
    /// state after rollback, or the panic message
    pub rolled_back: Option<Result<FileState, String>>,
}

pub fn mode_of(p: &Option<std::fs::Permissions>) -> Option<u32> {
    use std::os::unix::fs::PermissionsExt;
    p.as_ref().map(|p| p.mode())
}
pub fn perms(mode: Option<u32>) -> Option<std::fs::Permissions> {
    use std::os::unix::fs::PermissionsExt;
    mode.map(std::fs::Permissions::from_mode)
}

pub fn state_of(mf: &ModifiedFile) -> FileState {
    let mut content = Vec::new();
    for l in &mf.content {
        content.extend_from_slice(l);
    }
    FileState { content, deleted: mf.deleted, mode: mode_of(&mf.permissions) }
}

pub fn shapes_of(fp: &TextFilePatch, reverse: bool) -> Vec<HunkShape> {
    fp.hunks()
        .iter()
        .map(|h| {
            let (o, n) = if reverse { (&h.add, &h.remove) } else { (&h.remove, &h.add) };
            HunkShape {
                prefix: h.prefix_context,
                suffix: h.suffix_context,
                old: o.content.iter().map(|l| l.to_vec()).collect(),
                new: n.content.iter().map(|l| l.to_vec()).collect(),
                old_line: o.target_line,
                new_line: n.target_line,
            }
        })
        .collect()
}

pub fn reports_of(rep: &libpatch::patch::FilePatchApplyReport) -> Vec<HR> {
    rep.hunk_reports()
        .iter()
        .map(|h| match h {
            HunkApplyReport::Applied { line, offset, fuzz, .. } => HR::Applied { line: *line, offset: *offset, fuzz: *fuzz },
            HunkApplyReport::Failed(r) => HR::Failed(format!("{:?}", r)),
            HunkApplyReport::Skipped => HR::Skipped,
        })
        .collect()
}

pub fn kind_name(k: FilePatchKind) -> &'static str {
    match k {
        FilePatchKind::Modify => "Modify",
        FilePatchKind::Create => "Create",
        FilePatchKind::Delete => "Delete",
    }
}

#[derive(Debug)]
pub enum ApplyErr {
    Parse(String),
    /// number of file patches != 1
    Shape(usize),
    Panic(String),
}

/// Parse `patch` (strip 0), apply its only file patch to `file` (None = absent) and,
/// if `rollback`, roll it back again. Panics are caught and reported.
pub fn parse_apply(patch: &[u8], file: Option<&[u8]>, mode: Option<u32>, reverse: bool, fuzz: usize, rollback: bool) -> Result<Applied, ApplyErr> {
    let r = std::panic::catch_unwind(|| {
        let p = match parse_patch(patch, 0, false) {
            Ok(p) => p,
            Err(e) => return Err(ApplyErr::Parse(format!("{}", e))),
        };
        if p.file_patches.len() != 1 {
            return Err(ApplyErr::Shape(p.file_patches.len()));
        }
        let fp = &p.file_patches[0];
        let mut mf = match file {
            Some(b) => ModifiedFile::new(b, true, perms(mode)),
            None => ModifiedFile::new_non_existent(),
        };
        let dir = if reverse { PatchDirection::Revert } else { PatchDirection::Forward };
        let rep = fp.apply(&mut mf, dir, fuzz, &AnalysisSet::default(), &fn_analysis_note_noop);
        let after = state_of(&mf);
        let rolled_back = if rollback {
            Some(
                std::panic::catch_unwind(std::panic::AssertUnwindSafe(|| {
                    fp.rollback(&mut mf, rep.direction(), &rep);
                    state_of(&mf)
                }))
                .map_err(panic_message),
            )
        } else {
            None
        };
        Ok(Applied { ok: rep.ok(), kind: kind_name(fp.kind()).to_string(), hunks: reports_of(&rep), shapes: shapes_of(fp, reverse), after, rolled_back })
    });
    match r {
        Ok(x) => x,
        Err(e) => Err(ApplyErr::Panic(panic_message(e))),
    }
}

pub fn hr_json(h: &HR) -> J {
    match h {
        HR::Applied { line, offset, fuzz } => J::obj(vec![("applied", J::B(true)), ("line", J::I(*line as i64)), ("offset", J::I(*offset as i64)), ("fuzz", J::u(*fuzz as u64))]),
        HR::Failed(r) => J::obj(vec![("applied", J::B(false)), ("reason", J::s(r))]),
        HR::Skipped => J::obj(vec![("applied", J::B(false)), ("reason", J::s("skipped"))]),
    }
}

/// Standard witness for a lib-level apply case; `./check replay` knows how to re-run it.
pub fn apply_witness(patch: &[u8], file: Option<&[u8]>, mode: Option<u32>, reverse: bool, fuzz: usize, expected: J, observed: J) -> J {
    J::obj(vec![
        ("kind", J::s("lib-apply")),
        ("patch", J::bytes(patch)),
        ("file", match file { Some(f) => J::bytes(f), None => J::Null }),
        ("mode", match mode { Some(m) => J::u(m as u64), None => J::Null }),
        ("reverse", J::B(reverse)),
        ("fuzz", J::u(fuzz as u64)),
        ("expected", expected),
        ("observed", observed),
    ])
}

// ---------------------------------------------------------------- small enumeration helpers

/// all sequences over 0..nsym of exactly `len`
pub fn seqs_exact(len: usize, nsym: u8) -> Vec<Vec<u8>> {
    let mut out = vec![vec![]];
    for _ in 0..len {
        let mut next = Vec::with_capacity(out.len() * nsym as usize);
        for s in &out {
            for c in 0..nsym {
                let mut t: Vec<u8> = s.clone();
                t.push(c);
                next.push(t);
            }
        }
        out = next;
    }
    out
}

/// all sequences over 0..nsym of length 0..=maxlen, shortest first
pub fn seqs_upto(maxlen: usize, nsym: u8) -> Vec<Vec<u8>> {
    (0..=maxlen).flat_map(|l| seqs_exact(l, nsym)).collect()
}

/// restricted-growth strings (canonical up to renaming of letters) over at most `maxsym` symbols
pub fn canon_seqs(maxlen: usize, maxsym: u8) -> Vec<Vec<u8>> {
    fn rec(cur: &mut Vec<u8>, used: u8, maxsym: u8, maxlen: usize, out: &mut Vec<Vec<u8>>) {
        out.push(cur.clone());
        if cur.len() == maxlen {
            return;
        }
        for s in 0..=used.min(maxsym - 1) {
            cur.push(s);
            rec(cur, if s == used { used + 1 } else { used }, maxsym, maxlen, out);
            cur.pop();
        }
    }
    let mut out = vec![];
    rec(&mut vec![], 0, maxsym, maxlen, &mut out);
    out.sort_by_key(|s| s.len());
    out
}

pub fn sym_line(sym: u8) -> Vec<u8> {
    vec![b'a' + sym, b'\n']
}

pub fn sym_file(f: &[u8]) -> Vec<u8> {
    f.iter().flat_map(|c| sym_line(*c)).collect()
}
