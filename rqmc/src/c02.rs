//! C02 (lib level): hunk placement - offset, anchoring, fuzz - against the documented rules.
//!
//! Every file over {a,b} up to n lines x every hunk shape (prefix/suffix context, removed and
//! added lines) x stated line x fuzz limit x direction is run through the real parser + apply;
//! the verdict is checked clause by clause from the set of matching positions (computed here
//! by brute force). Where the statement leaves something open (conflicts between hunks) only the clauses that do not
//! depend on it are decided.
use crate::util::*;

/// symbols: 0='a', 1='b', 2='c' (only ever an added line)
#[derive(Clone, Debug)]
pub struct Shape {
    pub pc: Vec<u8>,
    pub rc: Vec<u8>,
    pub kc: Vec<u8>,
    /// a second group of changes behind `mc` lines of context in the middle of the hunk: `r2` removed, `k2` added lines
    /// (all three empty for the ordinary one-group shapes)
    pub mc: Vec<u8>,
    pub r2: Vec<u8>,
    pub k2: Vec<u8>,
    pub sc: Vec<u8>,
}

impl Shape {
    fn old(&self, rev: bool) -> Vec<u8> {
        let (core, core2) = if rev { (&self.kc, &self.k2) } else { (&self.rc, &self.r2) };
        self.pc.iter().chain(core.iter()).chain(self.mc.iter()).chain(core2.iter()).chain(self.sc.iter()).cloned().collect()
    }
    fn p(&self) -> usize {
        self.pc.len()
    }
    fn s(&self) -> usize {
        self.sc.len()
    }
    pub fn render_pub(&self, old_start: usize, new_start: usize, out: &mut Vec<u8>) {
        self.render(old_start, new_start, out)
    }
    fn render(&self, old_start: usize, new_start: usize, out: &mut Vec<u8>) {
        let oc = self.pc.len() + self.rc.len() + self.mc.len() + self.r2.len() + self.sc.len();
        let nc = self.pc.len() + self.kc.len() + self.mc.len() + self.k2.len() + self.sc.len();
        out.extend_from_slice(format!("@@ -{},{} +{},{} @@\n", old_start, oc, new_start, nc).as_bytes());
        for c in &self.pc {
            out.push(b' ');
            out.extend(sym_line(*c));
        }
        for c in &self.rc {
            out.push(b'-');
            out.extend(sym_line(*c));
        }
        for c in &self.kc {
            out.push(b'+');
            out.extend(sym_line(*c));
        }
        for c in &self.mc {
            out.push(b' ');
            out.extend(sym_line(*c));
        }
        for c in &self.r2 {
            out.push(b'-');
            out.extend(sym_line(*c));
        }
        for c in &self.k2 {
            out.push(b'+');
            out.extend(sym_line(*c));
        }
        for c in &self.sc {
            out.push(b' ');
            out.extend(sym_line(*c));
        }
    }
}

/// trimming at fuzz level f per the documented rule: (prefix trimmed, suffix trimmed, prefix left, suffix left)
pub fn trims(p: usize, s: usize, f: usize) -> (usize, usize, usize, usize) {
    let ctx = p.max(s);
    let rem = ctx.saturating_sub(f);
    let tp = p.min(rem);
    let ts = s.min(rem);
    (p - tp, s - ts, tp, ts)
}

#[derive(Debug, Clone, Copy, PartialEq)]
pub enum Anchor {
    Start,
    End,
    Middle,
}

pub struct Level {
    pub pf: usize,
    pub anchor: Anchor,
    /// positions (of the trimmed block) at which it matches the file
    pub cands: Vec<isize>,
    pub maxq: isize,
    pub fits: bool,
}

/// everything the oracle needs about one hunk on one file at level f
pub fn level(file: &[u8], old: &[u8], p: usize, s: usize, f: usize, first_line_is_1: bool) -> Level {
    level_from(file, old, p, s, f, first_line_is_1, isize::MIN)
}

/// `min_q`: positions before it do not count (they lie before what the previous hunk changed: no implementation may use them)
pub fn level_from(file: &[u8], old: &[u8], p: usize, s: usize, f: usize, first_line_is_1: bool, min_q: isize) -> Level {
    let (pf, sf, tp, ts) = trims(p, s, f);
    let pat = &old[pf..old.len() - sf];
    let anchor = if tp < ts && first_line_is_1 {
        Anchor::Start
    } else if tp > ts {
        Anchor::End
    } else {
        Anchor::Middle
    };
    if pat.len() > file.len() {
        return Level { pf, anchor, cands: vec![], maxq: -1, fits: false };
    }
    let maxq = (file.len() - pat.len()) as isize;
    let cands = (0..=maxq).filter(|&q| q >= min_q && &file[q as usize..q as usize + pat.len()] == pat).collect();
    Level { pf, anchor, cands, maxq, fits: true }
}

/// positions the rules allow at this level, given the acceptable expected lines
pub fn admissible(l: &Level, expected: &[isize]) -> Vec<isize> {
    match l.anchor {
        Anchor::Start => l.cands.iter().cloned().filter(|&q| q == 0).collect(),
        Anchor::End => l.cands.iter().cloned().filter(|&q| q == l.maxq).collect(),
        Anchor::Middle => {
            let mut acc = vec![];
            for &e in expected {
                // nearest, forward winning ties
                if let Some(best) = l.cands.iter().cloned().min_by_key(|&q| ((q - e).abs(), if q < e { 1 } else { 0 })) {
                    if !acc.contains(&best) {
                        acc.push(best);
                    }
                }
            }
            acc
        }
    }
}

pub struct Verdict {
    pub violation: Option<(String, String)>, // (clause, detail)
    pub nontrivial: bool,
}

/// Clause-wise oracle for one hunk. `expected0`: expected position of the *whole hunk* (stated line of the side that is
/// looked for, 0-based, + the offset at which the previous hunk - as a whole - went in). What is left of the hunk after
/// trimming `pf` leading lines is expected `pf` lines further down (patch: first guess + prefix fuzz).
/// `full`: false = only clause (1) is decidable (the hunk conflicts with the previous one, which the statement leaves open).
pub fn judge(file: &[u8], old: &[u8], p: usize, s: usize, first_line_is_1: bool, fmax: usize, expected0: &[isize], hr: &HR, full: bool, single: bool) -> Verdict {
    judge_from(file, old, p, s, first_line_is_1, fmax, expected0, hr, full, single, isize::MIN)
}

/// `min_q` > MIN: the hunk is expected behind the previous one and every match lies clearly before or clearly behind it; only
/// the ones behind count, and "misordered" is no answer when one of them is there
pub fn judge_from(file: &[u8], old: &[u8], p: usize, s: usize, first_line_is_1: bool, fmax: usize, expected0: &[isize], hr: &HR, full: bool, single: bool, min_q: isize) -> Verdict {
    let level = |file: &[u8], old: &[u8], p: usize, s: usize, f: usize, first: bool| level_from(file, old, p, s, f, first, min_q);
    let cap = fmax.min(p.max(s));
    let exp_at = |l: &Level| -> Vec<isize> { expected0.iter().map(|e| e + l.pf as isize).collect() };
    match hr {
        HR::Applied { line, fuzz, .. } => {
            if *fuzz > cap {
                return Verdict { violation: Some(("fuzz-above-limit".into(), format!("fuzz {} > {}", fuzz, cap))), nontrivial: true };
            }
            let l = level(file, old, p, s, *fuzz, first_line_is_1);
            // clause 1: the trimmed old side is at the reported position
            if !l.cands.contains(line) {
                return Verdict { violation: Some(("applied-where-it-does-not-match".into(), format!("line {} fuzz {}", line, fuzz))), nontrivial: true };
            }
            let nontrivial = l.cands.len() > 1 || *fuzz > 0;
            if !full {
                return Verdict { violation: None, nontrivial };
            }
            // clause 2: nearest / anchored
            let adm = admissible(&l, &exp_at(&l));
            if !adm.contains(line) {
                let what = match l.anchor {
                    Anchor::Start => "start-anchored-hunk-applied-elsewhere",
                    Anchor::End => "end-anchored-hunk-applied-elsewhere",
                    Anchor::Middle => "not-the-nearest-match",
                };
                return Verdict { violation: Some((what.into(), format!("line {} fuzz {} allowed {:?}", line, fuzz, adm))), nontrivial: true };
            }
            // clause 3: no lower level admits a position
            for g in 0..*fuzz {
                let lg = level(file, old, p, s, g, first_line_is_1);
                if !admissible(&lg, &exp_at(&lg)).is_empty() {
                    return Verdict { violation: Some(("higher-fuzz-than-needed".into(), format!("used {} but level {} matches", fuzz, g))), nontrivial: true };
                }
            }
            Verdict { violation: None, nontrivial }
        }
        HR::Failed(reason) if reason == "NoMatchingLines" || (single && (reason == "DeletingFileThatDoesNotMatch")) => {
            if !full {
                return Verdict { violation: None, nontrivial: false };
            }
            // clause 4: no admissible position at any permitted level
            for g in 0..=cap {
                let lg = level(file, old, p, s, g, first_line_is_1);
                let any = match lg.anchor {
                    Anchor::Middle => !lg.cands.is_empty(),
                    _ => !admissible(&lg, &[0]).is_empty(),
                };
                if any {
                    return Verdict { violation: Some(("failed-although-a-position-matches".into(), format!("level {} positions {:?}", g, lg.cands))), nontrivial: true };
                }
            }
            Verdict { violation: None, nontrivial: false }
        }
        HR::Failed(reason) => {
            // "misordered" is not a failure for lack of a match: the statement does not constrain it
            // (C01 and C03 do); it cannot happen to the only hunk of a patch.
            if reason == "MisorderedHunks" && !expected0.is_empty() && !single {
                if full && min_q > isize::MIN {
                    for g in 0..=cap {
                        let lg = level(file, old, p, s, g, first_line_is_1);
                        if !admissible(&lg, &exp_at(&lg)).is_empty() {
                            return Verdict { violation: Some(("refused-as-misordered-although-a-position-behind-the-previous-hunk-matches".into(), format!("level {} positions {:?}", g, lg.cands))), nontrivial: true };
                        }
                    }
                }
                return Verdict { violation: None, nontrivial: false };
            }
            Verdict { violation: Some(("unexpected-failure-reason".into(), reason.clone())), nontrivial: true }
        }
        HR::Skipped => Verdict { violation: Some(("unexpected-failure-reason".into(), "skipped".into())), nontrivial: true },
    }
}

pub fn shapes(maxctx: usize, maxcore: usize) -> Vec<Shape> {
    let mut v = vec![];
    for p in 0..=maxctx {
        for s in 0..=maxctx {
            for r in 0..=maxcore {
                for k in 0..=maxcore {
                    if r + k == 0 {
                        continue;
                    }
                    // a side without any line and no context is C01's business (create/delete shapes)
                    if p + s == 0 && (r == 0 || k == 0) {
                        continue;
                    }
                    for pc in seqs_exact(p, 2) {
                        for rc in seqs_exact(r, 2) {
                            for kc in seqs_exact(k, 2) {
                                for sc in seqs_exact(s, 2) {
                                    v.push(Shape { pc: pc.clone(), rc: rc.clone(), kc: kc.clone(), mc: vec![], r2: vec![], k2: vec![], sc });
                                }
                            }
                        }
                    }
                }
            }
        }
    }
    v
}

/// hunks with two groups of changes and context between them: what counts as leading and trailing context is what stands
/// before the first and behind the last changed line, whatever kind of line that is
pub fn shapes_two_groups() -> Vec<Shape> {
    let mut v = vec![];
    for p in 0..=1usize {
        for s in 0..=1usize {
            for m in 1..=2usize {
                for (r, k, r2, k2) in [(1usize, 0usize, 0usize, 1usize), (0, 1, 1, 0), (1, 1, 0, 1), (0, 1, 0, 1), (1, 0, 1, 0), (1, 0, 1, 1)] {
                    for pc in seqs_exact(p, 2) {
                        for rc in seqs_exact(r, 2) {
                            for mc in seqs_exact(m, 2) {
                                for r2c in seqs_exact(r2, 2) {
                                    for sc in seqs_exact(s, 2) {
                                        v.push(Shape { pc: pc.clone(), rc: rc.clone(), kc: vec![2; k], mc: mc.clone(), r2: r2c.clone(), k2: vec![2; k2], sc });
                                    }
                                }
                            }
                        }
                    }
                }
            }
        }
    }
    v
}

fn class_of(sh: &Shape, clause: &str, nh: usize) -> String {
    format!("{}{}{}", clause, if nh > 1 { "-second-hunk" } else { "" }, if sh.mc.is_empty() { "" } else { "-two-groups-of-changes" })
}

fn witness(txt: &[u8], fbytes: &[u8], rev: bool, fmax: usize, detail: &str, o: &Result<Applied, ApplyErr>) -> J {
    apply_witness(
        txt,
        Some(fbytes),
        None,
        rev,
        fmax,
        J::s(detail),
        match o {
            Ok(o) => J::obj(vec![("hunks", J::A(o.hunks.iter().map(hr_json).collect()))]),
            Err(e) => J::s(&format!("{:?}", e)),
        },
    )
}

/// single-hunk sweep for one shape
fn sweep_shape(sh: &Shape, files: &[Vec<u8>], n: usize, fcap: usize, rep: &mut Report) {
    // the line numbers of the two sides: equal (as diff writes them for a first hunk), and four pairs that differ, with a 1 on
    // one side only - what ties a hunk to the start of the file is the number of the side that is looked for
    let mut pairs: Vec<(usize, usize)> = (1..=(n + 3)).map(|x| (x, x)).collect();
    pairs.extend_from_slice(&[(1, 3), (3, 1), (1, 2), (2, 1)]);
    for (so, sn) in pairs {
        let mut txt = b"--- f\n+++ f\n".to_vec();
        sh.render(so, sn, &mut txt);
        for file in files {
            let fbytes = sym_file(file);
            for fmax in 0..=fcap {
                for &rev in &[false, true] {
                    rep.evaluations += 1;
                    let old = sh.old(rev);
                    let o = parse_apply(&txt, Some(&fbytes), None, rev, fmax, false);
                    let stated = if rev { sn } else { so };
                    if so != sn {
                        rep.count("line-numbers-of-the-two-sides-differ");
                    }
                    let stated0 = (stated as isize - 1).max(0);
                    let v = match &o {
                        Ok(a) if a.hunks.len() == 1 => judge(file, &old, sh.p(), sh.s(), stated <= 1, fmax, &[stated0], &a.hunks[0], true, true),
                        Ok(_) => Verdict { violation: Some(("harness".into(), "hunk count".into())), nontrivial: false },
                        Err(ApplyErr::Panic(m)) => Verdict { violation: Some(("panic".into(), m.clone())), nontrivial: true },
                        Err(e) => Verdict { violation: Some(("harness".into(), format!("{:?}", e))), nontrivial: false },
                    };
                    if let Ok(a) = &o {
                        match &a.hunks[0] {
                            HR::Applied { fuzz, offset, .. } => {
                                rep.count("applied");
                                if *fuzz > 0 {
                                    rep.count("applied-with-fuzz");
                                }
                                if *offset != 0 {
                                    rep.count("applied-with-offset");
                                }
                            }
                            _ => rep.count("failed"),
                        }
                    }
                    if v.nontrivial {
                        rep.nontrivial += 1;
                        if rep.nontrivial % 20_000 == 1 {
                            rep.sample(|| witness(&txt, &fbytes, rev, fmax, "sample", &o));
                        }
                    }
                    if let Some((clause, detail)) = v.violation {
                        let mode = match &o {
                            Err(ApplyErr::Panic(m)) => format!("panic:{}", &m[..m.len().min(40)]),
                            _ => "wrong-placement".to_string(),
                        };
                        rep.violation(&class_of(sh, &clause, 1), &mode, || witness(&txt, &fbytes, rev, fmax, &format!("{}: {}", clause, detail), &o));
                    }
                }
            }
        }
    }
}

/// two-hunk sweep: a first hunk derived from a file position (so that it applies, possibly with an
/// offset) followed by a general second hunk; checks "expected line = stated + previous offset".
fn sweep_two(file: &[u8], second: &[Shape], n: usize, fcap: usize, lean: bool, rep: &mut Report) {
    let fbytes = sym_file(file);
    for i1 in 0..file.len() {
        // lean (the long files): the first hunk without context, stated where it is
        for c1 in 0..=(if lean { 0 } else { 1usize }) {
            if i1 < c1 || i1 + 1 + c1 > file.len() {
                continue;
            }
            for delta1 in (if lean { 0..=0isize } else { -2..=2isize }) {
                let h1 = Shape { pc: file[i1 - c1..i1].to_vec(), rc: vec![file[i1]], kc: vec![2], mc: vec![], r2: vec![], k2: vec![], sc: file[i1 + 1..i1 + 1 + c1].to_vec() };
                let true1 = (i1 - c1) as isize;
                let st1 = true1 + 1 + delta1;
                if st1 < 1 {
                    continue;
                }
                for sh in second {
                    for stated in 1..=(n + 2) {
                        let mut txt = b"--- f\n+++ f\n".to_vec();
                        h1.render(st1 as usize, st1 as usize, &mut txt);
                        // consistent headers: the new side of hunk 2 is shifted by hunk 1's size change (0 here)
                        sh.render(stated, stated, &mut txt);
                        for fmax in 0..=fcap {
                            rep.evaluations += 1;
                            let o = parse_apply(&txt, Some(&fbytes), None, false, fmax, false);
                            let a = match &o {
                                Ok(a) if a.hunks.len() == 2 => a,
                                Err(ApplyErr::Panic(m)) => {
                                    // panics of overlapping multi-hunk patches are C03's subject; record under their own class
                                    rep.violation("panic-two-hunks", &format!("panic:{}", &m[..m.len().min(40)]), || witness(&txt, &fbytes, false, fmax, "panic", &o));
                                    continue;
                                }
                                _ => {
                                    rep.violation("harness", "shape", || witness(&txt, &fbytes, false, fmax, "harness", &o));
                                    continue;
                                }
                            };
                            // first hunk by the single-hunk rules
                            let v1 = judge(file, &h1.old(false), h1.p(), h1.s(), st1 <= 1, fmax, &[st1 - 1], &a.hunks[0], true, true);
                            if let Some((clause, detail)) = v1.violation {
                                rep.violation(&class_of(&h1, &clause, 1), "wrong-placement", || witness(&txt, &fbytes, false, fmax, &format!("first hunk {}: {}", clause, detail), &o));
                                continue;
                            }
                            // expected line of the second hunk: stated + offset of the last applied hunk, in both readings
                            let (prev, block1_end) = match &a.hunks[0] {
                                HR::Applied { line, fuzz, .. } => {
                                    let (pf1, sf1, _, _) = trims(h1.p(), h1.s(), *fuzz);
                                    let blen = h1.old(false).len() - pf1 - sf1;
                                    // the offset of the hunk as a whole, from where its remaining lines were found (not the reported field)
                                    (vec![*line - pf1 as isize - (st1 - 1)], *line + blen as isize)
                                }
                                _ => (vec![0], -1),
                            };
                            let st0 = stated as isize - 1;
                            let expected: Vec<isize> = prev.iter().map(|o| st0 + o).collect();
                            // order ambiguity: if any match of hunk 2 (any level) starts before, inside or right behind hunk 1's block
                            // (where implementations may call it misordered), only clause 1 is decided
                            let cap = fmax.min(sh.p().max(sh.s()));
                            let old2 = sh.old(false);
                            let mut full = true;
                            let mut all_cands: Vec<isize> = vec![];
                            for g in 0..=cap {
                                let lg = level(file, &old2, sh.p(), sh.s(), g, stated <= 1);
                                if lg.cands.iter().any(|&q| q <= block1_end) {
                                    full = false;
                                }
                                all_cands.extend(lg.cands.iter().map(|&q| q - lg.pf as isize));
                            }
                            // ... unless the hunk is expected clearly behind the first one and no match is anywhere near it: the matches
                            // that lie before the first hunk (whole, with every context line, before where that one starts) are out of
                            // reach by everybody's rules - patch never looks before the lines it has already written - and the rest
                            // is decided as usual
                            let mut min_q = isize::MIN;
                            if !full {
                                if let HR::Applied { line: l1, fuzz: f1, .. } = &a.hunks[0] {
                                    let (pf1, _, _, _) = trims(h1.p(), h1.s(), *f1);
                                    let block1_start = *l1 - pf1 as isize;
                                    let len2 = old2.len() as isize;
                                    let clear = all_cands.iter().all(|&q| q + len2 <= block1_start || q > block1_end);
                                    if clear && expected.iter().all(|&e| e > block1_end) {
                                        full = true;
                                        min_q = block1_end + 1;
                                        rep.count("second-hunk-decided-with-matches-before-the-first-hunk-out-of-reach");
                                    }
                                }
                            }
                            let v2 = judge_from(file, &old2, sh.p(), sh.s(), stated <= 1, fmax, &expected, &a.hunks[1], full, false, min_q);
                            if full {
                                rep.count("second-hunk-fully-decided");
                                // does the previous hunk's offset matter here? (would the verdict differ with offset 0)
                                if let (HR::Applied { .. }, HR::Applied { .. }) = (&a.hunks[0], &a.hunks[1]) {
                                    if prev[0] != 0 && judge(file, &old2, sh.p(), sh.s(), stated <= 1, fmax, &[st0], &a.hunks[1], true, false).violation.is_some() {
                                        rep.count("second-hunk-placement-depends-on-previous-offset");
                                    }
                                }
                            }
                            if v2.nontrivial {
                                rep.nontrivial += 1;
                                if rep.nontrivial % 20_000 == 7 {
                                    rep.sample(|| witness(&txt, &fbytes, false, fmax, "sample (two hunks)", &o));
                                }
                            }
                            if let Some((clause, detail)) = v2.violation {
                                rep.violation(&class_of(sh, &clause, 2), "wrong-placement", || witness(&txt, &fbytes, false, fmax, &format!("second hunk {}: {} (expected lines {:?})", clause, detail, expected), &o));
                            }
                        }
                    }
                }
            }
        }
    }
}

/// three-hunk sweep: two leading hunks derived from file positions, both stated off by -2..2 (so that two different
/// non-zero offsets are in play), then a general third hunk: its expected line is stated + the offset of the hunk
/// right before it - not the sum of all offsets, not the first one.
fn sweep_three(file: &[u8], third: &[Shape], rep: &mut Report) {
    let n = file.len();
    let fbytes = sym_file(file);
    // the two leading hunks sit near the top so that the rest of the file is free for the third one
    for i1 in 0..2usize.min(n) {
        for i2 in (i1 + 2)..(i1 + 4).min(n) {
            for d1 in [-2isize, -1, 1, 2] {
                for d2 in [-2isize, -1, 1, 2] {
                    let h1 = Shape { pc: vec![], rc: vec![file[i1]], kc: vec![2], mc: vec![], r2: vec![], k2: vec![], sc: vec![] };
                    let h2 = Shape { pc: vec![], rc: vec![file[i2]], kc: vec![2], mc: vec![], r2: vec![], k2: vec![], sc: vec![] };
                    let (st1, st2) = (i1 as isize + 1 + d1, i2 as isize + 1 + d2);
                    if st1 < 1 || st2 < 1 {
                        continue;
                    }
                    for sh in third {
                        for stated in 1..=(n + 2) {
                            let mut txt = b"--- f\n+++ f\n".to_vec();
                            h1.render(st1 as usize, st1 as usize, &mut txt);
                            h2.render(st2 as usize, st2 as usize, &mut txt);
                            sh.render(stated, stated, &mut txt);
                            rep.evaluations += 1;
                            let o = parse_apply(&txt, Some(&fbytes), None, false, 0, false);
                            let a = match &o {
                                Ok(a) if a.hunks.len() == 3 => a,
                                Err(ApplyErr::Panic(m)) => {
                                    rep.violation("panic-three-hunks", &format!("panic:{}", &m[..m.len().min(40)]), || witness(&txt, &fbytes, false, 0, "panic", &o));
                                    continue;
                                }
                                _ => continue,
                            };
                            // the hunk right before the third one that applied, and where its block ends
                            let mut prev: Option<(isize, isize)> = None;
                            for (hr, len) in [(&a.hunks[1], 1isize), (&a.hunks[0], 1isize)] {
                                if let HR::Applied { line, offset, .. } = hr {
                                    prev = Some((*offset, *line + len));
                                    break;
                                }
                            }
                            let (off, block_end) = match prev {
                                Some(x) => x,
                                None => continue,
                            };
                            let both = matches!((&a.hunks[0], &a.hunks[1]), (HR::Applied { offset: o1, .. }, HR::Applied { offset: o2, .. }) if *o1 != 0 && *o2 != 0 && o1 != o2);
                            let st0 = stated as isize - 1;
                            let old3 = sh.old(false);
                            let l0 = level(file, &old3, sh.p(), sh.s(), 0, stated <= 1);
                            let full = !l0.cands.iter().any(|&q| q <= block_end);
                            if !full {
                                continue;
                            }
                            let v = judge(file, &old3, sh.p(), sh.s(), stated <= 1, 0, &[st0 + off], &a.hunks[2], true, false);
                            if both {
                                rep.count("third-hunk-after-two-different-offsets");
                                if let HR::Applied { .. } = &a.hunks[2] {
                                    // would the verdict differ if the offsets were summed up or the first one were used?
                                    let (o1, o2) = match (&a.hunks[0], &a.hunks[1]) { (HR::Applied { offset: o1, .. }, HR::Applied { offset: o2, .. }) => (*o1, *o2), _ => (0, 0) };
                                    if judge(file, &old3, sh.p(), sh.s(), stated <= 1, 0, &[st0 + o1 + o2], &a.hunks[2], true, false).violation.is_some()
                                        || judge(file, &old3, sh.p(), sh.s(), stated <= 1, 0, &[st0 + o1], &a.hunks[2], true, false).violation.is_some()
                                    {
                                        rep.count("third-hunk-placement-tells-offset-rules-apart");
                                    }
                                }
                            }
                            if v.nontrivial {
                                rep.nontrivial += 1;
                            }
                            if let Some((clause, detail)) = v.violation {
                                rep.violation(&format!("{}-third-hunk", clause), "wrong-placement", || witness(&txt, &fbytes, false, 0, &format!("third hunk {}: {} (expected line {})", clause, detail, st0 + off), &o));
                            }
                        }
                    }
                }
            }
        }
    }
}

/// Context-free hunks whose other side is "0,0" between two real names (`diff -U0` removing or - applied in reverse - adding
/// lines at the top of a file that stays): the parser files them under deletion/creation, yet they are hunks like any other
/// and are looked for from their stated line.
fn sweep_ctxfree(file: &[u8], n: usize, rep: &mut Report) {
    let fbytes = sym_file(file);
    for core in seqs_upto(2, 2).into_iter().filter(|c| !c.is_empty()) {
        for stated in 1..=(n + 2) {
            for &rev in &[false, true] {
                let sh = if rev { Shape { pc: vec![], rc: vec![], kc: core.clone(), mc: vec![], r2: vec![], k2: vec![], sc: vec![] } } else { Shape { pc: vec![], rc: core.clone(), kc: vec![], mc: vec![], r2: vec![], k2: vec![], sc: vec![] } };
                let mut txt = b"--- f\n+++ f\n".to_vec();
                if rev {
                    sh.render(0, stated, &mut txt);
                } else {
                    sh.render(stated, 0, &mut txt);
                }
                rep.evaluations += 1;
                let o = parse_apply(&txt, Some(&fbytes), None, rev, 0, false);
                let v = match &o {
                    Ok(a) if a.hunks.len() == 1 => judge(file, &core, 0, 0, stated <= 1, 0, &[stated as isize - 1], &a.hunks[0], true, true),
                    Ok(_) => Verdict { violation: Some(("harness".into(), "hunk count".into())), nontrivial: false },
                    Err(ApplyErr::Panic(m)) => Verdict { violation: Some(("panic".into(), m.clone())), nontrivial: true },
                    Err(e) => Verdict { violation: Some(("harness".into(), format!("{:?}", e))), nontrivial: false },
                };
                if let Ok(a) = &o {
                    if let Some(HR::Applied { line, .. }) = a.hunks.get(0) {
                        rep.count("context-free-hunk-with-empty-other-side-applied");
                        if *line != 0 {
                            rep.count("context-free-hunk-with-empty-other-side-applied-below-the-top");
                        }
                    }
                }
                if v.nontrivial {
                    rep.nontrivial += 1;
                }
                if let Some((clause, detail)) = v.violation {
                    rep.violation(&format!("{}-context-free-hunk-with-empty-other-side", clause), "wrong-placement", || witness(&txt, &fbytes, rev, 0, &format!("{}: {}", clause, detail), &o));
                }
            }
        }
    }
}

/// rqmc c02 <max file len> <max context> <max fuzz> <two-hunk max file len> [three-hunk file len]
pub fn run(args: &[String]) {
    let t0 = std::time::Instant::now();
    let n: usize = args.get(0).and_then(|s| s.parse().ok()).unwrap_or(5);
    let maxctx: usize = args.get(1).and_then(|s| s.parse().ok()).unwrap_or(2);
    let fcap: usize = args.get(2).and_then(|s| s.parse().ok()).unwrap_or(3);
    let n2: usize = args.get(3).and_then(|s| s.parse().ok()).unwrap_or(4);
    let files = seqs_upto(n, 2);
    let mut sh = shapes(maxctx, 2);
    let n_one_group = sh.len();
    sh.extend(shapes_two_groups());
    let second = shapes(1, 1);
    let files2: Vec<Vec<u8>> = seqs_upto(n2, 2).into_iter().filter(|f| !f.is_empty()).collect();
    let n1 = sh.len();
    let n3: usize = args.get(4).and_then(|s| s.parse().ok()).unwrap_or(9);
    let files3: Vec<Vec<u8>> = seqs_exact(n3, 2);
    let nf2 = files2.len();
    let nf3 = files3.len();
    // long files for the two-hunk sweep: room for a match of the second hunk before the first one that is nearer than the one behind it
    let n2long: usize = args.get(5).and_then(|s| s.parse().ok()).unwrap_or(9);
    let files2long: Vec<Vec<u8>> = seqs_exact(n2long, 2);
    let nf2l = files2long.len();
    let rep = par_shards(n1 + nf2 + nf3 + files.len() + nf2l, n_threads(), |i, rep| {
        if i >= n1 + nf2 + nf3 + files.len() {
            sweep_two(&files2long[i - n1 - nf2 - nf3 - files.len()], &second, n2long, fcap.min(2), true, rep);
        } else if i < n1 {
            sweep_shape(&sh[i], &files, n, fcap, rep);
        } else if i < n1 + nf2 {
            sweep_two(&files2[i - n1], &second, n2, fcap, false, rep);
        } else if i < n1 + nf2 + nf3 {
            sweep_three(&files3[i - n1 - nf2], &second, rep);
        } else {
            sweep_ctxfree(&files[i - n1 - nf2 - nf3], n, rep);
        }
    });
    let out = rep.to_json(vec![
        ("max_file_len", J::u(n as u64)),
        ("max_context", J::u(maxctx as u64)),
        ("max_fuzz_limit", J::u(fcap as u64)),
        ("hunk_shapes", J::u(n_one_group as u64)),
        ("hunk_shapes_two_groups", J::u((n1 - n_one_group) as u64)),
        ("two_hunk_files", J::u(files2.len() as u64)),
        ("two_hunk_long_files", J::u(nf2l as u64)),
        ("two_hunk_long_file_len", J::u(n2long as u64)),
        ("three_hunk_files", J::u(files3.len() as u64)),
        ("wall_s", J::F(t0.elapsed().as_secs_f64())),
    ]);
    println!("{}", out.to_string());
}
