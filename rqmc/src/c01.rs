//! C01 (lib level): every edit script up to a bound, rendered as a unified diff by a
//! boring reference differ, applied by the real parser + apply; the oracle is B itself.
use crate::util::*;

#[derive(Clone, Copy, Debug, PartialEq)]
pub enum Op {
    Keep(u8),
    Del(u8),
    Add(u8),
}

pub const SIGMA2: &[&[u8]] = &[b"a\n", b"b\n"];
/// nasty alphabet: byte-level robustness and lines that look like patch syntax
pub const SIGMAN: &[&[u8]] = &[
    b"\n",
    b"x\r\n",
    b"\0\xff\n",
    b"\\ q\n",
    b"-m\n",
    b"+p\n",
    b" s\n",
    b"\tt\n",
    b"--- x\n",
    b"+++ x\n",
    b"@@ -1 +1 @@\n",
    b"diff --git a/x b/x\n",
    b"\\ No newline at end of file\n",
];

pub struct Case<'a> {
    pub sigma: &'a [&'a [u8]],
    pub script: &'a [Op],
    pub a_nonl: bool,
    pub b_nonl: bool,
    pub a_absent: bool,
    pub b_absent: bool,
}

fn line(sigma: &[&[u8]], sym: u8, nl: bool) -> Vec<u8> {
    let mut v = sigma[sym as usize].to_vec();
    if !nl {
        v.pop();
    }
    v
}

impl<'a> Case<'a> {
    fn counts(&self) -> (usize, usize) {
        let na = self.script.iter().filter(|o| !matches!(o, Op::Add(_))).count();
        let nb = self.script.iter().filter(|o| !matches!(o, Op::Del(_))).count();
        (na, nb)
    }
    /// lines of A and of B
    pub fn sides(&self) -> (Vec<Vec<u8>>, Vec<Vec<u8>>) {
        let (na, nb) = self.counts();
        let (mut a, mut b) = (vec![], vec![]);
        let (mut ia, mut ib) = (0, 0);
        for o in self.script {
            match o {
                Op::Keep(s) => {
                    ia += 1;
                    ib += 1;
                    a.push(line(self.sigma, *s, !(self.a_nonl && ia == na)));
                    b.push(line(self.sigma, *s, !(self.b_nonl && ib == nb)));
                }
                Op::Del(s) => {
                    ia += 1;
                    a.push(line(self.sigma, *s, !(self.a_nonl && ia == na)));
                }
                Op::Add(s) => {
                    ib += 1;
                    b.push(line(self.sigma, *s, !(self.b_nonl && ib == nb)));
                }
            }
        }
        (a, b)
    }
    pub fn valid(&self) -> bool {
        let (na, nb) = self.counts();
        if self.a_nonl && na == 0 || self.b_nonl && nb == 0 {
            return false;
        }
        if self.a_absent && na != 0 || self.b_absent && nb != 0 {
            return false;
        }
        if self.a_absent && self.b_absent {
            return false;
        }
        let (a, b) = self.sides();
        // a final line without newline must not be empty (not representable as a file)
        if a.last().map(|l| l.is_empty()).unwrap_or(false) || b.last().map(|l| l.is_empty()).unwrap_or(false) {
            return false;
        }
        // a kept line must be byte-identical on both sides
        let (mut ia, mut ib) = (0, 0);
        for o in self.script {
            match o {
                Op::Keep(_) => {
                    if a[ia] != b[ib] {
                        return false;
                    }
                    ia += 1;
                    ib += 1;
                }
                Op::Del(_) => ia += 1,
                Op::Add(_) => ib += 1,
            }
        }
        true
    }
    /// Reference differ. `merge_touching`: merge hunks whose contexts abut (gap == 2c), as GNU diff
    /// does; false leaves them as two adjacent hunks (also a correct unified diff).
    /// Returns (text, number of hunks, any hunk with an empty side, any no-newline marker).
    pub fn diff(&self, c: usize, merge_touching: bool, old_name: &[u8], new_name: &[u8]) -> Option<(Vec<u8>, usize, bool, bool)> {
        let n = self.script.len();
        let changed: Vec<bool> = self.script.iter().map(|o| !matches!(o, Op::Keep(_))).collect();
        if !changed.iter().any(|&x| x) {
            return None;
        }
        let mut ranges: Vec<(usize, usize)> = vec![];
        let mut i = 0;
        while i < n {
            if changed[i] {
                let mut j = i;
                while j < n && changed[j] {
                    j += 1;
                }
                let s = i.saturating_sub(c);
                let e = (j + c).min(n);
                if let Some(last) = ranges.last_mut() {
                    if s < last.1 || (merge_touching && s == last.1) {
                        last.1 = e;
                        i = j;
                        continue;
                    }
                }
                ranges.push((s, e));
                i = j;
            } else {
                i += 1;
            }
        }
        let (a, b) = self.sides();
        let mut out = Vec::new();
        out.extend_from_slice(b"--- ");
        out.extend_from_slice(if self.a_absent { b"/dev/null" } else { old_name });
        out.extend_from_slice(b"\n+++ ");
        out.extend_from_slice(if self.b_absent { b"/dev/null" } else { new_name });
        out.push(b'\n');
        let nh = ranges.len();
        let mut zero_side = false;
        let mut marker = false;
        for (s, e) in ranges {
            let old_before = self.script[..s].iter().filter(|o| !matches!(o, Op::Add(_))).count();
            let new_before = self.script[..s].iter().filter(|o| !matches!(o, Op::Del(_))).count();
            let oc = self.script[s..e].iter().filter(|o| !matches!(o, Op::Add(_))).count();
            let nc = self.script[s..e].iter().filter(|o| !matches!(o, Op::Del(_))).count();
            // GNU numbering: an empty side is numbered with the line *before* it
            let os = if oc == 0 { old_before } else { old_before + 1 };
            let ns = if nc == 0 { new_before } else { new_before + 1 };
            if oc == 0 || nc == 0 {
                zero_side = true;
            }
            out.extend_from_slice(format!("@@ -{},{} +{},{} @@\n", os, oc, ns, nc).as_bytes());
            let (mut ia, mut ib) = (old_before, new_before);
            for o in &self.script[s..e] {
                let (ch, l) = match o {
                    Op::Keep(_) => {
                        let l = &a[ia];
                        ia += 1;
                        ib += 1;
                        (b' ', l)
                    }
                    Op::Del(_) => {
                        let l = &a[ia];
                        ia += 1;
                        (b'-', l)
                    }
                    Op::Add(_) => {
                        let l = &b[ib];
                        ib += 1;
                        (b'+', l)
                    }
                };
                out.push(ch);
                out.extend_from_slice(l);
                if l.last() != Some(&b'\n') {
                    out.extend_from_slice(b"\n\\ No newline at end of file\n");
                    marker = true;
                }
            }
        }
        Some((out, nh, zero_side, marker))
    }
}

fn op_of(k: usize, nsym: usize) -> Op {
    let s = (k / 3) as u8;
    let _ = nsym;
    match k % 3 {
        0 => Op::Keep(s),
        1 => Op::Del(s),
        _ => Op::Add(s),
    }
}

fn script_json(sigma: &[&[u8]], script: &[Op]) -> J {
    J::A(script
        .iter()
        .map(|o| {
            let (t, s) = match o {
                Op::Keep(s) => ("keep", s),
                Op::Del(s) => ("del", s),
                Op::Add(s) => ("add", s),
            };
            J::A(vec![J::s(t), J::bytes(sigma[*s as usize])])
        })
        .collect())
}

/// check one script under all flags / widths / flavours / directions
fn check_script(sigma: &[&[u8]], script: &[Op], maxc: usize, rep: &mut Report) {
    for flags in 0..16u8 {
        let case = Case { sigma, script, a_nonl: flags & 1 != 0, b_nonl: flags & 2 != 0, a_absent: flags & 4 != 0, b_absent: flags & 8 != 0 };
        if !case.valid() {
            continue;
        }
        let (a, b) = case.sides();
        let abytes: Vec<u8> = a.concat();
        let bbytes: Vec<u8> = b.concat();
        let mut prev: Option<Vec<u8>> = None;
        for c in 0..=maxc {
            for &merge in &[true, false] {
                let (d, nh, zero_side, marker) = match case.diff(c, merge, b"a/f", b"b/f") {
                    Some(x) => x,
                    None => continue,
                };
                // the non-merged flavour only counts when it differs from the merged one
                if !merge && prev.as_ref() == Some(&d) {
                    continue;
                }
                if merge {
                    prev = Some(d.clone());
                }
                for &rev in &[false, true] {
                    rep.evaluations += 1;
                    let nontrivial = nh > 1 || zero_side || marker || case.a_absent || case.b_absent;
                    if nontrivial {
                        rep.nontrivial += 1;
                    }
                    let (src, dst, src_abs, dst_abs) = if !rev { (&abytes, &bbytes, case.a_absent, case.b_absent) } else { (&bbytes, &abytes, case.b_absent, case.a_absent) };
                    let r = parse_apply(&d, if src_abs { None } else { Some(&src[..]) }, None, rev, 0, false);
                    let mode: Option<String> = match &r {
                        Err(ApplyErr::Panic(p)) => Some(format!("panic:{}", &p[..p.len().min(40)])),
                        Err(ApplyErr::Parse(e)) => Some(format!("parse-error:{}", &e[..e.len().min(30)])),
                        Err(ApplyErr::Shape(n)) => Some(format!("file-patches:{}", n)),
                        Ok(o) => {
                            if !o.ok {
                                let mut rs: Vec<String> = o.hunks.iter().filter_map(|h| if let HR::Failed(r) = h { Some(r.clone()) } else { None }).collect();
                                rs.dedup();
                                Some(format!("not-applied:{}", rs.join("+")))
                            } else if o.hunks.iter().any(|h| matches!(h, HR::Applied{offset, fuzz, ..} if *offset != 0 || *fuzz != 0)) {
                                Some("offset-or-fuzz".into())
                            } else if o.after.content != *dst {
                                Some("wrong-content".into())
                            } else if o.after.deleted != dst_abs {
                                Some(format!("existence:deleted={}", o.after.deleted))
                            } else {
                                None
                            }
                        }
                    };
                    if rep.evaluations % 50_000 == 1 && nontrivial {
                        rep.sample(|| J::obj(vec![("script", script_json(sigma, script)), ("context", J::u(c as u64)), ("reverse", J::B(rev)), ("patch", J::bytes(&d)), ("result", J::s(if mode.is_none() { "ok" } else { "VIOLATION" }))]));
                    }
                    match &mode {
                        None => rep.count("ok"),
                        Some(_) => rep.count("violating"),
                    }
                    if let Some(mode) = mode {
                        // structural class of the case (predicates on the input only)
                        let first_changed = script.iter().position(|o| !matches!(o, Op::Keep(_))).unwrap();
                        let top_of_file = first_changed == 0;
                        let no_context = nh == 1 && script.iter().all(|o| !matches!(o, Op::Keep(_))) || (c == 0);
                        let class = if nh == 1 && c == 0 && zero_side && top_of_file && !src.is_empty() && !dst.is_empty() && !src_abs && !dst_abs {
                            "single-context-free-hunk-at-line-0-with-empty-side-file-stays-nonempty".to_string()
                        } else {
                            format!("ctx{}{}-{}-{}{}", c, if no_context { "" } else { "+" }, if zero_side { "emptyside" } else { "bothsides" }, if nh > 1 { "multihunk" } else { "singlehunk" }, if marker { "-nonl" } else { "" })
                        };
                        rep.violation(&class, &mode, || {
                            apply_witness(
                                &d,
                                if src_abs { None } else { Some(&src[..]) },
                                None,
                                rev,
                                0,
                                J::obj(vec![("content", J::bytes(dst)), ("absent", J::B(dst_abs)), ("offset", J::I(0)), ("fuzz", J::I(0))]),
                                match &r {
                                    Ok(o) => J::obj(vec![("ok", J::B(o.ok)), ("hunks", J::A(o.hunks.iter().map(hr_json).collect())), ("content", J::bytes(&o.after.content)), ("absent", J::B(o.after.deleted))]),
                                    Err(e) => J::s(&format!("{:?}", e)),
                                },
                            )
                        });
                    }
                }
            }
        }
    }
}

fn rec(sigma: &[&[u8]], cur: &mut Vec<Op>, maxlen: usize, maxc: usize, rep: &mut Report) {
    check_script(sigma, cur, maxc, rep);
    if cur.len() == maxlen {
        return;
    }
    for k in 0..3 * sigma.len() {
        cur.push(op_of(k, sigma.len()));
        rec(sigma, cur, maxlen, maxc, rep);
        cur.pop();
    }
}

/// rqmc c01 <alphabet: 2|n> <maxlen> <maxctx>
pub fn run(args: &[String]) {
    let t0 = std::time::Instant::now();
    let sigma: &[&[u8]] = if args.get(0).map(|s| s.as_str()) == Some("n") { SIGMAN } else { SIGMA2 };
    let maxlen: usize = args.get(1).and_then(|s| s.parse().ok()).unwrap_or(5);
    let maxc: usize = args.get(2).and_then(|s| s.parse().ok()).unwrap_or(3);
    let k = 3 * sigma.len();
    // shards: scripts of length < 2 are handled by shard 0; every 2-op prefix is a shard
    let shards = if maxlen >= 2 { 1 + k * k } else { 1 };
    let rep = par_shards(shards, n_threads(), |i, rep| {
        if i == 0 {
            let mut cur = vec![];
            check_script(sigma, &cur, maxc, rep);
            if maxlen >= 1 {
                for a in 0..k {
                    cur.push(op_of(a, sigma.len()));
                    check_script(sigma, &cur, maxc, rep);
                    cur.pop();
                }
            }
        } else {
            let p = i - 1;
            let mut cur = vec![op_of(p / k, sigma.len()), op_of(p % k, sigma.len())];
            rec(sigma, &mut cur, maxlen, maxc, rep);
        }
    });
    let out = rep.to_json(vec![
        ("alphabet", J::A(sigma.iter().map(|l| J::bytes(l)).collect())),
        ("max_script_len", J::u(maxlen as u64)),
        ("max_context", J::u(maxc as u64)),
        ("wall_s", J::F(t0.elapsed().as_secs_f64())),
    ]);
    println!("{}", out.to_string());
}

/// rqmc c01-dump <alphabet> <maxlen> <outfile>: the (A, B, hunks) cases of the reference differ as records for the
/// CLI-level dialect sweep: u8 a_absent, b_absent, hunks, zero_side, top_of_file, context; then A, B, hunk text, each u32-length-prefixed
pub fn dump(args: &[String]) {
    use std::io::Write;
    let sigma: &[&[u8]] = if args.get(0).map(|s| s.as_str()) == Some("n") { SIGMAN } else { SIGMA2 };
    let maxlen: usize = args.get(1).and_then(|s| s.parse().ok()).unwrap_or(3);
    let mut out = std::io::BufWriter::new(std::fs::File::create(&args[2]).unwrap());
    let mut n = 0u64;
    fn rec(sigma: &[&[u8]], cur: &mut Vec<Op>, maxlen: usize, out: &mut dyn Write, n: &mut u64) {
        for flags in 0..16u8 {
            let case = Case { sigma, script: cur, a_nonl: flags & 1 != 0, b_nonl: flags & 2 != 0, a_absent: flags & 4 != 0, b_absent: flags & 8 != 0 };
            if !case.valid() {
                continue;
            }
            let (a, b) = case.sides();
            for &c in &[0usize, 1, 3] {
                if let Some((d, nh, zero_side, _)) = case.diff(c, true, b"X", b"Y") {
                    // strip the two header lines
                    let body_start = d.iter().enumerate().filter(|(_, ch)| **ch == b'\n').nth(1).map(|(i, _)| i + 1).unwrap();
                    let top = cur.iter().position(|o| !matches!(o, Op::Keep(_))) == Some(0);
                    out.write_all(&[case.a_absent as u8, case.b_absent as u8, nh as u8, zero_side as u8, top as u8, c as u8]).unwrap();
                    for f in [&a.concat(), &b.concat(), &d[body_start..].to_vec()] {
                        out.write_all(&(f.len() as u32).to_le_bytes()).unwrap();
                        out.write_all(f).unwrap();
                    }
                    *n += 1;
                }
            }
        }
        if cur.len() == maxlen {
            return;
        }
        for k in 0..3 * sigma.len() {
            cur.push(op_of(k, sigma.len()));
            rec(sigma, cur, maxlen, out, n);
            cur.pop();
        }
    }
    rec(sigma, &mut vec![], maxlen, &mut out, &mut n);
    println!("{}", n);
}
