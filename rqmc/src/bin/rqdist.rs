//! C07: explicit-state BFS over the real `FilenameDistributor`.
//!
//! A state is represented by the call history that reaches it; the key is the
//! distributor's own tables (`verif_state()`, names renamed by first occurrence)
//! plus the reference partition - everything `add`/`build` read, so merged
//! states have equal futures. With N names fixed the space is finite and the
//! search runs to fixpoint (covers call sequences of every length).
#![allow(dead_code, unused_imports)]

#[path = "/repo/src/rapidquilt/apply/mod.rs"]
mod apply;
#[path = "/repo/src/rapidquilt/arena/mod.rs"]
mod arena;
#[path = "../util.rs"]
mod util;
#[cfg(opensuse_rapidquilt_verif)]
#[path = "/repo/src/rapidquilt/verif_hooks.rs"]
mod verif_hooks;

use apply::parallel::FilenameDistributor;
use std::collections::{BTreeMap, HashMap, HashSet, VecDeque};
use util::*;

type Op = (u8, Option<u8>);

fn build(hist: &[Op], threads: usize) -> FilenameDistributor<u8> {
    let mut d = FilenameDistributor::new(threads);
    for (a, b) in hist {
        d.add(*a, *b);
    }
    d
}

/// reference model: plain union-find, returns root per name
fn ref_partition(hist: &[Op], n: usize) -> Vec<u8> {
    let mut parent: Vec<u8> = (0..n as u8).collect();
    fn find(p: &[u8], mut x: u8) -> u8 {
        while p[x as usize] != x {
            x = p[x as usize];
        }
        x
    }
    for (a, b) in hist {
        if let Some(b) = b {
            let ra = find(&parent, *a);
            let rb = find(&parent, *b);
            if ra != rb {
                let (lo, hi) = if ra < rb { (ra, rb) } else { (rb, ra) };
                parent[hi as usize] = lo;
            }
        }
    }
    (0..n as u8).map(|x| find(&parent, x)).collect()
}

fn used_names(hist: &[Op]) -> Vec<u8> {
    let mut v = vec![];
    for (a, b) in hist {
        for x in std::iter::once(*a).chain(b.iter().cloned()) {
            if !v.contains(&x) {
                v.push(x);
            }
        }
    }
    v
}

/// canonical key of the state reached by `hist`
fn key(hist: &[Op], n: usize) -> (Vec<(usize, usize)>, Vec<usize>, Vec<u8>) {
    let d = build(hist, 64);
    let (map, cc) = d.verif_state();
    // names are introduced smallest-unused-first, so name order == first-occurrence order
    let order = used_names(hist);
    let rank: HashMap<u8, usize> = order.iter().enumerate().map(|(i, n)| (*n, i)).collect();
    let mut tab: Vec<(usize, usize)> = map.iter().map(|(k, v)| (rank[k], *v)).collect();
    tab.sort();
    let part = ref_partition(hist, n);
    let block: Vec<u8> = order.iter().map(|nm| part[*nm as usize]).collect();
    (tab, cc, block)
}

fn hist_json(h: &[Op]) -> J {
    J::A(h.iter().map(|(a, b)| J::A(vec![J::s(&format!("n{}", a)), match b { Some(b) => J::s(&format!("n{}", b)), None => J::Null }])).collect())
}

/// the invariant: names in one block of the reference partition get one thread
fn check_state(h: &[Op], n: usize, thread_counts: &[usize], rep: &mut Report) -> bool {
    let part = ref_partition(h, n);
    let mut ok_all = true;
    for &tc in thread_counts {
        let built = std::panic::catch_unwind(|| build(h, tc).build());
        let m = match built {
            Ok(m) => m,
            Err(e) => {
                let msg = panic_message(e);
                rep.violation("distributor-panic", &format!("panic:{}", &msg[..msg.len().min(30)]), || J::obj(vec![("kind", J::s("distributor")), ("history", hist_json(h)), ("threads", J::u(tc as u64))]));
                ok_all = false;
                continue;
            }
        };
        let names = used_names(h);
        let mut bad: Option<(u8, u8)> = None;
        for a in &names {
            for b in &names {
                if a < b && part[*a as usize] == part[*b as usize] {
                    match (m.get(a), m.get(b)) {
                        (Some(ta), Some(tb)) if ta == tb => {}
                        _ => {
                            if bad.is_none() {
                                bad = Some((*a, *b));
                            }
                        }
                    }
                }
            }
        }
        // every name must be assigned, and to a thread < tc
        let unassigned = names.iter().any(|a| m.get(a).map(|t| *t >= tc).unwrap_or(true));
        if let Some((a, b)) = bad {
            ok_all = false;
            rep.violation("related-names-split", "different-thread", || {
                J::obj(vec![
                    ("kind", J::s("distributor")),
                    ("history", hist_json(h)),
                    ("threads", J::u(tc as u64)),
                    ("expected", J::s(&format!("n{} and n{} on the same thread", a, b))),
                    ("observed", J::s(&format!("n{} -> {:?}, n{} -> {:?}", a, m.get(&a), b, m.get(&b)))),
                ])
            });
        }
        if unassigned {
            ok_all = false;
            rep.violation("name-unassigned", "missing-or-out-of-range", || J::obj(vec![("kind", J::s("distributor")), ("history", hist_json(h)), ("threads", J::u(tc as u64))]));
        }
    }
    ok_all
}

fn bfs(n: usize, rep: &mut Report) -> (u64, u64, usize, bool) {
    let mut ops: Vec<Op> = vec![];
    for a in 0..n as u8 {
        ops.push((a, None));
        for b in 0..n as u8 {
            if a != b {
                ops.push((a, Some(b)));
            }
        }
    }
    let thread_counts: Vec<usize> = vec![64, 2, 3, 4, 5, 7, 8, 16];
    let mut seen: HashSet<(Vec<(usize, usize)>, Vec<usize>, Vec<u8>)> = HashSet::new();
    let mut q: VecDeque<Vec<Op>> = VecDeque::new();
    seen.insert(key(&[], n));
    q.push_back(vec![]);
    let (mut transitions, mut maxdepth) = (0u64, 0usize);
    let mut bad_states = 0u64;
    let cap = 2_000_000usize;
    let mut capped = false;
    while let Some(h) = q.pop_front() {
        maxdepth = maxdepth.max(h.len());
        rep.evaluations += 1;
        let part = ref_partition(&h, n);
        let names = used_names(&h);
        // non-trivial: at least one block with two names
        if names.iter().any(|a| names.iter().any(|b| a < b && part[*a as usize] == part[*b as usize])) {
            rep.nontrivial += 1;
        }
        if !check_state(&h, n, &thread_counts, rep) {
            bad_states += 1;
        }
        if h.len() == 3 {
            rep.sample(|| J::obj(vec![("history", hist_json(&h)), ("partition", J::A(used_names(&h).iter().map(|x| J::u(part[*x as usize] as u64)).collect()))]));
        }
        let used = used_names(&h);
        for op in &ops {
            // symmetry: new names must be introduced smallest-unused-first
            let mut expect = (0..n as u8).find(|x| !used.contains(x));
            let mut sym_ok = true;
            let mut fresh: Vec<u8> = vec![];
            for x in std::iter::once(op.0).chain(op.1.iter().cloned()) {
                if !used.contains(&x) && !fresh.contains(&x) {
                    if Some(x) != expect {
                        sym_ok = false;
                        break;
                    }
                    fresh.push(x);
                    expect = (0..n as u8).find(|y| !used.contains(y) && !fresh.contains(y));
                }
            }
            if !sym_ok {
                continue;
            }
            let mut h2 = h.clone();
            h2.push(*op);
            transitions += 1;
            let k = key(&h2, n);
            if seen.len() >= cap {
                capped = true;
                continue;
            }
            if seen.insert(k) {
                q.push_back(h2);
            }
        }
    }
    rep.add("bad_states", bad_states);
    (seen.len() as u64, transitions, maxdepth, !capped)
}

fn main() {
    silence_panics();
    let a: Vec<String> = std::env::args().collect();
    let t0 = std::time::Instant::now();
    match a.get(1).map(|s| s.as_str()) {
        Some("bfs") => {
            let n: usize = a.get(2).and_then(|s| s.parse().ok()).unwrap_or(4);
            let mut rep = Report::default();
            let mut per_n = vec![];
            let (mut states, mut transitions, mut depth, mut fix) = (0, 0, 0, true);
            for k in 2..=n {
                let (s, t, d, f) = bfs(k, &mut rep);
                per_n.push(J::obj(vec![("names", J::u(k as u64)), ("states", J::u(s)), ("transitions", J::u(t)), ("max_depth", J::u(d as u64)), ("fixpoint", J::B(f))]));
                states += s;
                transitions += t;
                depth = depth.max(d);
                fix &= f;
            }
            rep.capped = !fix;
            let out = rep.to_json(vec![
                ("states", J::u(states)),
                ("transitions", J::u(transitions)),
                ("max_depth", J::u(depth as u64)),
                ("fixpoint", J::B(fix)),
                ("per_names", J::A(per_n)),
                ("wall_s", J::F(t0.elapsed().as_secs_f64())),
            ]);
            println!("{}", out.to_string());
        }
        Some("replay") => {
            // rqdist replay <threads> a:b a: ...   (names are small integers)
            let tc: usize = a[2].parse().unwrap();
            let h: Vec<Op> = a[3..].iter().map(|s| { let mut it = s.split(':'); let x: u8 = it.next().unwrap().parse().unwrap(); let y = it.next().and_then(|t| t.parse().ok()); (x, y) }).collect();
            let n = 1 + h.iter().flat_map(|(a, b)| std::iter::once(*a).chain(b.iter().cloned())).max().unwrap_or(0) as usize;
            let m = build(&h, tc).build();
            let part = ref_partition(&h, n);
            let mut names = used_names(&h);
            names.sort();
            for x in names {
                println!("n{} reference-block={} thread={:?}", x, part[x as usize], m.get(&x));
            }
        }
        _ => {
            eprintln!("usage: rqdist bfs <names> | replay <threads> a:b ...");
            std::process::exit(2);
        }
    }
}
