//! C04 (lib level): explicit-state BFS over stacks of file-patch applications on one file,
//! undone in LIFO order. A state is (content, existence flag, permissions); it is represented
//! by the history that reaches it and rebuilt by replaying that history on fresh real objects.
use std::collections::{HashMap, VecDeque};

use libpatch::analysis::{fn_analysis_note_noop, AnalysisSet};
use libpatch::modified_file::ModifiedFile;
use libpatch::patch::unified::parser::parse_patch;
use libpatch::patch::PatchDirection;

use crate::c03::{hunks_for, render, FRESH};
use crate::util::*;

#[derive(Clone, Debug)]
struct Step {
    patch: Vec<u8>,
    reverse: bool,
    fuzz: usize,
    label: String,
}

fn start_state(content: &[u8], deleted: bool, mode: Option<u32>) -> FileState {
    FileState { content: content.to_vec(), deleted, mode }
}

fn lines_of(content: &[u8]) -> Vec<u8> {
    // content is made of two-byte lines "<sym>\n"
    content.chunks(2).map(|c| c[0] - b'a').collect()
}

/// file patches worth trying in state `st`
fn menu(st: &FileState) -> Vec<Step> {
    let mut v = vec![];
    let syms = lines_of(&st.content);
    let body = |ch: u8, syms: &[u8]| -> Vec<u8> { syms.iter().flat_map(|s| { let mut l = vec![ch]; l.extend(sym_line(*s)); l }).collect() };
    if !st.deleted && !syms.is_empty() {
        let hs: Vec<_> = hunks_for(&syms, 1, &[0, 1]).into_iter().filter(|h| h.rm <= 1 && h.inner.is_none()).collect();
        for h in &hs {
            for &rev in &[false, true] {
                v.push(Step { patch: render(&syms, &[h], rev), reverse: rev, fuzz: if h.corrupt.is_some() { 1 } else { 0 }, label: format!("modify{}", if rev { "-R" } else { "" }) });
            }
        }
        // two hunks (first and last line), and a partially failing patch
        if syms.len() >= 2 {
            let first = hs.iter().find(|h| h.pos == 0 && h.p == 0 && h.rm == 1 && h.add == vec![FRESH] && h.delta == 0 && h.corrupt.is_none() && h.s == 0);
            let last = hs.iter().find(|h| h.pos + h.p == syms.len() - 1 && h.p == 0 && h.rm == 1 && h.add == vec![FRESH] && h.delta == 0 && h.corrupt.is_none() && h.s == 0);
            if let (Some(a), Some(b)) = (first, last) {
                v.push(Step { patch: render(&syms, &[a, b], false), reverse: false, fuzz: 0, label: "modify-2-hunks".into() });
                // second hunk cannot match anywhere
                let mut t = render(&syms, &[a], false);
                t.extend_from_slice(format!("@@ -{},1 +{},1 @@\n-q\n+r\n", syms.len(), syms.len()).as_bytes());
                v.push(Step { patch: t, reverse: false, fuzz: 0, label: "partial".into() });
            }
        }
        // deletions
        let n = syms.len();
        let mut d = format!("--- f\n+++ /dev/null\n@@ -1,{} +0,0 @@\n", n).into_bytes();
        d.extend(body(b'-', &syms));
        v.push(Step { patch: d, reverse: false, fuzz: 0, label: "delete-devnull".into() });
        let mut d = format!("--- f\n+++ f\n@@ -1,{} +0,0 @@\n", n).into_bytes();
        d.extend(body(b'-', &syms));
        v.push(Step { patch: d, reverse: false, fuzz: 0, label: "delete-both-names".into() });
        // the same as reversed creations
        let mut d = format!("--- /dev/null\n+++ f\n@@ -0,0 +1,{} @@\n", n).into_bytes();
        d.extend(body(b'+', &syms));
        v.push(Step { patch: d.clone(), reverse: true, fuzz: 0, label: "create-devnull-R".into() });
        v.push(Step { patch: d, reverse: false, fuzz: 0, label: "create-over-existing".into() });
        v.push(Step { patch: b"--- f\n+++ /dev/null\n@@ -1,1 +0,0 @@\n-q\n".to_vec(), reverse: false, fuzz: 0, label: "delete-mismatch".into() });
    } else {
        // empty or absent: creations
        for (name, hdr) in &[("create-devnull", &b"--- /dev/null\n+++ f\n"[..]), ("create-both-names", &b"--- f\n+++ f\n"[..])] {
            let mut d = hdr.to_vec();
            d.extend_from_slice(b"@@ -0,0 +1,2 @@\n+a\n+b\n");
            v.push(Step { patch: d, reverse: false, fuzz: 0, label: name.to_string() });
        }
        let d = b"--- f\n+++ /dev/null\n@@ -1,2 +0,0 @@\n-a\n-b\n".to_vec();
        v.push(Step { patch: d, reverse: true, fuzz: 0, label: "delete-devnull-R".into() });
        let d = b"--- f\n+++ f\n@@ -1,2 +0,0 @@\n-a\n-b\n".to_vec();
        v.push(Step { patch: d, reverse: true, fuzz: 0, label: "delete-both-names-R".into() });
        v.push(Step { patch: b"--- f\n+++ f\n@@ -1,2 +1,2 @@\n a\n-b\n+c\n".to_vec(), reverse: false, fuzz: 0, label: "modify-missing".into() });
    }
    // mode changes (git extended headers), with and without a hunk
    for (om, nm) in &[("100644", "100755"), ("100755", "100644")] {
        for &rev in &[false, true] {
            v.push(Step { patch: format!("diff --git a/f b/f\nold mode {}\nnew mode {}\n", om, nm).into_bytes(), reverse: rev, fuzz: 0, label: format!("chmod-only{}", if rev { "-R" } else { "" }) });
            if !st.deleted && !syms.is_empty() {
                let mut t = format!("diff --git a/f b/f\nold mode {}\nnew mode {}\n--- a/f\n+++ b/f\n@@ -1,1 +1,1 @@\n", om, nm).into_bytes();
                if !rev {
                    t.push(b'-'); t.extend(sym_line(syms[0])); t.extend_from_slice(b"+x\n");
                } else {
                    t.extend_from_slice(b"-x\n"); t.push(b'+'); t.extend(sym_line(syms[0]));
                }
                v.push(Step { patch: t, reverse: rev, fuzz: 0, label: format!("chmod+modify{}", if rev { "-R" } else { "" }) });
            }
        }
    }
    v
}

struct Replay {
    /// state before each step, and after the last
    states: Vec<FileState>,
    /// first violation found while applying / unwinding: (class, mode)
    violation: Option<(String, String)>,
    applied_ok: Vec<bool>,
}

/// Replay `hist` from `start` on fresh real objects, then unwind LIFO checking every pre-state.
fn replay(start: &FileState, hist: &[Step]) -> Replay {
    let r = std::panic::catch_unwind(|| {
        let patches: Vec<_> = hist.iter().map(|s| parse_patch(&s.patch, 0, false)).collect();
        let mut mf = if start.deleted { ModifiedFile::new_non_existent() } else { ModifiedFile::new(&start.content, true, perms(start.mode)) };
        if start.deleted {
            mf.permissions = perms(start.mode);
        }
        let mut states = vec![state_of(&mf)];
        let mut reports = vec![];
        let mut applied_ok = vec![];
        for (s, p) in hist.iter().zip(patches.iter()) {
            let p = match p {
                Ok(p) if p.file_patches.len() == 1 => p,
                _ => return Replay { states, violation: Some(("harness".into(), format!("menu patch does not parse: {}", s.label))), applied_ok },
            };
            let dir = if s.reverse { PatchDirection::Revert } else { PatchDirection::Forward };
            let rep = p.file_patches[0].apply(&mut mf, dir, s.fuzz, &AnalysisSet::default(), &fn_analysis_note_noop);
            applied_ok.push(rep.ok());
            reports.push(rep);
            states.push(state_of(&mf));
        }
        // unwind
        let mut violation = None;
        for i in (0..hist.len()).rev() {
            let p = patches[i].as_ref().unwrap();
            let res = std::panic::catch_unwind(std::panic::AssertUnwindSafe(|| {
                p.file_patches[0].rollback(&mut mf, reports[i].direction(), &reports[i]);
            }));
            let class = format!("undo-{}{}", hist[i].label, if applied_ok[i] { "" } else { "-partial" });
            if let Err(e) = res {
                let m = panic_message(e);
                violation = Some((class, format!("panic:{}", &m[..m.len().min(40)])));
                break;
            }
            let now = state_of(&mf);
            let want = &states[i];
            if now.content != want.content {
                violation = Some((class, "content-not-restored".into()));
                break;
            }
            if now.deleted != want.deleted {
                violation = Some((class, "existence-not-restored".into()));
                break;
            }
            if now.mode != want.mode {
                violation = Some((class, "permissions-not-restored".into()));
                break;
            }
        }
        Replay { states, violation, applied_ok }
    });
    match r {
        Ok(x) => x,
        Err(e) => {
            let m = panic_message(e);
            Replay { states: vec![], violation: Some((format!("apply-aborts-{}", hist.last().map(|s| s.label.as_str()).unwrap_or("")), format!("panic:{}", &m[..m.len().min(40)]))), applied_ok: vec![] }
        }
    }
}

fn hist_json(start: &FileState, hist: &[Step]) -> J {
    J::obj(vec![
        ("kind", J::s("lib-history")),
        ("start", J::obj(vec![("content", J::bytes(&start.content)), ("absent", J::B(start.deleted)), ("mode", match start.mode { Some(m) => J::s(&format!("{:o}", m)), None => J::Null })])),
        ("steps", J::A(hist.iter().map(|s| J::obj(vec![("label", J::s(&s.label)), ("patch", J::bytes(&s.patch)), ("reverse", J::B(s.reverse)), ("fuzz", J::u(s.fuzz as u64))])).collect())),
    ])
}

/// rqmc c04-bfs <depth> [max start file len]
pub fn run(args: &[String]) {
    let t0 = std::time::Instant::now();
    let depth: usize = args.get(0).and_then(|s| s.parse().ok()).unwrap_or(2);
    let nfile: usize = args.get(1).and_then(|s| s.parse().ok()).unwrap_or(3);
    let mut starts: Vec<FileState> = vec![];
    for mode in [None, Some(0o100644u32), Some(0o100755)] {
        for f in canon_seqs(nfile, 3) {
            starts.push(start_state(&sym_file(&f), false, mode)); // includes the empty-but-existing file
        }
        starts.push(start_state(b"", true, mode));
    }
    let nstarts = starts.len();
    let rep = par_shards(nstarts, n_threads(), |si, rep| {
        let start = &starts[si];
        let mut seen: HashMap<(Vec<u8>, bool, Option<u32>), usize> = HashMap::new();
        let mut q: VecDeque<Vec<Step>> = VecDeque::new();
        seen.insert((start.content.clone(), start.deleted, start.mode), 0);
        q.push_back(vec![]);
        let mut maxd = 0;
        while let Some(h) = q.pop_front() {
            maxd = maxd.max(h.len());
            let here = replay(start, &h);
            let cur = match here.states.last() { Some(s) => s.clone(), None => continue };
            if h.len() >= depth {
                continue;
            }
            for step in menu(&cur) {
                let mut h2 = h.clone();
                h2.push(step);
                rep.evaluations += 1; // one transition = one replay incl. LIFO unwinding
                rep.nontrivial += 1;
                let r = replay(start, &h2);
                let lbl = &h2.last().unwrap().label;
                rep.count(&format!("step:{}", lbl.trim_end_matches("-R")));
                if let Some((class, mode)) = r.violation {
                    rep.violation(&class, &mode, || hist_json(start, &h2));
                    continue;
                }
                if rep.evaluations % 5000 == 17 {
                    rep.sample(|| hist_json(start, &h2));
                }
                let ns = r.states.last().unwrap();
                let k = (ns.content.clone(), ns.deleted, ns.mode);
                if !seen.contains_key(&k) {
                    seen.insert(k, h2.len());
                    q.push_back(h2);
                }
            }
        }
        rep.add("states", seen.len() as u64);
        let _ = maxd;
    });
    let states = rep.counters.get("states").cloned().unwrap_or(0);
    let out = rep.to_json(vec![
        ("states", J::u(states)),
        ("transitions", J::u(rep.evaluations)),
        ("max_depth", J::u(depth as u64)),
        ("start_states", J::u(nstarts as u64)),
        ("menu_size", J::s("derived from the current state: single/two-hunk modifications (both directions, fuzz), partial failure, create/delete in both header forms and directions, failing create/delete/modify, mode changes with and without hunk")),
        ("wall_s", J::F(t0.elapsed().as_secs_f64())),
    ]);
    println!("{}", out.to_string());
}
