//! rqmc: bounded-exhaustive sweeps over /repo's libpatch (see /verif/DESIGN.md, 4.1/4.2).
mod c01;
mod c02;
mod c03;
mod c04;
mod c11;
mod c12;
mod c20;
mod util;

#[global_allocator]
static ALLOC: c11::Counting = c11::Counting;

fn main() {
    util::silence_panics();
    let a: Vec<String> = std::env::args().collect();
    match a.get(1).map(|s| s.as_str()) {
        Some("c01") => c01::run(&a[2..]),
        Some("c02") => c02::run(&a[2..]),
        Some("c03") => c03::run("c03", &a[2..]),
        Some("c11") => c11::run(&a[2..]),
        Some("c11-shard") => c11::shard(&a[2..]),
        Some("parse1") => c11::parse1(&a[2..]),
        Some("c12") => c12::run(&a[2..]),
        Some("describe") => c12::describe_cmd(&a[2..]),
        Some("c20") => c20::run(&a[2..]),
        Some("c04-bfs") => c04::run(&a[2..]),
        Some("c04-pairs") => c03::run("c04", &a[2..]),
        _ => {
            eprintln!("usage: rqmc <c01|c02|c03|c04|c11|c12|c20|apply1> ...");
            std::process::exit(2);
        }
    }
}
