//! rqmc: bounded-exhaustive sweeps over /repo's libpatch (see /verif/DESIGN.md, 4.1/4.2).
mod c01;
mod c02;
mod c03;
mod c04;
mod c11;
mod c12;
mod c20;
mod util;

#[global_allocator]
static ALLOC: c11::Counting = c11::Counting;

fn main() {
    util::silence_panics();
    let a: Vec<String> = std::env::args().collect();
    match a.get(1).map(|s| s.as_str()) {
        Some("c01") => c01::run(&a[2..]),
        Some("c01-dump") => c01::dump(&a[2..]),
        Some("c02") => c02::run(&a[2..]),
        Some("c03") => c03::run("c03", &a[2..]),
        Some("c11") => c11::run(&a[2..]),
        Some("c11-dump") => c11::dump(&a[2..]),
        Some("c11-shard") => c11::shard(&a[2..]),
        Some("parse1") => c11::parse1(&a[2..]),
        Some("c12") => c12::run(&a[2..]),
        Some("describe") => c12::describe_cmd(&a[2..]),
        Some("apply1") => {
            // rqmc apply1 <patch file> <source file | -> <reverse 0|1> <fuzz> : one application + rollback, printed
            let patch = std::fs::read(&a[2]).unwrap();
            let file = if a[3] == "-" { None } else { Some(std::fs::read(&a[3]).unwrap()) };
            let r = util::parse_apply(&patch, file.as_deref(), None, a[4] == "1", a[5].parse().unwrap(), true);
            match r {
                Ok(o) => {
                    println!("kind={} ok={} hunks={:?}", o.kind, o.ok, o.hunks);
                    println!("content={:?} absent={}", String::from_utf8_lossy(&o.after.content), o.after.deleted);
                    println!("rolled_back={:?}", o.rolled_back.map(|r| r.map(|s| (String::from_utf8_lossy(&s.content).to_string(), s.deleted))));
                }
                Err(e) => println!("error={:?}", e),
            }
        }
        Some("c20") => c20::run(&a[2..]),
        Some("c04-bfs") => c04::run(&a[2..]),
        Some("c04-pairs") => c03::run("c04", &a[2..]),
        _ => {
            eprintln!("usage: rqmc <c01|c02|c03|c04|c11|c12|c20|apply1> ...");
            std::process::exit(2);
        }
    }
}
