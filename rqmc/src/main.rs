//! rqmc: bounded-exhaustive sweeps over /repo's libpatch (see /verif/DESIGN.md, 4.1/4.2).
mod util;

fn main() {
    util::silence_panics();
    let a: Vec<String> = std::env::args().collect();
    match a.get(1).map(|s| s.as_str()) {
        _ => {
            eprintln!("usage: rqmc <c01|c02|c03|c04|c11|c12|c20|apply1> ...");
            std::process::exit(2);
        }
    }
}
