//! C03 / C04 (lib level): multi-hunk file patches whose hunks are derived from file positions,
//! so that every overlap relation between neighbouring hunks occurs.
//!  C03 oracle: line-level reconstruction of the expected result from the original content and
//!              the per-hunk reports alone (each applied hunk's changed lines replaced, nothing else).
//!  C04 oracle: apply followed by rollback restores content, existence and permissions; no abort.
use crate::c02::trims;
use crate::util::*;

pub const FRESH: u8 = 23; // 'x' - a line that occurs in no file
pub const JUNK: u8 = 25; // 'z' - replaces a context line to force fuzz

#[derive(Clone, Debug)]
pub struct H {
    /// block start (original coordinates), context sizes, lines removed, lines added
    pub pos: usize,
    pub p: usize,
    pub s: usize,
    pub rm: usize,
    pub add: Vec<u8>,
    /// stated line = true line + delta
    pub delta: isize,
    /// index within the old side of a context line replaced by JUNK
    pub corrupt: Option<usize>,
    /// a second change group inside the same hunk: (unchanged lines in between, lines removed, lines added)
    pub inner: Option<(usize, usize, Vec<u8>)>,
}

impl H {
    pub fn old_len(&self) -> usize {
        self.p + self.rm + self.inner.as_ref().map(|(k, r, _)| k + r).unwrap_or(0) + self.s
    }
    pub fn new_len(&self) -> usize {
        self.p + self.add.len() + self.inner.as_ref().map(|(k, _, a)| k + a.len()).unwrap_or(0) + self.s
    }
}

pub fn hunks_for(file: &[u8], maxctx: usize, deltas: &[isize]) -> Vec<H> {
    let mut v = vec![];
    let n = file.len();
    for core in 0..=n {
        for &(rm, ref add) in &[(1usize, vec![]), (1, vec![FRESH]), (1, vec![0u8]), (0, vec![FRESH]), (0, vec![0u8]), (2, vec![FRESH])] {
            if core + rm > n {
                continue;
            }
            for p in 0..=maxctx.min(core) {
                for s in 0..=maxctx.min(n - core - rm) {
                    if p + s == 0 && (rm == 0 || add.is_empty()) {
                        continue;
                    }
                    for &delta in deltas {
                        v.push(H { pos: core - p, p, s, rm, add: add.clone(), delta, corrupt: None, inner: None });
                    }
                    if p > 0 {
                        v.push(H { pos: core - p, p, s, rm, add: add.clone(), delta: 0, corrupt: Some(0), inner: None });
                    }
                    if s > 0 {
                        v.push(H { pos: core - p, p, s, rm, add: add.clone(), delta: 0, corrupt: Some(p + rm + s - 1), inner: None });
                    }
                    // hunks with two change groups and unchanged lines in between (what a diff with context produces
                    // for nearby changes): the inner lines are context for the parser but not leading/trailing context
                    if rm + add.len() == 1 || (rm == 1 && add.len() == 1) {
                        for keep in 1..=2usize {
                            for &(rm2, ref add2) in &[(1usize, vec![]), (1, vec![FRESH]), (0, vec![FRESH])] {
                                if core + rm + keep + rm2 + s > n || s > maxctx.min(n - core - rm - keep - rm2) {
                                    continue;
                                }
                                let inner = Some((keep, rm2, add2.clone()));
                                v.push(H { pos: core - p, p, s, rm, add: add.clone(), delta: 0, corrupt: None, inner: inner.clone() });
                                if p > 0 {
                                    v.push(H { pos: core - p, p, s, rm, add: add.clone(), delta: 0, corrupt: Some(0), inner: inner.clone() });
                                }
                                if s > 0 {
                                    v.push(H { pos: core - p, p, s, rm, add: add.clone(), delta: 0, corrupt: Some(p + rm + keep + rm2 + s - 1), inner: inner.clone() });
                                }
                            }
                        }
                    }
                }
            }
        }
    }
    v
}

/// Render the hunks as a file patch. `inverse`: write the patch the other way round (old and new
/// sides swapped) so that applying it *reversed* has the effect described by the hunks.
pub fn render(file: &[u8], hs: &[&H], inverse: bool) -> Vec<u8> {
    let mut txt = b"--- f\n+++ f\n".to_vec();
    let mut shift: isize = 0;
    for h in hs {
        let oc = h.old_len();
        let nc = h.new_len();
        let os = (h.pos as isize + 1 + h.delta).max(1);
        let ns = (os + shift).max(1);
        if !inverse {
            txt.extend(format!("@@ -{},{} +{},{} @@\n", os, oc, ns, nc).into_bytes());
        } else {
            txt.extend(format!("@@ -{},{} +{},{} @@\n", ns, nc, os, oc).into_bytes());
        }
        let mut idx = 0usize;
        let sym_at = |i: usize, idx: usize| if h.corrupt == Some(idx) { JUNK } else { file[i] };
        for i in 0..h.p {
            txt.push(b' ');
            txt.extend(sym_line(sym_at(h.pos + i, idx)));
            idx += 1;
        }
        let (rmc, addc) = if !inverse { (b'-', b'+') } else { (b'+', b'-') };
        let mut rm_lines = vec![];
        for i in 0..h.rm {
            rm_lines.push(sym_at(h.pos + h.p + i, idx));
            idx += 1;
        }
        if !inverse {
            for c in &rm_lines {
                txt.push(rmc);
                txt.extend(sym_line(*c));
            }
            for a in &h.add {
                txt.push(addc);
                txt.extend(sym_line(*a));
            }
        } else {
            // the inverse patch removes what we add and adds what we remove; '-' lines first
            for a in &h.add {
                txt.push(b'-');
                txt.extend(sym_line(*a));
            }
            for c in &rm_lines {
                txt.push(b'+');
                txt.extend(sym_line(*c));
            }
        }
        let mut at = h.pos + h.p + h.rm;
        if let Some((keep, rm2, add2)) = &h.inner {
            for _ in 0..*keep {
                txt.push(b' ');
                txt.extend(sym_line(sym_at(at, idx)));
                at += 1;
                idx += 1;
            }
            let mut rm2_lines = vec![];
            for _ in 0..*rm2 {
                rm2_lines.push(sym_at(at, idx));
                at += 1;
                idx += 1;
            }
            if !inverse {
                for c in &rm2_lines {
                    txt.push(b'-');
                    txt.extend(sym_line(*c));
                }
                for a in add2 {
                    txt.push(b'+');
                    txt.extend(sym_line(*a));
                }
            } else {
                for a in add2 {
                    txt.push(b'-');
                    txt.extend(sym_line(*a));
                }
                for c in &rm2_lines {
                    txt.push(b'+');
                    txt.extend(sym_line(*c));
                }
            }
        }
        for _ in 0..h.s {
            txt.push(b' ');
            txt.extend(sym_line(sym_at(at, idx)));
            at += 1;
            idx += 1;
        }
        shift += nc as isize - oc as isize;
    }
    txt
}

/// geometry of an applied hunk from its report: (block start, block end, core start, core end) in original coordinates
fn geom(hr: &HR, sh: &HunkShape, ps: (usize, usize)) -> Option<(usize, usize, usize, usize)> {
    if let HR::Applied { line, fuzz, .. } = hr {
        let (pf, sf, tp, ts) = trims(ps.0, ps.1, *fuzz);
        if *line < 0 {
            return None;
        }
        let st = *line as usize;
        let blen = sh.old.len() - pf - sf;
        Some((st, st + blen, st + tp, st + blen - ts))
    } else {
        None
    }
}

/// relation between two consecutive applied hunks, by the positions the tool reported
fn relation(g1: (usize, usize, usize, usize), g2: (usize, usize, usize, usize)) -> &'static str {
    let (_b1s, b1e, _c1s, c1e) = g1;
    let (b2s, _b2e, c2s, _c2e) = g2;
    if b2s >= b1e {
        "disjoint"
    } else if b2s >= c1e && c2s >= b1e {
        "context-over-context"
    } else if b2s >= c1e {
        "changed-lines-inside-previous-trailing-context"
    } else {
        "block-starts-before-previous-changed-lines-end"
    }
}

pub struct Judged {
    pub class: String,
    pub c03: Option<String>,
    pub c04: Option<String>,
    pub napplied: usize,
    pub overlapping: bool,
}

/// Both oracles for one executed case.
/// `ctx`: leading/trailing context sizes of each hunk as the generator built it (the parser's own idea of them is
/// part of what is being checked)
pub fn judge(orig: &[u8], before: &FileState, a: &Applied, ctx: &[(usize, usize)]) -> Judged {
    // original lines
    let olines: Vec<&[u8]> = orig.split_inclusive(|&c| c == b'\n').collect();
    let mut expected: Vec<u8> = vec![];
    let mut cursor = 0usize;
    let mut bad: Option<String> = None;
    let mut geoms = vec![];
    for ((hr, sh), ps) in a.hunks.iter().zip(a.shapes.iter()).zip(ctx.iter()) {
        if let HR::Applied { line, fuzz, .. } = hr {
            if *fuzz > ps.0.max(ps.1) {
                bad = Some(format!("fuzz-{}-exceeds-context", fuzz));
                break;
            }
            let g = match geom(hr, sh, *ps) {
                Some(g) => g,
                None => {
                    bad = Some("negative-line".into());
                    break;
                }
            };
            let (pf, sf, _tp, _ts) = trims(ps.0, ps.1, *fuzz);
            let (bs, be, cs, ce) = g;
            if be > olines.len() || (bs..be).zip(sh.old[pf..sh.old.len() - sf].iter()).any(|(i, l)| olines[i] != &l[..]) {
                bad = Some(format!("reported-position-does-not-match:line{}", line));
                break;
            }
            if cs < cursor {
                bad = Some("changed-lines-not-in-order".into());
                break;
            }
            for l in &olines[cursor..cs] {
                expected.extend_from_slice(l);
            }
            for l in &sh.new[ps.0..sh.new.len() - ps.1] {
                expected.extend_from_slice(l);
            }
            cursor = ce;
            geoms.push(g);
        }
    }
    let napplied = geoms.len();
    let mut rel = "single-or-none-applied";
    let mut overlapping = false;
    for w in geoms.windows(2) {
        let r = relation(w[0], w[1]);
        if r != "disjoint" {
            overlapping = true;
        }
        // report the "worst" relation of the patch
        let rank = |x: &str| match x {
            "block-starts-before-previous-changed-lines-end" => 3,
            "changed-lines-inside-previous-trailing-context" => 2,
            "context-over-context" => 1,
            _ => 0,
        };
        if rank(r) >= rank(rel) {
            rel = r;
        }
    }
    let c03 = match bad {
        Some(b) => Some(b),
        None => {
            for l in &olines[cursor.min(olines.len())..] {
                expected.extend_from_slice(l);
            }
            if expected != a.after.content {
                Some("wrong-content".into())
            } else {
                None
            }
        }
    };
    let c04 = match &a.rolled_back {
        None => None,
        Some(Err(p)) => Some(format!("panic:{}", &p[..p.len().min(40)])),
        Some(Ok(st)) => {
            if st.content != before.content {
                Some("content-not-restored".into())
            } else if st.deleted != before.deleted {
                Some("existence-not-restored".into())
            } else if st.mode != before.mode {
                Some("permissions-not-restored".into())
            } else {
                None
            }
        }
    };
    Judged { class: format!("hunks-{}", rel), c03, c04, napplied, overlapping }
}

fn run_case(which: &str, txt: &[u8], fbytes: &[u8], rev: bool, fmax: usize, hs: &[&H], rep: &mut Report) {
    let ctx: Vec<(usize, usize)> = hs.iter().map(|h| (h.p, h.s)).collect();
    rep.evaluations += 1;
    let before = FileState { content: fbytes.to_vec(), deleted: false, mode: Some(0o100644) };
    let r = parse_apply(txt, Some(fbytes), before.mode, rev, fmax, which == "c04");
    match &r {
        Err(ApplyErr::Panic(m)) => {
            // a panic while applying: violates "never aborts" (C04) and yields no result at all (C03)
            rep.violation("apply-aborts", &format!("panic:{}", &m[..m.len().min(40)]), || apply_witness(txt, Some(fbytes), before.mode, rev, fmax, J::s("no panic"), J::s(m)));
            rep.nontrivial += 1;
        }
        Err(e) => {
            rep.violation("harness", "parse", || apply_witness(txt, Some(fbytes), before.mode, rev, fmax, J::s("parses to one file patch"), J::s(&format!("{:?}", e))));
        }
        Ok(a) => {
            if a.hunks.len() != ctx.len() {
                rep.violation("harness", "hunk-count", || apply_witness(txt, Some(fbytes), before.mode, rev, fmax, J::s("as many hunks as generated"), J::u(a.hunks.len() as u64)));
                return;
            }
            let j = judge(fbytes, &before, a, &ctx);
            rep.count(&format!("applied-hunks-{}", j.napplied));
            if j.overlapping {
                rep.count("overlapping-context");
            }
            if j.napplied >= 2 || (j.napplied >= 1 && !a.ok) {
                rep.nontrivial += 1;
                if rep.nontrivial % 40_000 == 3 {
                    rep.sample(|| apply_witness(txt, Some(fbytes), before.mode, rev, fmax, J::s("sample"), J::obj(vec![("hunks", J::A(a.hunks.iter().map(hr_json).collect())), ("content", J::bytes(&a.after.content)), ("relation", J::s(&j.class))])));
                }
            }
            let v = if which == "c03" { &j.c03 } else { &j.c04 };
            if let Some(mode) = v {
                rep.violation(&j.class, mode, || {
                    apply_witness(
                        txt,
                        Some(fbytes),
                        before.mode,
                        rev,
                        fmax,
                        J::s(if which == "c03" { "original with each applied hunk's removed lines replaced by its added lines, everything else untouched" } else { "rollback restores the state before the application" }),
                        J::obj(vec![
                            ("hunks", J::A(a.hunks.iter().map(hr_json).collect())),
                            ("content", J::bytes(&a.after.content)),
                            ("rolled_back", match &a.rolled_back { Some(Ok(s)) => J::bytes(&s.content), Some(Err(p)) => J::s(p), None => J::Null }),
                        ]),
                    )
                });
            }
        }
    }
}

/// rqmc c03|c04-pairs <max file len> <max ctx> <max fuzz> <triples: 0|1>
pub fn run(which: &str, args: &[String]) {
    let t0 = std::time::Instant::now();
    let n: usize = args.get(0).and_then(|s| s.parse().ok()).unwrap_or(4);
    let maxctx: usize = args.get(1).and_then(|s| s.parse().ok()).unwrap_or(2);
    let fcap: usize = args.get(2).and_then(|s| s.parse().ok()).unwrap_or(1);
    let triples: usize = args.get(3).and_then(|s| s.parse().ok()).unwrap_or(0);
    let files = canon_seqs(n, 3);
    let rep = par_shards(files.len(), n_threads(), |fi, rep| {
        let file = &files[fi];
        let fbytes = sym_file(file);
        let hs = hunks_for(file, maxctx, &[-1, 0, 1]);
        for h1 in &hs {
            // single hunks too (partial/ fuzz paths of rollback)
            for fmax in 0..=fcap {
                for &rev in &[false, true] {
                    let txt = render(file, &[h1], rev);
                    run_case(which, &txt, &fbytes, rev, fmax, &[h1], rep);
                }
            }
            for h2 in &hs {
                if h2.pos + h2.p < h1.pos {
                    continue;
                }
                for &rev in &[false, true] {
                    let txt = render(file, &[h1, h2], rev);
                    for fmax in 0..=fcap {
                        run_case(which, &txt, &fbytes, rev, fmax, &[h1, h2], rep);
                    }
                }
            }
        }
        if triples > 0 {
            // reduced menu: exact stated lines, no corruption, context <= 1
            let hr: Vec<H> = hunks_for(file, maxctx.min(1), &[0]).into_iter().filter(|h| h.corrupt.is_none() && h.inner.is_none()).collect();
            for h1 in &hr {
                for h2 in &hr {
                    if h2.pos + h2.p < h1.pos {
                        continue;
                    }
                    for h3 in &hr {
                        if h3.pos + h3.p < h2.pos {
                            continue;
                        }
                        let txt = render(file, &[h1, h2, h3], false);
                        for fmax in 0..=fcap.min(1) {
                            run_case(which, &txt, &fbytes, false, fmax, &[h1, h2, h3], rep);
                        }
                    }
                }
            }
        }
    });
    let out = rep.to_json(vec![
        ("max_file_len", J::u(n as u64)),
        ("max_context", J::u(maxctx as u64)),
        ("max_fuzz_limit", J::u(fcap as u64)),
        ("triples", J::B(triples > 0)),
        ("files", J::u(files.len() as u64)),
        ("wall_s", J::F(t0.elapsed().as_secs_f64())),
    ]);
    println!("{}", out.to_string());
}
