//! C12 (lib level): write(parse(x)) parses back to the same file patches; writing is a fixed point.
//! Inputs: every parseable element of the C11 token-sequence and token-edit spaces, and reference
//! diffs (C01 edit scripts) under a menu of header dialects.
use libpatch::patch::unified::parser::parse_patch;
use libpatch::patch::unified::writer::UnifiedPatchWriter;
use libpatch::analysis::{fn_analysis_note_noop, AnalysisSet};
use libpatch::modified_file::ModifiedFile;
use libpatch::patch::{FilePatchKind, PatchDirection, TextPatch};

use crate::c01::{Case, Op, SIGMA2, SIGMAN};
use crate::c11::{input_of, space_size, Space};
use crate::util::*;

fn lossy(b: &[u8]) -> String {
    b.iter().map(|&c| c as char).collect()
}

/// everything the statement compares, one line per file patch / hunk
fn describe(p: &TextPatch) -> Vec<String> {
    use std::os::unix::ffi::OsStrExt;
    let mut v = vec![];
    for fp in &p.file_patches {
        v.push(format!(
            "FP kind={:?} old={:?} new={:?} rename={} oldmode={:?} newmode={:?} oldhash={:?} newhash={:?} hunks={}",
            fp.kind(),
            fp.old_filename().map(|f| lossy(f.as_os_str().as_bytes())),
            fp.new_filename().map(|f| lossy(f.as_os_str().as_bytes())),
            fp.is_rename(),
            mode_of(&fp.old_permissions().cloned()),
            mode_of(&fp.new_permissions().cloned()),
            fp.old_hash().map(lossy),
            fp.new_hash().map(lossy),
            fp.hunks().len()
        ));
        // "describes the same file patches": whatever else the parsed form carries shows in what it does. Each file patch is
        // applied (fuzz 0, both directions) to no file, an empty file, a file holding the old side of its first hunk and one
        // holding the new side; outcome and resulting state are part of the description.
        let sides: Vec<Vec<u8>> = match fp.hunks().first() {
            Some(h) => vec![h.remove.content.iter().flat_map(|l| l.to_vec()).collect(), h.add.content.iter().flat_map(|l| l.to_vec()).collect()],
            None => vec![],
        };
        let mut files: Vec<Option<&[u8]>> = vec![None, Some(&b""[..])];
        for s in &sides {
            if !s.is_empty() {
                files.push(Some(&s[..]));
            }
        }
        let mut b = String::from("  B");
        // (not for modifying entries with hunks: the statement defines "same hunk" by the two line sequences and the start
        // lines, not by which of the equal lines are written as context, and the writer is free to choose there)
        if fp.kind() == FilePatchKind::Modify && !fp.hunks().is_empty() {
            files.clear();
        }
        for file in &files {
            for &dir in &[PatchDirection::Forward, PatchDirection::Revert] {
                let mut mf = match file {
                    Some(c) => ModifiedFile::new(c, true, None),
                    None => ModifiedFile::new_non_existent(),
                };
                let rep = fp.apply(&mut mf, dir, 0, &AnalysisSet::default(), &fn_analysis_note_noop);
                let st = state_of(&mf);
                b.push_str(&format!(" [{} {:?} del={} mode={:?}]", if rep.ok() { "ok" } else { "failed" }, lossy(&st.content), st.deleted, st.mode));
            }
        }
        v.push(b);
        for h in fp.hunks() {
            v.push(format!(
                "  H old@{} new@{} old={:?} new={:?}",
                h.remove.target_line,
                h.add.target_line,
                h.remove.content.iter().map(|l| lossy(l)).collect::<Vec<_>>(),
                h.add.content.iter().map(|l| lossy(l)).collect::<Vec<_>>()
            ));
        }
    }
    v
}

fn needs_quoting(name: &[u8]) -> bool {
    name.iter().any(|&c| c <= b' ' || c == b'"' || c == b'\\' || c >= 0x7f)
}

/// structural class of a parsed patch (predicates on the parser's output only)
fn class_of(p: &TextPatch) -> String {
    use std::os::unix::ffi::OsStrExt;
    let mut tags: Vec<&str> = vec![];
    for fp in &p.file_patches {
        let old = fp.old_filename().map(|f| f.as_os_str().as_bytes().to_vec());
        let new = fp.new_filename().map(|f| f.as_os_str().as_bytes().to_vec());
        if old.as_ref().map(|n| needs_quoting(n)).unwrap_or(false) || new.as_ref().map(|n| needs_quoting(n)).unwrap_or(false) {
            tags.push("name-needs-quoting");
        }
        if fp.hunks().is_empty() {
            let writable = fp.is_rename() || fp.old_permissions().is_some() || fp.new_permissions().is_some() || (fp.old_hash().is_some() && fp.new_hash().is_some());
            if !writable {
                tags.push("hunkless-entry-without-metadata-the-writer-emits");
            } else if fp.kind() == FilePatchKind::Modify && (old.is_none() || new.is_none()) {
                tags.push("hunkless-entry-with-one-name");
            }
        }
        match fp.kind() {
            FilePatchKind::Delete if new.is_some() => tags.push("delete-kind-with-real-new-name"),
            FilePatchKind::Create if old.is_some() => tags.push("create-kind-with-real-old-name"),
            FilePatchKind::Delete if fp.old_permissions().is_some() || fp.new_permissions().is_some() => tags.push("delete-kind-with-mode"),
            FilePatchKind::Create if fp.old_permissions().is_some() => tags.push("create-kind-with-old-mode"),
            _ => {}
        }
        if fp.kind() == FilePatchKind::Modify && (old.is_none() != new.is_none()) && !fp.hunks().is_empty() {
            tags.push("modify-kind-with-one-name");
        }
        for h in fp.hunks() {
            if (h.remove.content.is_empty() && h.remove.target_line != 0) || (h.add.content.is_empty() && h.add.target_line != 0) {
                tags.push("empty-side-with-nonzero-line");
            }
        }
    }
    tags.sort();
    tags.dedup();
    if tags.is_empty() {
        "plain".to_string()
    } else {
        tags.join("+")
    }
}

pub enum Outcome {
    NotParsed,
    Ok { file_patches: usize },
    Violation { class: String, mode: String, written: Vec<u8> },
}

pub fn roundtrip(inp: &[u8]) -> Outcome {
    let r = std::panic::catch_unwind(|| {
        let p = match parse_patch(inp, 0, true) {
            Ok(p) => p,
            Err(_) => return Outcome::NotParsed,
        };
        let class = class_of(&p);
        let d1 = describe(&p);
        let mut w = Vec::new();
        if p.write_to(&mut w).is_err() {
            return Outcome::Violation { class, mode: "write-error".into(), written: w };
        }
        let p2 = match parse_patch(&w, 0, true) {
            Ok(p2) => p2,
            Err(e) => {
                let m = format!("{}", e);
                return Outcome::Violation { class, mode: format!("written-form-rejected:{}", m.split(':').next().unwrap_or("")), written: w };
            }
        };
        let d2 = describe(&p2);
        if d1 != d2 {
            // name the first field that differs
            let mode = if p.file_patches.len() != p2.file_patches.len() {
                format!("file-patches:{}->{}", p.file_patches.len(), p2.file_patches.len())
            } else {
                let (a, b) = d1.iter().zip(d2.iter()).find(|(a, b)| a != b).map(|(a, b)| (a.clone(), b.clone())).unwrap_or_default();
                let fa: Vec<&str> = a.trim().split(' ').collect();
                let fb: Vec<&str> = b.trim().split(' ').collect();
                let mut fields: Vec<String> = fa.iter().zip(fb.iter()).filter(|(x, y)| x != y).map(|(x, _)| x.split(|c| c == '=' || c == '@').next().unwrap_or("").to_string()).collect();
                fields.dedup();
                fields.truncate(3);
                if d1.len() != d2.len() { "hunks-differ".to_string() } else if a.starts_with("  B") { "differs:effect-on-a-file".to_string() } else { format!("differs:{}", fields.join(",")) }
            };
            return Outcome::Violation { class, mode, written: w };
        }
        let mut w2 = Vec::new();
        let _ = p2.write_to(&mut w2);
        if w2 != w {
            return Outcome::Violation { class, mode: "not-a-fixed-point".into(), written: w };
        }
        Outcome::Ok { file_patches: p.file_patches.len() }
    });
    match r {
        Ok(o) => o,
        Err(e) => {
            let m = panic_message(e);
            Outcome::Violation { class: "any".into(), mode: format!("panic:{}", &m[..m.len().min(40)]), written: vec![] }
        }
    }
}

fn record(inp: &[u8], space: &str, rep: &mut Report) {
    rep.evaluations += 1;
    match roundtrip(inp) {
        Outcome::NotParsed => rep.count("not-parsed"),
        Outcome::Ok { file_patches } => {
            rep.count("round-trips");
            if file_patches > 0 {
                rep.nontrivial += 1;
                if rep.nontrivial % 60_000 == 9 {
                    rep.sample(|| J::obj(vec![("space", J::s(space)), ("input", J::bytes(inp)), ("result", J::s("round-trips"))]));
                }
            }
        }
        Outcome::Violation { class, mode, written } => {
            rep.nontrivial += 1;
            rep.count("violating");
            rep.violation(&class, &mode, || J::obj(vec![("kind", J::s("lib-roundtrip")), ("space", J::s(space)), ("input", J::bytes(inp)), ("written", J::bytes(&written)), ("observed", J::s(&mode))]));
        }
    }
}

const DIALECTS: &[(&str, &str, &str, &str)] = &[
    // (label, lines before ---, old name, new name)
    ("plain", "", "a/f", "b/f"),
    ("timestamps", "", "a/f\t2020-01-01 00:00:00.000000000 +0000", "b/f\t2020-01-02 00:00:00.000000000 +0000"),
    ("git", "diff --git a/f b/f\nindex 1a2b3c..4d5e6f 100644\n", "a/f", "b/f"),
    ("git-mode", "diff --git a/f b/f\nold mode 100644\nnew mode 100755\nindex 1a2b3c..4d5e6f\n", "a/f", "b/f"),
    ("git-rename", "diff --git a/f b/g\nsimilarity index 80%\nrename from f\nrename to g\n", "a/f", "b/g"),
    ("orig-names", "", "a/f.orig", "b/f"),
    ("prose-before", "Subject: x\n\nsome text\n---\n file | 2 +-\n\n", "a/f", "b/f"),
    ("deep-path", "", "a/d/e/f", "b/d/e/f"),
];

/// rqmc c12 <seq len> <script len sigma2> <script len nasty>
pub fn run(args: &[String]) {
    let t0 = std::time::Instant::now();
    let l: usize = args.get(0).and_then(|s| s.parse().ok()).unwrap_or(4);
    let l2: usize = args.get(1).and_then(|s| s.parse().ok()).unwrap_or(4);
    let ln: usize = args.get(2).and_then(|s| s.parse().ok()).unwrap_or(2);
    let spaces = [("seq", Space::Seq(l)), ("seqb", Space::SeqB(l)), ("edits", Space::Edits)];
    let per = 50_000usize;
    let mut units: Vec<(usize, usize, usize)> = vec![];
    for (si, (_, sp)) in spaces.iter().enumerate() {
        let n = space_size(*sp);
        let mut s = 0;
        while s < n {
            units.push((si, s, (s + per).min(n)));
            s += per;
        }
    }
    let nu = units.len();
    // dialect units: one per first op
    let scripts2 = 3 * SIGMA2.len();
    let scriptsn = 3 * SIGMAN.len();
    let rep = par_shards(nu + scripts2 + scriptsn, n_threads(), |i, rep| {
        if i < nu {
            let (si, s, e) = units[i];
            for idx in s..e {
                let inp = input_of(spaces[si].1, idx);
                record(&inp, spaces[si].0, rep);
            }
        } else {
            let (sigma, first, maxlen): (&[&[u8]], usize, usize) = if i < nu + scripts2 { (SIGMA2, i - nu, l2) } else { (SIGMAN, i - nu - scripts2, ln) };
            let mut cur = vec![op_of(first)];
            dialect_rec(sigma, &mut cur, maxlen, rep);
        }
    });
    let out = rep.to_json(vec![
        ("token_seq_len", J::u(l as u64)),
        ("script_len_sigma2", J::u(l2 as u64)),
        ("script_len_nasty", J::u(ln as u64)),
        ("dialects", J::A(DIALECTS.iter().map(|d| J::s(d.0)).chain(std::iter::once(J::s("diff-N"))).collect())),
        ("wall_s", J::F(t0.elapsed().as_secs_f64())),
    ]);
    println!("{}", out.to_string());
}

fn op_of(k: usize) -> Op {
    let s = (k / 3) as u8;
    match k % 3 {
        0 => Op::Keep(s),
        1 => Op::Del(s),
        _ => Op::Add(s),
    }
}

fn dialect_rec(sigma: &[&[u8]], cur: &mut Vec<Op>, maxlen: usize, rep: &mut Report) {
    for flags in 0..16u8 {
        let case = Case { sigma, script: cur, a_nonl: flags & 1 != 0, b_nonl: flags & 2 != 0, a_absent: flags & 4 != 0, b_absent: flags & 8 != 0 };
        if !case.valid() {
            continue;
        }
        for &c in &[0usize, 1, 3] {
            for (label, pre, on, nn) in DIALECTS {
                if let Some((d, _, _, _)) = case.diff(c, true, on.as_bytes(), nn.as_bytes()) {
                    let mut inp = pre.as_bytes().to_vec();
                    inp.extend_from_slice(&d);
                    record(&inp, label, rep);
                    // `diff -N`: the side that does not exist carries the real name, dated to the epoch
                    if *label == "timestamps" && (case.a_absent || case.b_absent) {
                        let epoch = "\t1970-01-01 00:00:00.000000000 +0000";
                        let text = String::from_utf8_lossy(&inp).into_owned();
                        let text = text.replacen("--- /dev/null", &format!("--- a/f{}", epoch), 1).replacen("+++ /dev/null", &format!("+++ b/f{}", epoch), 1);
                        record(text.as_bytes(), "diff-N", rep);
                    }
                }
            }
        }
    }
    if cur.len() == maxlen {
        return;
    }
    for k in 0..3 * sigma.len() {
        cur.push(op_of(k));
        dialect_rec(sigma, cur, maxlen, rep);
        cur.pop();
    }
}

/// rqmc describe <strip> <file>...: parse each file with the real parser and print one JSON line per file:
/// {"file":..,"ok":bool,"error":..,"file_patches":[{old,new,kind,rename,old_mode,new_mode,hunks:[{old_start,old,new_start,new}]}]}
pub fn describe_cmd(args: &[String]) {
    use std::os::unix::ffi::OsStrExt;
    let strip: usize = args[0].parse().unwrap();
    for f in &args[1..] {
        let data = std::fs::read(f).unwrap_or_default();
        let r = std::panic::catch_unwind(|| match parse_patch(&data, strip, false) {
            Err(e) => J::obj(vec![("file", J::s(f)), ("ok", J::B(false)), ("error", J::s(&format!("{}", e)))]),
            Ok(p) => {
                let fps: Vec<J> = p
                    .file_patches
                    .iter()
                    .map(|fp| {
                        J::obj(vec![
                            ("old", fp.old_filename().map(|n| J::bytes(n.as_os_str().as_bytes())).unwrap_or(J::Null)),
                            ("new", fp.new_filename().map(|n| J::bytes(n.as_os_str().as_bytes())).unwrap_or(J::Null)),
                            ("kind", J::s(kind_name(fp.kind()))),
                            ("rename", J::B(fp.is_rename())),
                            ("old_mode", mode_of(&fp.old_permissions().cloned()).map(|m| J::u(m as u64)).unwrap_or(J::Null)),
                            ("new_mode", mode_of(&fp.new_permissions().cloned()).map(|m| J::u(m as u64)).unwrap_or(J::Null)),
                            (
                                "hunks",
                                J::A(fp.hunks().iter().map(|h| J::obj(vec![
                                    ("old_start", J::I(h.remove.target_line as i64)),
                                    ("old", J::A(h.remove.content.iter().map(|l| J::bytes(l)).collect())),
                                    ("new_start", J::I(h.add.target_line as i64)),
                                    ("new", J::A(h.add.content.iter().map(|l| J::bytes(l)).collect())),
                                ])).collect()),
                            ),
                        ])
                    })
                    .collect();
                J::obj(vec![("file", J::s(f)), ("ok", J::B(true)), ("file_patches", J::A(fps))])
            }
        });
        match r {
            Ok(j) => println!("{}", j.to_string()),
            Err(e) => println!("{}", J::obj(vec![("file", J::s(f)), ("ok", J::B(false)), ("error", J::s(&format!("panic: {}", panic_message(e))))]).to_string()),
        }
    }
}
