//! C11 (lib level): the parser (and apply on whatever it returns) is total.
//!
//! Three finite input spaces, every element executed:
//!  (a) all sequences of whole-line tokens up to a length, the last one also truncated (no final newline);
//!  (b) the numeric grid: each of the four hunk-header fields over 12 boundary values x 3 bodies;
//!  (c) well-formed patch skeletons with up to 2 token edits (replace / insert / delete).
//! Cases run in shard subprocesses (address-space limit, watchdog); before each case the shard
//! publishes its index, so an abort or hang is attributed to exactly one input and the shard
//! is resumed behind it.
use std::alloc::{GlobalAlloc, Layout, System};
use std::io::{BufRead, BufReader, Write};
use std::os::unix::fs::FileExt;
use std::os::unix::process::CommandExt;
use std::process::{Command, Stdio};
use std::sync::atomic::{AtomicUsize, Ordering};
use std::time::{Duration, Instant};

use libpatch::analysis::{fn_analysis_note_noop, AnalysisSet};
use libpatch::modified_file::ModifiedFile;
use libpatch::patch::unified::parser::parse_patch;
use libpatch::patch::PatchDirection;

use crate::util::*;

// ---------------------------------------------------------------- counting allocator

pub struct Counting;
pub static LARGEST: AtomicUsize = AtomicUsize::new(0);
pub static CURRENT: AtomicUsize = AtomicUsize::new(0);
pub static PEAK: AtomicUsize = AtomicUsize::new(0);
/// counting is switched on only in the single-threaded shard children (the shared counters would
/// otherwise be a point of contention for the multi-threaded sweeps of the other sub-commands)
pub static COUNTING: std::sync::atomic::AtomicBool = std::sync::atomic::AtomicBool::new(false);
/// requests above this are refused (the process aborts, like under memory pressure)
pub const REFUSE: usize = 1 << 30;

unsafe impl GlobalAlloc for Counting {
    unsafe fn alloc(&self, l: Layout) -> *mut u8 {
        if !COUNTING.load(Ordering::Relaxed) {
            return System.alloc(l);
        }
        LARGEST.fetch_max(l.size(), Ordering::Relaxed);
        if l.size() > REFUSE {
            return std::ptr::null_mut();
        }
        let c = CURRENT.fetch_add(l.size(), Ordering::Relaxed) + l.size();
        PEAK.fetch_max(c, Ordering::Relaxed);
        System.alloc(l)
    }
    unsafe fn dealloc(&self, p: *mut u8, l: Layout) {
        if !COUNTING.load(Ordering::Relaxed) {
            return System.dealloc(p, l);
        }
        CURRENT.fetch_sub(l.size(), Ordering::Relaxed);
        System.dealloc(p, l)
    }
    unsafe fn realloc(&self, p: *mut u8, l: Layout, new: usize) -> *mut u8 {
        if !COUNTING.load(Ordering::Relaxed) {
            return System.realloc(p, l, new);
        }
        LARGEST.fetch_max(new, Ordering::Relaxed);
        if new > REFUSE {
            return std::ptr::null_mut();
        }
        if new > l.size() {
            let c = CURRENT.fetch_add(new - l.size(), Ordering::Relaxed) + new - l.size();
            PEAK.fetch_max(c, Ordering::Relaxed);
        } else {
            CURRENT.fetch_sub(l.size() - new, Ordering::Relaxed);
        }
        System.realloc(p, l, new)
    }
}

// ---------------------------------------------------------------- input spaces

pub const TOK: &[&str] = &[
    "--- a/f\n",
    "+++ b/f\n",
    "--- /dev/null\n",
    "+++ /dev/null\n",
    "--- \"a/f g\"\n",
    "+++ \"b/\\146\"\n",
    "--- \"a/\\q\"\n",
    "+++ \"b/f\n",
    "--- a/f\t2020-01-01 00:00:00\n",
    "diff --git a/f b/f\n",
    "diff --git a/f b/g\n",
    "index 1a..2b\n",
    "index 1a..2b 100644\n",
    "old mode 100644\n",
    "new mode 100755\n",
    "new file mode 100644\n",
    "deleted file mode 100644\n",
    "old mode 000644\n",
    "new mode 000755\n",
    "new file mode 120000\n",
    "deleted file mode 040000\n",
    "rename from f\n",
    "rename to g\n",
    "copy from f\n",
    "copy to g\n",
    "GIT binary patch\n",
    "@@ -1 +1 @@\n",
    "@@ -1,2 +1,2 @@ fn\n",
    "@@ -0,0 +1 @@\n",
    "@@ -1 +0,0 @@\n",
    "@@ -3,0 +4 @@\n",
    "@@ -1,1 +1,1 @\n",
    "@@ -1,0 +1,0 @@\n",
    " a\n",
    "-a\n",
    "+a\n",
    "+b\n",
    "\n",
    "\ta\n",
    "\\ No newline at end of file\n",
    "prose\n",
];

/// second alphabet: a minimal skeleton plus exotic spellings (quoting, escapes, CRLF, trailing blanks, odd headers)
pub const TOKB: &[&str] = &[
    "--- a/f\n",
    "+++ b/f\n",
    "@@ -1 +1 @@\n",
    "-a\n",
    "+b\n",
    " c\n",
    "--- \"a/f\\ng\"\n",
    "+++ \"b/f\\\"g\\\\\"\n",
    "--- \"a/\\303\\251\"\n",
    "--- \"a/f\\vg\"\n",
    "+++ \"b/f\\013g\"\n",
    "+++ \"b/f\\fg\\rh\\ti\"\n",
    "diff --git \"a/f g\" \"b/f g\"\n",
    "--- a/f\t(revision 1)\n",
    "+++ b/f   \n",
    "--- a/f\r\n",
    "+++ b/f\r\n",
    " c\r\n",
    "+b\r\n",
    "--- \n",
    "+++ \n",
    "--- a/f b/f\n",
    "--- a/f g\t\n",
    "--- /dev/null/\n",
    "--- a/f\t2024-05-06 07:08:09+02\n",
    "+++ b/f\t1970-01-01 00:00:00 +0\n",
    "+++ b/f\t1970-01-01 00:00:00.\n",
    "+++ b/f\t1970-01-01 01:00:00.000000000 +0100\n",
    "--- a/f\t1969-12-31 19:00:00 -05\n",
    "+++ b/f 1970-01-01 00:00:00 -\n",
    "+++ b/f\t1970-01-01 00:00:0\n",
    "+++ \"b/x\\0401970-01-01 00:00:00\"\n",
    "--- \"a/x\\0401970-01-01 00:00:00\"\n",
    "+++ \"/dev/null/.\"\n",
    "+++ /dev//null\n",
    "+++ b/f g\t2020-01-02 03:04:05 +0000\n",
    "+++ b/ f\t \n",
    "@@ -1 +1,0 @@\n",
    "@@ -1 +0,0 @@\n",
    "@@ -0,0 +1 @@\n",
    "@@ -1,1 +1,1 @@ \n",
    "@@@ -1 -1 +1 @@@\n",
    "Binary files a/f and b/f differ\n",
    "similarity index 100%\n",
    "rename from \"f g\"\n",
    "rename to \"g h\"\n",
    "diff --git a/f b/f\n",
    "index 1a..2b 100755\n",
    "index 1a,2b..3c\n",
    "old mode 100644 \n",
    "new mode 0100755\n",
    "\\ No newline\n",
];

pub const GRID: &[&str] = &[
    "0", "1", "2", "2147483647", "2147483648", "4294967295", "4294967296", "2000000000000000000", "2305843009213693951", "9223372036854775807", "9223372036854775808", "18446744073709551615",
    "18446744073709551616", "1000000000000000000000000000000",
];

const SKELETONS: &[&[&str]] = &[
    &["--- a/f\n", "+++ b/f\n", "@@ -1,3 +1,3 @@\n", " a\n", "-b\n", "+B\n", " c\n"],
    &["diff --git a/f b/f\n", "new file mode 100644\n", "index 0000000..1a\n", "--- /dev/null\n", "+++ b/f\n", "@@ -0,0 +1,2 @@\n", "+a\n", "+b\n"],
    &["diff --git a/f b/f\n", "deleted file mode 100644\n", "--- a/f\n", "+++ /dev/null\n", "@@ -1,2 +0,0 @@\n", "-a\n", "-b\n"],
    &["diff --git a/f b/g\n", "rename from f\n", "rename to g\n", "--- a/f\n", "+++ b/g\n", "@@ -1 +1 @@\n", "-a\n", "+A\n", "\\ No newline at end of file\n"],
    &["prose\n", "--- a/f\n", "+++ b/f\n", "@@ -1 +1 @@\n", "-a\n", "+A\n", "--- a/g\n", "+++ b/g\n", "@@ -2,1 +2,2 @@\n", " b\n", "+c\n"],
];

#[derive(Clone, Copy, Debug, PartialEq)]
pub enum Space {
    Seq(usize),
    SeqB(usize),
    Grid,
    Edits,
}

pub fn space_of(s: &str) -> Space {
    if s == "grid" {
        Space::Grid
    } else if s == "edits" {
        Space::Edits
    } else if s.starts_with("seqb") {
        Space::SeqB(s.trim_start_matches("seqb").parse().unwrap())
    } else {
        Space::Seq(s.trim_start_matches("seq").parse().unwrap())
    }
}

fn edits_per_skeleton(sk: &[&str]) -> usize {
    // single edits: replace(pos,tok) | insert(pos,tok) | delete(pos)
    sk.len() * TOK.len() + (sk.len() + 1) * TOK.len() + sk.len()
}

pub fn space_size(sp: Space) -> usize {
    match sp {
        Space::Seq(l) => {
            let t = TOK.len();
            (1..=l).map(|k| t.pow(k as u32) * 2).sum()
        }
        Space::SeqB(l) => {
            let t = TOKB.len();
            (1..=l).map(|k| t.pow(k as u32) * 2).sum()
        }
        Space::Grid => GRID.len().pow(4) * 4,
        Space::Edits => SKELETONS.iter().map(|sk| { let e = edits_per_skeleton(sk); 1 + e + e * e }).sum(),
    }
}

fn apply_edit(v: &mut Vec<&'static str>, sk_len: usize, e: usize) {
    // edits are numbered against the skeleton's original length; positions are clamped to the current vector
    let t = TOK.len();
    if e < sk_len * t {
        let pos = (e / t).min(v.len().saturating_sub(1));
        if !v.is_empty() {
            v[pos] = TOK[e % t];
        }
    } else if e < sk_len * t + (sk_len + 1) * t {
        let e = e - sk_len * t;
        let pos = (e / t).min(v.len());
        v.insert(pos, TOK[e % t]);
    } else {
        let pos = e - sk_len * t - (sk_len + 1) * t;
        if pos < v.len() {
            v.remove(pos);
        }
    }
}

/// the input bytes of case `idx` of space `sp`
pub fn input_of(sp: Space, mut idx: usize) -> Vec<u8> {
    match sp {
        Space::Seq(l) | Space::SeqB(l) => {
            let toks: &[&str] = if let Space::SeqB(_) = sp { TOKB } else { TOK };
            let t = toks.len();
            for k in 1..=l {
                let n = t.pow(k as u32) * 2;
                if idx < n {
                    let trunc = idx % 2 == 1;
                    let mut d = idx / 2;
                    let mut toks_idx = vec![];
                    for _ in 0..k {
                        toks_idx.push(d % t);
                        d /= t;
                    }
                    toks_idx.reverse();
                    let mut out: Vec<u8> = toks_idx.iter().flat_map(|&i| toks[i].as_bytes().to_vec()).collect();
                    if trunc {
                        out.pop();
                    }
                    return out;
                }
                idx -= n;
            }
            unreachable!()
        }
        Space::Grid => {
            let g = GRID.len();
            let body = idx % 4;
            let mut d = idx / 4;
            let mut f = vec![];
            for _ in 0..4 {
                f.push(GRID[d % g]);
                d /= g;
            }
            let mut out = format!("--- a/f\n+++ b/f\n@@ -{},{} +{},{} @@\n", f[0], f[1], f[2], f[3]).into_bytes();
            match body {
                0 => out.extend_from_slice(b" a\n-b\n+c\n"),
                1 => out.extend_from_slice(b" a\n"),
                // a second, ordinary hunk: its expected place is its stated line plus whatever offset the first one went in at
                2 => out.extend_from_slice(b" a\n-b\n+c\n@@ -3 +3 @@\n-c\n+C\n"),
                _ => {}
            }
            out
        }
        Space::Edits => {
            for sk in SKELETONS {
                let e = edits_per_skeleton(sk);
                let n = 1 + e + e * e;
                if idx < n {
                    let mut v: Vec<&'static str> = sk.to_vec();
                    if idx >= 1 && idx < 1 + e {
                        apply_edit(&mut v, sk.len(), idx - 1);
                    } else if idx >= 1 + e {
                        let p = idx - 1 - e;
                        apply_edit(&mut v, sk.len(), p / e);
                        apply_edit(&mut v, sk.len(), p % e);
                    }
                    return v.concat().into_bytes();
                }
                idx -= n;
            }
            unreachable!()
        }
    }
}

// ---------------------------------------------------------------- one case

const FILE3: &[u8] = b"a\nb\nc\n";

pub struct CaseResult {
    pub parsed: bool,
    pub file_patches: usize,
    pub violation: Option<(String, String)>,
}

fn class_of_input(inp: &[u8]) -> String {
    // structural predicates on the input
    let s = String::from_utf8_lossy(inp);
    let big = s.lines().filter(|l| l.starts_with("@@")).any(|l| l.split(|c: char| !c.is_ascii_digit()).any(|n| n.len() >= 10));
    let trunc = !inp.ends_with(b"\n");
    format!("{}{}", if big { "hunk-header-with-huge-number" } else { "token-sequence" }, if trunc { "-truncated" } else { "" })
}

pub fn run_case(inp: &[u8]) -> CaseResult {
    LARGEST.store(0, Ordering::Relaxed);
    let base = CURRENT.load(Ordering::Relaxed);
    PEAK.store(base, Ordering::Relaxed);
    let bound = 64 * inp.len() + (1 << 20);
    let mut parsed_any = false;
    let mut nfp = 0;
    let mut violation = None;
    for &strip in &[0usize, 1, 5] {
        let r = std::panic::catch_unwind(|| {
            let p = match parse_patch(inp, strip, strip == 0) {
                Ok(p) => p,
                Err(e) => {
                    let _ = format!("{}", e); // rendering the diagnostic must not panic either
                    return (false, 0usize, None);
                }
            };
            let mut v: Option<String> = None;
            if strip == 0 {
                'outer: for fp in &p.file_patches {
                    for (fi, file) in [Some(&b""[..]), None, Some(FILE3)].iter().enumerate() {
                        for &fuzz in &[0usize, 2] {
                            for &dir in &[PatchDirection::Forward, PatchDirection::Revert] {
                                let r = std::panic::catch_unwind(std::panic::AssertUnwindSafe(|| {
                                    let mut mf = match file {
                                        Some(b) => ModifiedFile::new(b, true, None),
                                        None => ModifiedFile::new_non_existent(),
                                    };
                                    let rep = fp.apply(&mut mf, dir, fuzz, &AnalysisSet::default(), &fn_analysis_note_noop);
                                    fp.rollback(&mut mf, rep.direction(), &rep);
                                }));
                                if let Err(e) = r {
                                    let m = panic_message(e);
                                    v = Some(format!("panic-in-apply:{}:file{}", &m[..m.len().min(40)], fi));
                                    break 'outer;
                                }
                            }
                        }
                    }
                }
            }
            (true, p.file_patches.len(), v)
        });
        match r {
            Ok((ok, n, v)) => {
                if ok {
                    parsed_any = true;
                    nfp = nfp.max(n);
                }
                if let Some(v) = v {
                    violation = Some((class_of_input(inp), v));
                }
            }
            Err(e) => {
                let m = panic_message(e);
                violation = Some((class_of_input(inp), format!("panic-in-parser:{}", &m[..m.len().min(40)])));
            }
        }
        if violation.is_some() {
            break;
        }
    }
    if violation.is_none() {
        let largest = LARGEST.load(Ordering::Relaxed);
        let peak = PEAK.load(Ordering::Relaxed).saturating_sub(base);
        if largest > bound || peak > 4 * bound {
            violation = Some((class_of_input(inp), "allocation-out-of-proportion".into()));
        }
    }
    CaseResult { parsed: parsed_any, file_patches: nfp, violation }
}

fn case_json(sp: &str, idx: usize, inp: &[u8], observed: &str) -> J {
    J::obj(vec![("kind", J::s("lib-parse")), ("space", J::s(sp)), ("index", J::u(idx as u64)), ("input", J::bytes(inp)), ("expected", J::s("Ok or Err; no panic, abort, hang or oversized allocation")), ("observed", J::s(observed))])
}

// ---------------------------------------------------------------- shard (child)

const CHUNK: usize = 2048;

/// rqmc c11-shard <space> <start> <end> <progress-file> <skip,skip,...>
pub fn shard(args: &[String]) {
    COUNTING.store(true, Ordering::SeqCst);
    let spname = &args[0];
    let sp = space_of(spname);
    let start: usize = args[1].parse().unwrap();
    let end: usize = args[2].parse().unwrap();
    let pf = std::fs::OpenOptions::new().write(true).create(true).open(&args[3]).unwrap();
    let skip: Vec<usize> = args.get(4).map(|s| s.split(',').filter(|t| !t.is_empty()).map(|t| t.parse().unwrap()).collect()).unwrap_or_default();
    let stdout = std::io::stdout();
    let mut rep = Report::default();
    let mut i = start;
    while i < end {
        if !skip.contains(&i) {
            let _ = pf.write_all_at(&(i as u64).to_le_bytes(), 0);
            let inp = input_of(sp, i);
            let r = run_case(&inp);
            rep.evaluations += 1;
            if r.parsed {
                rep.count("parsed");
            } else {
                rep.count("rejected");
            }
            if r.file_patches > 0 {
                rep.nontrivial += 1;
                if rep.nontrivial % 50_000 == 11 {
                    rep.sample(|| case_json(spname, i, &inp, "ok"));
                }
            }
            if let Some((class, mode)) = r.violation {
                rep.violation(&class, &mode, || case_json(spname, i, &inp, &mode));
            }
        }
        i += 1;
        if (i - start) % CHUNK == 0 || i == end {
            let line = J::obj(vec![("upto", J::u(i as u64)), ("report", rep.to_json(vec![]))]).to_string();
            let mut o = stdout.lock();
            let _ = writeln!(o, "{}", line);
            let _ = o.flush();
            rep = Report::default();
        }
    }
}

// ---------------------------------------------------------------- parent

fn merge_json_report(total: &mut Report, line: &str) -> Option<usize> {
    // minimal extraction from our own JSON (numbers and the violation / sample arrays are re-parsed by python; here
    // we only need counts, so the child also prints them in a fixed "k=v" trailer) - see below
    let _ = (total, line);
    None
}

/// rqmc c11 <seq len> <with grid 0|1> <with edits 0|1>   (parent: spawns shards, attributes crashes)
pub fn run(args: &[String]) {
    let t0 = Instant::now();
    let l: usize = args.get(0).and_then(|s| s.parse().ok()).unwrap_or(3);
    let grid = args.get(1).map(|s| s == "1").unwrap_or(true);
    let edits = args.get(2).map(|s| s == "1").unwrap_or(true);
    let horizon = Duration::from_millis(std::env::var("RQMC_CASE_MS").ok().and_then(|s| s.parse().ok()).unwrap_or(2000));
    let max_restarts: usize = std::env::var("RQMC_MAX_RESTARTS").ok().and_then(|s| s.parse().ok()).unwrap_or(12);
    let mut spaces: Vec<(String, Space)> = vec![(format!("seq{}", l), Space::Seq(l)), (format!("seqb{}", l), Space::SeqB(l))];
    if grid {
        spaces.push(("grid".into(), Space::Grid));
    }
    if edits {
        spaces.push(("edits".into(), Space::Edits));
    }
    // work units
    let mut units: Vec<(String, Space, usize, usize)> = vec![];
    for (name, sp) in &spaces {
        let n = space_size(*sp);
        let per = ((n + 63) / 64).max(CHUNK);
        let mut s = 0;
        while s < n {
            units.push((name.clone(), *sp, s, (s + per).min(n)));
            s += per;
        }
    }
    let exe = std::env::current_exe().unwrap();
    let scratch = std::env::var("RQMC_SCRATCH").unwrap_or_else(|_| "/dev/shm".into());
    let _ = merge_json_report;
    // each unit is driven by one thread; child output lines are forwarded verbatim to our stdout (python merges them)
    let out_lock = std::sync::Mutex::new(());
    let rep = par_shards(units.len(), n_threads(), |ui, rep| {
        let (name, sp, start, end) = &units[ui];
        let pfile = format!("{}/rqmc-c11.{}.{}.progress", scratch, std::process::id(), ui);
        let mut from = *start;
        let mut skip: Vec<usize> = vec![];
        let mut restarts = 0;
        while from < *end {
            let _ = std::fs::write(&pfile, &(u64::MAX).to_le_bytes());
            let mut cmd = Command::new(&exe);
            cmd.arg("c11-shard").arg(name).arg(from.to_string()).arg(end.to_string()).arg(&pfile).arg(skip.iter().map(|s| s.to_string()).collect::<Vec<_>>().join(","));
            cmd.stdout(Stdio::piped()).stderr(Stdio::null()).stdin(Stdio::null());
            cmd.env_remove("RUST_BACKTRACE");
            unsafe {
                cmd.pre_exec(|| {
                    let lim = libc::rlimit { rlim_cur: 4 << 30, rlim_max: 4 << 30 };
                    libc::setrlimit(libc::RLIMIT_AS, &lim);
                    let nocore = libc::rlimit { rlim_cur: 0, rlim_max: 0 };
                    libc::setrlimit(libc::RLIMIT_CORE, &nocore);
                    Ok(())
                });
            }
            let mut child = cmd.spawn().expect("spawn shard");
            let stdout = child.stdout.take().unwrap();
            // reader thread: forward complete lines, remember the last checkpoint
            let (tx, rx) = std::sync::mpsc::channel::<String>();
            let rd = std::thread::spawn(move || {
                for line in BufReader::new(stdout).lines() {
                    if let Ok(l) = line {
                        let _ = tx.send(l);
                    }
                }
            });
            let mut last_idx = u64::MAX;
            let mut last_change = Instant::now();
            let mut hung = false;
            let mut checkpoint = from;
            let status = loop {
                while let Ok(l) = rx.try_recv() {
                    if let Some(p) = l.find("\"upto\":") {
                        let num: String = l[p + 7..].chars().take_while(|c| c.is_ascii_digit()).collect();
                        checkpoint = num.parse().unwrap_or(checkpoint);
                    }
                    let _g = out_lock.lock().unwrap();
                    println!("{}", l);
                }
                match child.try_wait() {
                    Ok(Some(st)) => break Some(st),
                    Ok(None) => {}
                    Err(_) => break None,
                }
                let mut buf = [0u8; 8];
                if let Ok(f) = std::fs::File::open(&pfile) {
                    let _ = f.read_at(&mut buf, 0);
                }
                let cur = u64::from_le_bytes(buf);
                if cur != last_idx {
                    last_idx = cur;
                    last_change = Instant::now();
                } else if last_change.elapsed() > horizon && cur != u64::MAX {
                    hung = true;
                    let _ = child.kill();
                    break child.wait().ok();
                }
                std::thread::sleep(Duration::from_millis(5));
            };
            let _ = rd.join();
            while let Ok(l) = rx.try_recv() {
                if let Some(p) = l.find("\"upto\":") {
                    let num: String = l[p + 7..].chars().take_while(|c| c.is_ascii_digit()).collect();
                    checkpoint = num.parse().unwrap_or(checkpoint);
                }
                let _g = out_lock.lock().unwrap();
                println!("{}", l);
            }
            let ok = status.map(|s| s.success()).unwrap_or(false) && !hung;
            if ok {
                break;
            }
            // abnormal end: attribute to the case in flight
            let mut buf = [0u8; 8];
            if let Ok(f) = std::fs::File::open(&pfile) {
                let _ = f.read_at(&mut buf, 0);
            }
            let cur = u64::from_le_bytes(buf);
            if cur == u64::MAX || (cur as usize) < from || (cur as usize) >= *end {
                rep.violation("harness", "shard-died-outside-a-case", || J::s(&format!("{} {}..{}", name, from, end)));
                break;
            }
            let idx = cur as usize;
            let inp = input_of(*sp, idx);
            let mode = if hung {
                "hang".to_string()
            } else {
                match status.and_then(|s| std::os::unix::process::ExitStatusExt::signal(&s)) {
                    Some(sig) => format!("killed-by-signal-{}", sig),
                    None => format!("exit-status-{}", status.and_then(|s| s.code()).unwrap_or(-1)),
                }
            };
            rep.evaluations += 1;
            rep.violation(&class_of_input(&inp), &mode, || case_json(name, idx, &inp, &mode));
            skip.push(idx);
            from = checkpoint;
            skip.retain(|s| *s >= from);
            restarts += 1;
            if restarts >= max_restarts {
                rep.capped = true;
                rep.add("cases-not-run-after-restart-cap", (*end - from) as u64);
                break;
            }
        }
        let _ = std::fs::remove_file(&pfile);
    });
    let sizes: Vec<J> = spaces.iter().map(|(n, sp)| J::obj(vec![("space", J::s(n)), ("cases", J::u(space_size(*sp) as u64))])).collect();
    let out = J::obj(vec![
        ("final", J::B(true)),
        ("report", rep.to_json(vec![])),
        ("spaces", J::A(sizes)),
        ("tokens", J::u(TOK.len() as u64)),
        ("tokens_b", J::u(TOKB.len() as u64)),
        ("wall_s", J::F(t0.elapsed().as_secs_f64())),
    ]);
    println!("{}", out.to_string());
}

/// rqmc c11-dump <space> <start> <end> <step> <outfile>: the inputs of a space as length-prefixed records
/// (u32 index, u32 length, bytes) - the CLI-level sweep feeds the same inputs to the real binary
pub fn dump(args: &[String]) {
    let sp = space_of(&args[0]);
    let n = space_size(sp);
    let start: usize = args[1].parse().unwrap();
    let end: usize = args[2].parse::<usize>().unwrap().min(n);
    let step: usize = args[3].parse().unwrap();
    let mut out = std::io::BufWriter::new(std::fs::File::create(&args[4]).unwrap());
    let mut i = start;
    while i < end {
        let inp = input_of(sp, i);
        out.write_all(&(i as u32).to_le_bytes()).unwrap();
        out.write_all(&(inp.len() as u32).to_le_bytes()).unwrap();
        out.write_all(&inp).unwrap();
        i += step;
    }
    println!("{}", n);
}

/// rqmc parse1 <file>: replay helper - parse (strip 0) and apply like one C11 case, print the verdict
pub fn parse1(args: &[String]) {
    COUNTING.store(true, Ordering::SeqCst);
    let inp = std::fs::read(&args[0]).unwrap();
    let r = run_case(&inp);
    println!("parsed={} file_patches={} violation={:?}", r.parsed, r.file_patches, r.violation);
}
