/* LD_PRELOAD interposer for the unmodified rapidquilt binary (DESIGN.md 4.5).
 *
 *  monitor: every file-system call that creates, modifies or removes something is appended to $RQ_LOG as
 *           "<n> <op> <path>" (n = running number of mutating calls); opens for reading and directory
 *           listings are logged as "- openr <path>" / "- opendir <path>" (not numbered).
 *  faults:  the RQ_FAIL_AT-th mutating call returns -1 with errno RQ_FAIL_ERRNO (default EIO) without being
 *           executed; the RQ_SHORT_AT-th mutating call, if it is a write of more than one byte, writes only
 *           half of it (a legal short write). The RQ_FAIL_READDIR-th reading of a directory entry fails the same way
 *           (those calls are logged as "- readdir <path>", not numbered among the mutating ones).
 */
#define _GNU_SOURCE
#include <dlfcn.h>
#include <dirent.h>
#include <errno.h>
#include <fcntl.h>
#include <stdarg.h>
#include <stdio.h>
#include <stdlib.h>
#include <string.h>
#include <sys/stat.h>
#include <sys/types.h>
#include <sys/uio.h>
#include <unistd.h>

static int logfd = -1, fail_at = -1, fail_errno = EIO, short_at = -1, inited = 0;
static int counter = 0;
static int fail_readdir = -1, readdir_counter = 0;

static void init(void) {
    if (inited) return;
    inited = 1;
    const char *p = getenv("RQ_LOG");
    if (p) {
        int (*ro)(const char *, int, ...) = dlsym(RTLD_NEXT, "open64");
        logfd = ro(p, O_WRONLY | O_CREAT | O_APPEND | O_CLOEXEC, 0644);
    }
    const char *f;
    if ((f = getenv("RQ_FAIL_AT"))) fail_at = atoi(f);
    if ((f = getenv("RQ_FAIL_ERRNO"))) fail_errno = atoi(f);
    if ((f = getenv("RQ_SHORT_AT"))) short_at = atoi(f);
    if ((f = getenv("RQ_FAIL_READDIR"))) fail_readdir = atoi(f);
}

static void emit(int n, const char *op, const char *path, int fault) {
    if (logfd < 0) return;
    char b[4400];
    int len;
    if (n > 0) len = snprintf(b, sizeof b, "%d %s %s%s\n", n, op, path ? path : "?", fault ? " FAULT" : "");
    else len = snprintf(b, sizeof b, "- %s %s\n", op, path ? path : "?");
    ssize_t (*rw)(int, const void *, size_t) = dlsym(RTLD_NEXT, "write");
    if (len > 0) rw(logfd, b, len > (int)sizeof b ? (int)sizeof b : len);
}

/* a mutating call: number it, log it, tell whether it must fail */
static int hit(const char *op, const char *path, int *num) {
    init();
    int c = __sync_add_and_fetch(&counter, 1);
    if (num) *num = c;
    emit(c, op, path, c == fail_at);
    return c == fail_at;
}
static void note(const char *op, const char *path) { init(); emit(0, op, path, 0); }

static const char *fdpath(int fd, char *buf, size_t n) {
    char l[64];
    snprintf(l, sizeof l, "/proc/self/fd/%d", fd);
    ssize_t k = readlink(l, buf, n - 1);
    buf[k > 0 ? k : 0] = 0;
    return buf;
}
static const char *atpath(int dirfd, const char *path, char *buf, size_t n) {
    if (!path) return "?";
    if (path[0] == '/' || dirfd == AT_FDCWD) return path;
    char d[4096];
    fdpath(dirfd, d, sizeof d);
    snprintf(buf, n, "%s/%s", d, path);
    return buf;
}

#define FAIL_IF(x) do { if (x) { errno = fail_errno; return -1; } } while (0)
#define WRITING(flags) ((flags) & (O_WRONLY | O_RDWR | O_CREAT | O_TRUNC | O_APPEND))

#define OPEN_BODY(NAME) \
    mode_t m = 0; \
    if (flags & (O_CREAT | O_TMPFILE)) { va_list a; va_start(a, flags); m = va_arg(a, mode_t); va_end(a); } \
    int (*r)(const char *, int, ...) = dlsym(RTLD_NEXT, NAME); \
    if (WRITING(flags)) FAIL_IF(hit("openw", path, 0)); else note((flags & O_DIRECTORY) ? "opendir" : "openr", path); \
    return r(path, flags, m);
int open(const char *path, int flags, ...) { OPEN_BODY("open") }
int open64(const char *path, int flags, ...) { OPEN_BODY("open64") }

#define OPENAT_BODY(NAME) \
    mode_t m = 0; char b[8300]; \
    if (flags & (O_CREAT | O_TMPFILE)) { va_list a; va_start(a, flags); m = va_arg(a, mode_t); va_end(a); } \
    int (*r)(int, const char *, int, ...) = dlsym(RTLD_NEXT, NAME); \
    const char *p = atpath(dirfd, path, b, sizeof b); \
    if (WRITING(flags)) FAIL_IF(hit("openw", p, 0)); else note((flags & O_DIRECTORY) ? "opendir" : "openr", p); \
    return r(dirfd, path, flags, m);
int openat(int dirfd, const char *path, int flags, ...) { OPENAT_BODY("openat") }
int openat64(int dirfd, const char *path, int flags, ...) { OPENAT_BODY("openat64") }

int creat(const char *path, mode_t m) { int (*r)(const char *, mode_t) = dlsym(RTLD_NEXT, "creat"); FAIL_IF(hit("openw", path, 0)); return r(path, m); }
int creat64(const char *path, mode_t m) { int (*r)(const char *, mode_t) = dlsym(RTLD_NEXT, "creat64"); FAIL_IF(hit("openw", path, 0)); return r(path, m); }

DIR *opendir(const char *path) { DIR *(*r)(const char *) = dlsym(RTLD_NEXT, "opendir"); note("opendir", path); return r(path); }

ssize_t write(int fd, const void *buf, size_t n) {
    ssize_t (*r)(int, const void *, size_t) = dlsym(RTLD_NEXT, "write");
    init();
    if (fd > 2 && fd != logfd) {
        char t[4096]; int num;
        FAIL_IF(hit("write", fdpath(fd, t, sizeof t), &num));
        if (num == short_at && n > 1) return r(fd, buf, n / 2);
    }
    return r(fd, buf, n);
}
ssize_t writev(int fd, const struct iovec *iov, int cnt) {
    ssize_t (*r)(int, const struct iovec *, int) = dlsym(RTLD_NEXT, "writev");
    init();
    if (fd > 2 && fd != logfd) { char t[4096]; FAIL_IF(hit("write", fdpath(fd, t, sizeof t), 0)); }
    return r(fd, iov, cnt);
}
ssize_t pwrite(int fd, const void *buf, size_t n, off_t off) {
    ssize_t (*r)(int, const void *, size_t, off_t) = dlsym(RTLD_NEXT, "pwrite");
    init();
    if (fd > 2 && fd != logfd) { char t[4096]; FAIL_IF(hit("write", fdpath(fd, t, sizeof t), 0)); }
    return r(fd, buf, n, off);
}
ssize_t pwrite64(int fd, const void *buf, size_t n, off64_t off) {
    ssize_t (*r)(int, const void *, size_t, off64_t) = dlsym(RTLD_NEXT, "pwrite64");
    init();
    if (fd > 2 && fd != logfd) { char t[4096]; FAIL_IF(hit("write", fdpath(fd, t, sizeof t), 0)); }
    return r(fd, buf, n, off);
}

int unlink(const char *p) { int (*r)(const char *) = dlsym(RTLD_NEXT, "unlink"); FAIL_IF(hit("unlink", p, 0)); return r(p); }
int unlinkat(int d, const char *p, int f) { int (*r)(int, const char *, int) = dlsym(RTLD_NEXT, "unlinkat"); char b[8300]; FAIL_IF(hit((f & AT_REMOVEDIR) ? "rmdir" : "unlink", atpath(d, p, b, sizeof b), 0)); return r(d, p, f); }
int mkdir(const char *p, mode_t m) { int (*r)(const char *, mode_t) = dlsym(RTLD_NEXT, "mkdir"); FAIL_IF(hit("mkdir", p, 0)); return r(p, m); }
int mkdirat(int d, const char *p, mode_t m) { int (*r)(int, const char *, mode_t) = dlsym(RTLD_NEXT, "mkdirat"); char b[8300]; FAIL_IF(hit("mkdir", atpath(d, p, b, sizeof b), 0)); return r(d, p, m); }
int rmdir(const char *p) { int (*r)(const char *) = dlsym(RTLD_NEXT, "rmdir"); FAIL_IF(hit("rmdir", p, 0)); return r(p); }
int fchmod(int fd, mode_t m) { int (*r)(int, mode_t) = dlsym(RTLD_NEXT, "fchmod"); char t[4096]; FAIL_IF(hit("fchmod", fdpath(fd, t, sizeof t), 0)); return r(fd, m); }
int chmod(const char *p, mode_t m) { int (*r)(const char *, mode_t) = dlsym(RTLD_NEXT, "chmod"); FAIL_IF(hit("chmod", p, 0)); return r(p, m); }
int fchmodat(int d, const char *p, mode_t m, int f) { int (*r)(int, const char *, mode_t, int) = dlsym(RTLD_NEXT, "fchmodat"); char b[8300]; FAIL_IF(hit("chmod", atpath(d, p, b, sizeof b), 0)); return r(d, p, m, f); }
int rename(const char *a, const char *b) { int (*r)(const char *, const char *) = dlsym(RTLD_NEXT, "rename"); char t[8300]; snprintf(t, sizeof t, "%s -> %s", a, b); FAIL_IF(hit("rename", t, 0)); return r(a, b); }
int renameat(int da, const char *a, int db, const char *b) { int (*r)(int, const char *, int, const char *) = dlsym(RTLD_NEXT, "renameat"); char t[8300]; snprintf(t, sizeof t, "%s -> %s", a, b); FAIL_IF(hit("rename", t, 0)); return r(da, a, db, b); }
int renameat2(int da, const char *a, int db, const char *b, unsigned f) { int (*r)(int, const char *, int, const char *, unsigned) = dlsym(RTLD_NEXT, "renameat2"); char t[8300]; snprintf(t, sizeof t, "%s -> %s", a, b); FAIL_IF(hit("rename", t, 0)); return r(da, a, db, b, f); }
int truncate(const char *p, off_t l) { int (*r)(const char *, off_t) = dlsym(RTLD_NEXT, "truncate"); FAIL_IF(hit("truncate", p, 0)); return r(p, l); }
int truncate64(const char *p, off64_t l) { int (*r)(const char *, off64_t) = dlsym(RTLD_NEXT, "truncate64"); FAIL_IF(hit("truncate", p, 0)); return r(p, l); }
int ftruncate(int fd, off_t l) { int (*r)(int, off_t) = dlsym(RTLD_NEXT, "ftruncate"); char t[4096]; FAIL_IF(hit("truncate", fdpath(fd, t, sizeof t), 0)); return r(fd, l); }
int ftruncate64(int fd, off64_t l) { int (*r)(int, off64_t) = dlsym(RTLD_NEXT, "ftruncate64"); char t[4096]; FAIL_IF(hit("truncate", fdpath(fd, t, sizeof t), 0)); return r(fd, l); }
int link(const char *a, const char *b) { int (*r)(const char *, const char *) = dlsym(RTLD_NEXT, "link"); FAIL_IF(hit("link", b, 0)); return r(a, b); }
int linkat(int da, const char *a, int db, const char *b, int f) { int (*r)(int, const char *, int, const char *, int) = dlsym(RTLD_NEXT, "linkat"); FAIL_IF(hit("link", b, 0)); return r(da, a, db, b, f); }
int symlink(const char *a, const char *b) { int (*r)(const char *, const char *) = dlsym(RTLD_NEXT, "symlink"); FAIL_IF(hit("symlink", b, 0)); return r(a, b); }
int symlinkat(const char *a, int d, const char *b) { int (*r)(const char *, int, const char *) = dlsym(RTLD_NEXT, "symlinkat"); FAIL_IF(hit("symlink", b, 0)); return r(a, d, b); }
int utimensat(int d, const char *p, const struct timespec t[2], int f) { int (*r)(int, const char *, const struct timespec *, int) = dlsym(RTLD_NEXT, "utimensat"); char b[8300]; FAIL_IF(hit("utimes", atpath(d, p, b, sizeof b), 0)); return r(d, p, t, f); }

/* reading a directory: not a mutating call, but one whose failure must not pass for "the directory is not empty" */
#define READDIR_BODY(NAME, TYPE) \
    TYPE *(*r)(DIR *) = dlsym(RTLD_NEXT, NAME); \
    init(); \
    char t[4096]; \
    int c = __sync_add_and_fetch(&readdir_counter, 1); \
    if (logfd >= 0) { \
        char b[4400]; \
        int len = snprintf(b, sizeof b, "- readdir %s%s\n", fdpath(dirfd(d), t, sizeof t), c == fail_readdir ? " FAULT" : ""); \
        ssize_t (*rw)(int, const void *, size_t) = dlsym(RTLD_NEXT, "write"); \
        if (len > 0) rw(logfd, b, len); \
    } \
    if (c == fail_readdir) { errno = fail_errno; return NULL; } \
    return r(d);
struct dirent *readdir(DIR *d) { READDIR_BODY("readdir", struct dirent) }
struct dirent64 *readdir64(DIR *d) { READDIR_BODY("readdir64", struct dirent64) }
