"""C01 at CLI level: the reference differ's (A, B, hunks) cases under a menu of header dialects, strip
levels and both directions, pushed by the real binary. The expected tree is B itself (A for -R)."""
import os
import struct
import subprocess

import common
import ws
import wsweep

KF01 = 'single-context-free-hunk-at-line-0-with-empty-side-file-stays-nonempty'


def read_cases(alphabet, maxlen):
    f = os.path.join(wsweep.wdir('dump'), 'c01.bin')
    subprocess.run([common.RQMC, 'c01-dump', alphabet, str(maxlen), f], stdout=subprocess.PIPE, check=True)
    data = open(f, 'rb').read()
    os.unlink(f)
    out, seen, i = [], set(), 0
    while i < len(data):
        a_abs, b_abs, nh, zero, top, c = data[i:i + 6]
        i += 6
        fields = []
        for _ in range(3):
            (n,) = struct.unpack_from('<I', data, i)
            fields.append(data[i + 4:i + 4 + n])
            i += 4 + n
        key = (a_abs, b_abs, fields[0], fields[1], fields[2])
        if key in seen:
            continue
        seen.add(key)
        out.append({'a_abs': bool(a_abs), 'b_abs': bool(b_abs), 'nh': nh, 'zero': bool(zero), 'top': bool(top), 'c': c, 'A': fields[0], 'B': fields[1], 'hunks': fields[2]})
    return out


def q_c(name):
    """C-style quoted spelling with an octal escape for the last character"""
    b = name.encode()
    return b'"' + b[:-1].replace(b'\\', b'\\\\').replace(b'"', b'\\"') + (b'\\%03o' % b[-1]) + b'"'


# (label, path, strip, applicability) - see build()
KF05 = 'deletion-expressed-only-by-an-epoch-time-stamp'
DIALECTS = ['plain', 'both-names', 'timestamps', 'diff-N', 'diff-N-east', 'diff-N-west', 'diff-N-orig', 'git', 'git-mode', 'orig', 'quoted', 'quoted-space', 'git-space', 'plus-first', 'prose', 'p0', 'p2', 'deep', 'git-rename']


def build(dialect, case, rev):
    """-> (files, patch text, series line, expected files) or None when the dialect cannot express the case"""
    A, B, a_abs, b_abs = case['A'], case['B'], case['a_abs'], case['b_abs']
    path, path2, strip = 'f', None, 1
    mode_a = mode_b = 0o644
    if dialect in ('quoted-space', 'git-space'):
        path = 'sp ace/f le'
    elif dialect == 'deep':
        path = 'd/e/f'
    elif dialect == 'p0':
        strip = 0
    elif dialect == 'p2':
        strip = 2
    pre = {0: ('', ''), 1: ('a/', 'b/'), 2: ('x/a/', 'x/b/')}[strip]
    both_exist = not a_abs and not b_abs
    if dialect in ('git-mode', 'orig', 'git-rename') and not both_exist:
        return None
    if dialect == 'diff-N-orig' and both_exist:
        return None   # (that is dialect 'orig' with time stamps; here: .orig-style names AND an absent side marked by the epoch)
    if dialect == 'both-names' and (a_abs if rev else b_abs):
        return None   # a diff with two real names cannot express a deletion (the file is emptied instead)
    if dialect == 'git-rename':
        path2 = 'g'
    if dialect == 'git-mode':
        mode_b = 0o755
    oname = (pre[0] + path).encode()
    nname = (pre[1] + (path2 or path)).encode()
    if dialect in ('orig', 'diff-N-orig'):
        oname = (pre[0] + path + '.orig').encode()
    spell_o, spell_n = oname, nname
    if dialect in ('quoted', 'quoted-space'):
        spell_o, spell_n = q_c(oname.decode()), q_c(nname.decode())
    ts = b''
    if dialect in ('timestamps', 'diff-N', 'diff-N-east', 'diff-N-west', 'diff-N-orig'):
        ts = b'\t2020-01-02 03:04:05.000000000 +0000'
    # 'diff-N': what `diff -urN` writes - real names on both sides, the absent side marked by the epoch as its time stamp only
    # (-east/-west: the same instant as local time in another zone, without the fraction)
    real_names = dialect in ('both-names', 'diff-N', 'diff-N-east', 'diff-N-west', 'diff-N-orig')
    epoch = {'diff-N-east': b'\t1970-01-01 05:30:00 +0530', 'diff-N-west': b'\t1969-12-31 19:00:00.000000000 -0500'}.get(dialect, b'\t1970-01-01 00:00:00.000000000 +0000')
    old_line = b'--- ' + (b'/dev/null' if (a_abs and not real_names) else spell_o) + (epoch if (ts and a_abs) else ts) + b'\n'
    new_line = b'+++ ' + (b'/dev/null' if (b_abs and not real_names) else spell_n) + (epoch if (ts and b_abs) else ts) + b'\n'
    head = b''
    if dialect == 'git-space':
        # the way git writes a name with blanks: unquoted, a tab behind it on the ---/+++ lines
        ts = b'\t'
        old_line = b'--- ' + (b'/dev/null' if a_abs else oname + ts) + b'\n'
        new_line = b'+++ ' + (b'/dev/null' if b_abs else nname + ts) + b'\n'
    if dialect in ('git', 'git-mode', 'git-rename', 'git-space'):
        head += b'diff --git ' + oname + b' ' + nname + b'\n'
        if dialect == 'git-rename':
            head += b'similarity index 90%\nrename from ' + path.encode() + b'\nrename to ' + path2.encode() + b'\n'
        if dialect == 'git-mode':
            head += b'old mode 100644\nnew mode 100755\n'
        if a_abs:
            head += b'new file mode 100644\n'
        if b_abs:
            head += b'deleted file mode 100644\n'
        head += b'index 1a2b3c4..5d6e7f8' + (b' 100644' if (both_exist and dialect == 'git') else b'') + b'\n'
    if dialect == 'prose':
        head += b'From: someone\nSubject: change\n\nIndex: f\n===================================================================\n'
    text = head + (new_line + old_line if dialect == 'plus-first' else old_line + new_line) + case['hunks']
    if dialect == 'prose':
        text += b'-- \n2.39.5\n'
    start, want = {}, {}
    fa, fb = path, (path2 or path)
    if not rev:
        if not a_abs:
            start[fa] = (A, mode_a)
        if not b_abs:
            want[fb] = (B, mode_b)
    else:
        if not b_abs:
            start[fb] = (B, mode_b)
        if not a_abs:
            want[fa] = (A, mode_a)
    start['keep'] = (b'k\n', 0o644)
    want['keep'] = (b'k\n', 0o644)
    line = 'p1.patch' + ('' if strip == 1 else ' -p%d' % strip) + (' -R' if rev else '')
    return start, text, line, want


def case_run(task):
    dialect, case, rev, threads = task
    b = build(dialect, case, rev)
    if b is None:
        return {'evals': 0}
    start, text, line, want = b
    d = wsweep.wdir()
    root = os.path.join(d, 'ws')
    ws.make_ws(root, start, {'p1.patch': text}, [line])
    o = ws.run_rq(root, ['-a', '-q', '--backup', 'never'], threads=threads, trace=os.path.join(d, 'trace'))
    snap = ws.snapshot(root)
    got = ws.tree_of(snap)
    nontrivial = case['nh'] > 1 or case['zero'] or case['a_abs'] or case['b_abs'] or dialect != 'plain' or rev
    out = {'evals': 1, 'violations': [], 'outcomes': {dialect + ':exit-' + o.cls: 1}, 'nontrivial': 1 if nontrivial else 0}
    if o.cls == '0' and got == want and not ws.rejects_of(snap):
        return out
    tags = {'dialect:' + dialect, 'ctx%d' % case['c']}
    if rev:
        tags.add('-R')
    src = case['B'] if rev else case['A']
    dst = case['A'] if rev else case['B']
    if case['nh'] == 1 and case['c'] == 0 and case['zero'] and case['top'] and src and dst and not case['a_abs'] and not case['b_abs']:
        tags = {KF01}
    if dialect.startswith('diff-N') and (case['a_abs'] if rev else case['b_abs']):
        tags = tags | {KF05}   # (the class of the former KF-05, repaired)
    mode = o.cls if o.cls not in ('0', '1') else ('not-applied' if o.cls == '1' else 'wrong-tree')
    out['violations'].append((wsweep.cls(tags), mode, {'kind': 'cli', 'files': {k: [common.b2s(v[0]), v[1]] for k, v in start.items()}, 'patches': {'p1.patch': common.b2s(text)}, 'series': [line],
                                                       'args': ['-a', '-q', '--backup', 'never'], 'threads': threads, 'series_desc': 'dialect %s%s' % (dialect, ' -R' if rev else ''),
                                                       'expected': {k: [common.b2s(v[0]), oct(v[1])] for k, v in want.items()}, 'observed': {'exit': o.cls, 'tree': {k: [common.b2s(v[0]), oct(v[1])] for k, v in got.items()},
                                                                                                                                'rejects': sorted(ws.rejects_of(snap))}, 'stderr': common.b2s(o.err[-300:])}))
    return out


def hunkless_cases():
    """absent <-> empty: expressible only by a hunk-less git entry"""
    return [{'a_abs': True, 'b_abs': False, 'nh': 0, 'zero': False, 'top': False, 'c': 0, 'A': b'', 'B': b'', 'hunks': b''},
            {'a_abs': False, 'b_abs': True, 'nh': 0, 'zero': False, 'top': False, 'c': 0, 'A': b'', 'B': b'', 'hunks': b''}]


def hunkless_run(task):
    case, rev, threads = task
    d = wsweep.wdir()
    root = os.path.join(d, 'ws')
    head = b'diff --git a/f b/f\n' + (b'new file mode 100644\nindex 0000000..e69de29\n' if case['a_abs'] else b'deleted file mode 100644\nindex e69de29..0000000\n')
    present_before = (not case['a_abs']) if not rev else (not case['b_abs'])
    present_after = (not case['b_abs']) if not rev else (not case['a_abs'])
    start = {'keep': (b'k\n', 0o644)}
    want = dict(start)
    if present_before:
        start['f'] = (b'', 0o644)
    if present_after:
        want['f'] = (b'', 0o644)
    line = 'p1.patch' + (' -R' if rev else '')
    ws.make_ws(root, start, {'p1.patch': head}, [line])
    o = ws.run_rq(root, ['-a', '-q', '--backup', 'never'], threads=threads, trace=os.path.join(d, 'trace'))
    got = ws.tree_of(ws.snapshot(root))
    out = {'evals': 1, 'violations': [], 'outcomes': {'hunkless:exit-' + o.cls: 1}, 'nontrivial': 1}
    if o.cls != '0' or got != want:
        mode = o.cls if o.cls not in ('0', '1') else ('not-applied' if o.cls == '1' else 'wrong-tree')
        out['violations'].append(('hunkless-git-new-or-deleted-empty-file', mode, {'kind': 'cli', 'files': {k: [common.b2s(v[0]), v[1]] for k, v in start.items()}, 'patches': {'p1.patch': common.b2s(head)}, 'series': [line],
                                                                                  'args': ['-a', '-q', '--backup', 'never'], 'threads': threads, 'expected': sorted(want), 'observed': {'exit': o.cls, 'tree': sorted(got)}}))
    return out


def run_c01(tier, seed, res):
    if tier == 'quick':
        cases = read_cases('2', 2)
        nasty = read_cases('n', 1)
        nasty_dialects = ['plain', 'git', 'quoted']
    else:
        cases = read_cases('2', 4)
        nasty = read_cases('n', 2)
        nasty_dialects = ['plain', 'git', 'quoted', 'p0', 'timestamps']
    tasks = []
    for ci, c in enumerate(cases):
        for di, dl in enumerate(DIALECTS):
            for rev in (False, True):
                tasks.append((dl, c, rev, 1 + (ci + di) % 2))
    for ci, c in enumerate(nasty):
        for dl in nasty_dialects:
            for rev in (False, True):
                tasks.append((dl, c, rev, 1 + ci % 2))
    acc = wsweep.Acc(res)
    for i, r in enumerate(wsweep.pmap(case_run, tasks)):
        if i % 2999 == 0 and r.get('evals'):
            r = dict(r)
            t = tasks[i]
            b = build(t[0], t[1], t[2])
            r['sample'] = {'dialect': t[0], 'reverse': t[2], 'threads': t[3], 'patch': common.b2s(b[1]), 'series_line': b[2]}
        acc.add(r)
    acc.finish('cli_dialect_sweep')
    acc2 = wsweep.Acc(res)
    for r in wsweep.pmap(hunkless_run, [(c, rev, t) for c in hunkless_cases() for rev in (False, True) for t in (1, 2)]):
        acc2.add(r)
    acc2.finish('cli_hunkless_entries')
    res.coverage['cli_cases'] = {'sigma2': len(cases), 'nasty': len(nasty), 'dialects': DIALECTS, 'nasty_dialects': nasty_dialects}
    res.coverage['cli_rule'] = ('every distinct (A, B, hunk text) of the reference differ for edit scripts up to the CLI bound (context 0/1/3, absent sides, missing final newlines) x header dialect (%s) x direction '
                               '(forward on a tree holding A; the same patch with -R on a tree holding B), threads alternating 1/2, real binary; plus the hunk-less git entries for absent <-> empty. '
                               'Oracle: exit 0, no rejects, tree (bytes, modes, names) exactly B (A for -R).') % ', '.join(DIALECTS)
