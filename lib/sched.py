"""Schedule explorer (DESIGN.md 4.4): stateless model checking of the real `rapidquilt push --threads N`.

With the cfg hooks every worker parks at each scheduling point; a schedule script (list of worker ids for the
first decisions, then "keep running the current worker, else lowest id") determines the run. The explorer is
the deviation-bounded DFS of CHESS: run a prefix, read the recorded decisions, and for every later decision and
every enabled alternative whose preemption cost stays within the bound, recurse."""
import hashlib
import os

import common
import toyquilt as tq
import ws
import wsweep


def outcome_of(o, snap):
    return (o.cls, tuple(sorted(ws.tree_of(snap).items())), tuple(sorted(ws.pc_of(snap).items())), tuple(sorted(ws.rejects_of(snap).items())), tuple(ws.dirs_of(snap)))


def okey(out):
    return hashlib.sha1(repr(out).encode()).hexdigest()[:12]


def describe_diff(ref, got):
    d = []
    if ref[0] != got[0]:
        d.append('exit %s vs %s' % (ref[0], got[0]))
    for name, i in (('tree', 1), ('.pc', 2), ('rejects', 3)):
        a, b = dict(ref[i]), dict(got[i])
        diff = sorted(p for p in set(a) | set(b) if a.get(p) != b.get(p))
        if diff:
            d.append('%s differs at %s' % (name, diff[:4]))
    if ref[4] != got[4] and not d:
        d.append('directories %s vs %s' % (list(ref[4]), list(got[4])))
    return '; '.join(d)


def run_schedule(m0, series, cfg, threads, script, root, trace):
    files, patches, lines = tq.workspace_of(m0, series)
    ws.make_ws(root, files, patches, lines)
    o = ws.run_rq(root, wsweep.cfg_args(cfg), threads=threads, sched=script, trace=trace)
    snap = ws.snapshot(root)
    return o, snap


def loads_by_two_workers(events):
    """file names loaded or written by more than one worker during one run (C07's consequence)"""
    owner, bad = {}, set()
    for kind, w, ev in events:
        if w is None:
            continue
        if kind == 'T' and ev.startswith('load:'):
            name = ev[5:]
        elif kind == 'E' and (ev.startswith('remove_file:') or ev.startswith('create:')):
            name = ev.split(':', 1)[1]
        else:
            continue
        name = os.path.normpath(name)   # the file, however the name is spelled (./f and f are one file)
        if owner.setdefault(name, w) != w:
            bad.add(name)
    return sorted(bad)


def explore(m0, series, cfg, threads, bound, max_schedules=20000, recheck_every=25):
    """All schedules of one workload with at most `bound` preemptions.
    Returns dict(schedules, traces, outcomes, violations[(mode, witness)], max_decisions, capped, workers)."""
    d = wsweep.wdir('s')
    root, trace = os.path.join(d, 'ws'), os.path.join(d, 'trace')
    # reference: the single-threaded run on a fresh copy
    files, patches, lines = tq.workspace_of(m0, series)
    ws.make_ws(root, files, patches, lines)
    o1 = ws.run_rq(root, wsweep.cfg_args(cfg), threads=1)
    ref = outcome_of(o1, ws.snapshot(root))
    res = {'schedules': 0, 'traces': set(), 'outcomes': {}, 'violations': [], 'max_decisions': 0, 'capped': False, 'workers': 0, 'machinery': [],
           'ran_ahead': 0, 'preempted': 0}
    # schedules are run in the order of their number of preemptions (iterative context bounding): when the budget of runs
    # is used up, every schedule with fewer preemptions than the next one in the queue has been run
    import heapq
    heap = [(0, 0, ())]
    tick = 0
    seen_prefix = set()
    res['bound_completed'] = bound
    while heap:
        cost, _, prefix = heapq.heappop(heap)
        if prefix in seen_prefix:
            continue
        seen_prefix.add(prefix)
        if res['schedules'] >= max_schedules:
            res['capped'] = True
            res['bound_completed'] = cost - 1
            break
        o, snap = run_schedule(m0, series, cfg, threads, list(prefix), root, trace)
        res['schedules'] += 1
        dec = o.decisions
        if o.cls.startswith('machinery'):  # exit 3: the schedule script named a worker that was not enabled
            res['machinery'].append('scheduler refused/stalled on %r: %s' % (list(prefix), o.err[-200:]))
            continue
        chosen = tuple(x[2] for x in dec)
        if chosen[:len(prefix)] != tuple(prefix):
            res['machinery'].append('prefix %r not obeyed (got %r)' % (list(prefix), list(chosen[:len(prefix)])))
            continue
        res['max_decisions'] = max(res['max_decisions'], len(dec))
        res['workers'] = max(res['workers'], len({w for en, _, _, _, _ in dec for w in en}))
        tkey = hashlib.sha1(repr([(x[2], x[4]) for x in dec]).encode()).hexdigest()[:12]
        res['traces'].add(tkey)
        out = outcome_of(o, snap)
        k = okey(out)
        res['outcomes'][k] = res['outcomes'].get(k, 0) + 1
        if cost > 0:
            res['preempted'] += 1
        # did a worker run ahead of the patch that failed (it then has to undo what it applied)?
        fm = [(i, int(x[4].split(':')[1])) for i, x in enumerate(dec) if x[4].startswith('fetch_min:')]
        if fm:
            kmin = min(k for _, k in fm)
            first = min(i for i, k in fm if k == kmin)
            if any(x[4].startswith('load:') and int(x[4].split(':')[1]) > kmin for x in dec[:first]):
                res['ran_ahead'] += 1
        # determinism: replay some schedules (and every deviating one) and demand identical observations
        deviates = out != ref
        if deviates or res['schedules'] % recheck_every == 1:
            o2, snap2 = run_schedule(m0, series, cfg, threads, list(chosen), root, trace)
            if outcome_of(o2, snap2) != out or tuple(x[2] for x in o2.decisions) != chosen:
                res['machinery'].append('nondeterministic replay of schedule %r' % (list(chosen),))
                continue
        both = loads_by_two_workers(o.events)
        wit = lambda extra: wsweep.witness(m0, series, dict(cfg, threads=threads), dict({'schedule': list(chosen), 'threads': threads, 'preemptions': cost}, **extra))
        if both:
            res['violations'].append(('file-handled-by-two-workers', wit({'observed': both})))
        if deviates:
            mode = 'differs-from-single-threaded'
            if out[0] != ref[0]:
                mode = 'exit-status:%s-vs-%s' % (out[0], ref[0]) if out[0] in ('0', '1') else out[0]
            res['violations'].append((mode, wit({'expected': 'outcome of --threads 1', 'observed': describe_diff(ref, out), 'stderr': common.b2s(o.err[-300:]),
                                                'trace': ['%s:%s' % (x[2], x[4]) for x in dec]})))
        # children: alternatives at every decision behind the prefix
        pre = 0
        for i, (en, cur, ch, ph, ev) in enumerate(dec):
            if i >= len(prefix):
                for alt in en:
                    if alt == ch:
                        continue
                    c = pre + (1 if (cur is not None and cur in en and alt != cur) else 0)
                    if c <= bound:
                        tick += 1
                        heapq.heappush(heap, (c, tick, chosen[:i] + (alt,)))
            if cur is not None and cur in en and ch != cur:
                pre += 1
    res['traces'] = len(res['traces'])
    return res
