"""File-system monitor / fault injection through the LD_PRELOAD shim (DESIGN.md 4.5)."""
import os

import common


def env(log, fail_at=None, errno_=None, short_at=None, readdir_at=None):
    e = {'LD_PRELOAD': common.SHIM, 'RQ_LOG': log}
    if fail_at is not None:
        e['RQ_FAIL_AT'] = str(fail_at)
    if errno_ is not None:
        e['RQ_FAIL_ERRNO'] = str(errno_)
    if short_at is not None:
        e['RQ_SHORT_AT'] = str(short_at)
    if readdir_at is not None:
        e['RQ_FAIL_READDIR'] = str(readdir_at)
    return e


def read_log(path, cwd=None):
    """[(n or None, op, absolute path, fault?)]"""
    out = []
    if not os.path.exists(path):
        return out
    with open(path, 'rb') as f:
        for line in f.read().decode(errors='replace').splitlines():
            parts = line.split(' ', 2)
            if len(parts) < 3:
                continue
            n = None if parts[0] == '-' else int(parts[0])
            p = parts[2]
            fault = p.endswith(' FAULT')
            if fault:
                p = p[:-6]
            if cwd and not p.startswith('/') and ' -> ' not in p:
                p = os.path.normpath(os.path.join(cwd, p)) if p else cwd
            out.append((n, parts[1], p, fault))
    return out


def mutating(log):
    return [e for e in log if e[0] is not None]
