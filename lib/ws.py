"""Workspaces for the CLI-level engines: creation, snapshot, running the real (hooked) binary.

Every run gets a clean environment, an explicit --threads, a scratch workspace on tmpfs and a wall-clock
horizon. Runs with --threads > 1 are executed under the cooperative scheduler (RQ_VERIF_SCHED), by default
with the serial schedule, because free-running parallel runs are not deterministic."""
import os
import re
import shutil
import signal
import subprocess

import common

HORIZON = 20.0


class Outcome:
    __slots__ = ('rc', 'cls', 'out', 'err', 'decisions', 'events', 'fslog')

    def __init__(self, rc, cls, out, err):
        self.rc, self.cls, self.out, self.err = rc, cls, out, err
        self.decisions, self.events, self.fslog = [], [], []


def classify(rc, timed_out=False):
    if timed_out:
        return 'hang'
    if rc in (0, 1):
        return str(rc)
    if rc == 101:
        return 'crash:panic'
    if rc < 0:
        return 'crash:signal%d' % (-rc)
    if rc in (3, 4):
        return 'machinery:%d' % rc  # scheduler hook refused the script / stalled
    return 'crash:exit%d' % rc


def write_tree(root, files):
    """files: {relpath: (bytes, mode|None)}"""
    for rel, (data, mode) in files.items():
        p = os.path.join(root, rel)
        d = os.path.dirname(p)
        if d:
            os.makedirs(d, exist_ok=True)
        if mode == 'link':   # a symbolic link, data = its target
            os.symlink(data, p)
            continue
        if mode == 'dir':    # an (empty) directory
            os.makedirs(p, exist_ok=True)
            continue
        with open(p, 'wb') as f:
            f.write(data)
        os.chmod(p, 0o644 if mode is None else mode)


def make_ws(root, files, patches, series_lines, applied=None, patches_dir='patches'):
    """Create a quilt workspace. patches: {name: bytes}; series_lines: list of str lines."""
    shutil.rmtree(root, ignore_errors=True)
    os.makedirs(os.path.join(root, patches_dir))
    write_tree(root, files)
    for name, data in patches.items():
        p = os.path.join(root, patches_dir, name)
        os.makedirs(os.path.dirname(p), exist_ok=True)
        with open(p, 'wb') as f:
            f.write(data)
    with open(os.path.join(root, 'series'), 'wb') as f:
        f.write(b''.join((l if isinstance(l, bytes) else os.fsencode(l)) + b'\n' for l in series_lines))
    if applied is not None:
        os.makedirs(os.path.join(root, '.pc'), exist_ok=True)
        with open(os.path.join(root, '.pc', 'applied-patches'), 'wb') as f:
            f.write(b''.join((l if isinstance(l, bytes) else l.encode()) + b'\n' for l in applied))


def snapshot(root, meta=False, skip=('patches', 'series')):
    """{relpath: ('F', bytes, mode[, inode, nlink, mtime_ns]) | ('D', mode[, inode, mtime_ns]) | ('L', target)}.
    `skip`: top-level names left out."""
    out = {}
    for cur, dirs, files in os.walk(root):
        dirs.sort()
        rel = os.path.relpath(cur, root)
        if rel == '.':
            for s in skip:
                if s in dirs:
                    dirs.remove(s)
            files = [f for f in files if f not in skip]
            rel = ''
        # a symbolic link to a directory is a link, not a directory (os.walk lists it among the directories but does not enter it)
        for dn in list(dirs):
            dp = os.path.join(cur, dn)
            if os.path.islink(dp):
                dirs.remove(dn)
                out[os.path.join(rel, dn) if rel else dn] = ('L', os.readlink(dp))
        st = os.lstat(cur)
        if rel:
            out[rel + '/'] = ('D', st.st_mode & 0o7777) + ((st.st_ino, st.st_mtime_ns) if meta else ())
        elif meta:
            out['./'] = ('D', st.st_mode & 0o7777, st.st_ino, st.st_mtime_ns)
        for f in sorted(files):
            p = os.path.join(cur, f)
            r = os.path.join(rel, f) if rel else f
            st = os.lstat(p)
            if os.path.islink(p):
                out[r] = ('L', os.readlink(p))
                continue
            with open(p, 'rb') as fh:
                data = fh.read()
            out[r] = ('F', data, st.st_mode & 0o7777) + ((st.st_ino, st.st_nlink, st.st_mtime_ns) if meta else ())
    return out


def tree_of(snap):
    """tracked files of a snapshot: everything except .pc/** and *.rej; {path: (bytes, mode)}; a symbolic link is (target, 'link')"""
    out = {p: (v[1], v[2]) for p, v in snap.items() if v[0] == 'F' and not p.startswith('.pc/') and not p.endswith('.rej')}
    out.update({p: (v[1].encode(), 'link') for p, v in snap.items() if v[0] == 'L' and not p.startswith('.pc/')})
    return out


def dirs_of(snap):
    return sorted(p for p, v in snap.items() if v[0] == 'D' and not p.startswith('.pc/') and p != './')


def rejects_of(snap):
    return {p: v[1] for p, v in snap.items() if v[0] == 'F' and p.endswith('.rej') and not p.startswith('.pc/')}


def pc_of(snap):
    return {p: (v[1], v[2]) for p, v in snap.items() if v[0] == 'F' and p.startswith('.pc/')}


def applied_of(snap):
    v = snap.get('.pc/applied-patches')
    return v[1].decode(errors='replace').split() if v else []


_DEC = re.compile(r'^D (\d+) phase=(\w+) enabled=([\d,]*) cur=(\S+) chosen=(\d+) ev=(.*)$')


def parse_trace(path):
    decisions, events = [], []
    if not os.path.exists(path):
        return decisions, events
    with open(path, 'rb') as f:
        for line in f.read().decode(errors='replace').splitlines():
            m = _DEC.match(line)
            if m:
                en = [int(x) for x in m.group(3).split(',') if x]
                cur = None if m.group(4) == '-' else int(m.group(4))
                decisions.append((en, cur, int(m.group(5)), m.group(2), m.group(6)))
            elif line.startswith('T ') or line.startswith('E '):
                parts = line.split(' ', 2)
                events.append((parts[0], None if parts[1] == '-' else int(parts[1]), parts[2] if len(parts) > 2 else ''))
    return decisions, events


def run_rq(root, args, threads=1, sched=None, trace=None, preload_env=None, cwd=None, timeout=HORIZON, use_d=True, mem_limit=None, threads_env=False, _retry=False, as_nobody=False, fsize_limit=None, cpu_limit=None):
    """Run `rapidquilt push <args>` on workspace `root`.
    threads>1: under the scheduler; sched = list of worker ids (schedule script), None/[] = serial default.
    trace: path of a trace file to (re)create; preload_env: extra env for the LD_PRELOAD shim."""
    env = {'PATH': '/usr/bin:/bin', 'LANG': 'C'}
    if threads > 1:
        env['RQ_VERIF_SCHED'] = ','.join(str(x) for x in (sched or []))
        if trace:
            if os.path.exists(trace):
                os.unlink(trace)
            env['RQ_VERIF_TRACE'] = trace
    if preload_env:
        env.update(preload_env)
    if threads_env:
        env['RAPIDQUILT_THREADS'] = str(threads)   # thread count from the environment instead of --threads
    cmd = [common.RQ, 'push'] + (['-d', root] if use_d else []) + ([] if threads_env else ['--threads', str(threads)]) + list(args)
    if as_nobody:   # an ordinary user instead of root (who is exempt from a number of rules)
        cmd = ['setpriv', '--reuid=65534', '--regid=65534', '--clear-groups'] + cmd
    if cwd is None:
        # with -d the process runs from a neutral directory, so that every path has to honour the working directory option;
        # without -d the workspace is the current directory
        cwd = os.path.dirname(os.path.abspath(root)) if use_d else root
    pre = None
    if mem_limit or fsize_limit or cpu_limit:
        import resource

        def pre():
            if mem_limit:
                resource.setrlimit(resource.RLIMIT_AS, (mem_limit, mem_limit))
            if cpu_limit:     # seconds of processor time: unlike the wall-clock horizon this does not depend on how busy the machine is
                resource.setrlimit(resource.RLIMIT_CPU, (cpu_limit, cpu_limit + 5))
            if fsize_limit:   # `ulimit -f`: a write beyond it raises SIGXFSZ - or fails with EFBIG for a process that does not die of that
                resource.setrlimit(resource.RLIMIT_FSIZE, (fsize_limit, fsize_limit))
    env['RQ_VERIF_STALL_SECS'] = '30'
    try:
        p = subprocess.run(cmd, env=env, stdout=subprocess.PIPE, stderr=subprocess.PIPE, timeout=timeout, cwd=cwd, preexec_fn=pre)
        o = Outcome(p.returncode, classify(p.returncode), p.stdout, p.stderr)
        if cpu_limit and p.returncode in (-24, -9):   # SIGXCPU (or the hard limit's SIGKILL): used up its processor time
            o.cls = 'hang'
    except subprocess.TimeoutExpired as e:
        o = Outcome(None, 'hang', e.stdout or b'', e.stderr or b'')
    if o.cls == 'machinery:4' and not _retry:
        # the cooperative scheduler saw no progress for 30 s: an overloaded machine, not a verdict. The run cannot simply be
        # repeated here (the workspace has been touched); callers that own the workspace re-create it, everybody else stops.
        raise common.MachineryError('scheduler stall (exit 4) running %s: %s' % (' '.join(cmd[1:8]), o.err[-200:]))
    if threads > 1 and trace:
        o.decisions, o.events = parse_trace(trace)
    return o


def failed_patch_name(err):
    """name in the 'Patch <name> FAILED' line of stderr, or None"""
    m = re.search(rb'Patch (\S+) FAILED', err)
    return m.group(1).decode(errors='replace') if m else None
