"""Workspace sweep: fork-based parallel map over cases, each executed on the real binary (DESIGN.md 4.3)."""
import json
import multiprocessing
import os
import subprocess
import sys
import time

import common
import toyquilt as tq
import ws

_TASKS = None
_FN = None


def _has_hang(r):
    for v in (r or {}).get('violations', []):
        if 'hang' in [x for x in v[:2] if isinstance(x, str)]:
            return True
    return False


def _work(i):
    try:
        r = _FN(_TASKS[i])
        if _has_hang(r):
            # a run that exceeded the wall-clock horizon: repeat the whole case once - a real hang is deterministic and
            # shows again, a machine that was merely overloaded does not produce a verdict
            r = _FN(_TASKS[i])
        return i, r, None
    except Exception as e:  # a crash of the checker itself is a machinery error, never a verdict
        import traceback
        return i, None, traceback.format_exc()


def wdir(tag='w'):
    d = os.path.join(common.scratch(), '%s%d' % (tag, os.getpid()))
    os.makedirs(d, exist_ok=True)
    return d


def pmap(fn, tasks, jobs=None):
    """[fn(t) for t in tasks] on `jobs` forked workers (tasks and fn are inherited, results must pickle)."""
    global _TASKS, _FN
    _TASKS, _FN = tasks, fn
    jobs = jobs or common.NCPU
    common.scratch()
    out = [None] * len(tasks)
    if jobs == 1 or len(tasks) < 4:
        for i in range(len(tasks)):
            _, r, err = _work(i)
            if err:
                raise common.MachineryError('checker crashed on case %d:\n%s' % (i, err))
            out[i] = r
        return out
    ctx = multiprocessing.get_context('fork')
    with ctx.Pool(jobs) as pool:
        for i, r, err in pool.imap_unordered(_work, range(len(tasks)), chunksize=max(1, min(64, len(tasks) // (jobs * 8) or 1))):
            if err:
                pool.terminate()
                raise common.MachineryError('checker crashed on case %d:\n%s' % (i, err))
            out[i] = r
    return out


class Acc:
    """accumulates per-case results of a sweep into a common.Result"""

    def __init__(self, res):
        self.res = res
        self.evals = 0
        self.nontrivial = 0
        self.outcomes = {}
        self.samples = []

    def add(self, case_result):
        """case_result: dict(evals, nontrivial, outcomes{key:n}, violations[(cls, mode, witness)], sample)"""
        self.evals += case_result.get('evals', 1)
        self.nontrivial += case_result.get('nontrivial', 0)
        for k, v in case_result.get('outcomes', {}).items():
            self.outcomes[k] = self.outcomes.get(k, 0) + v
        for cls, mode, w in case_result.get('violations', []):
            self.res.violation(cls, mode, w)
        s = case_result.get('sample')
        if s is not None and len(self.samples) < 6:
            self.samples.append(s)

    def finish(self, key=None):
        cov = self.res.coverage
        cov['evaluations'] = cov.get('evaluations', 0) + self.evals
        cov['distinct_nontrivial'] = cov.get('distinct_nontrivial', 0) + self.nontrivial
        cov.setdefault('samples', [])
        cov['samples'] = (cov['samples'] + self.samples)[:10]
        if key:
            cov[key] = {'runs': self.evals, 'nontrivial': self.nontrivial, 'outcomes': self.outcomes}
        else:
            cov['cli_outcomes'] = self.outcomes


def describe_patches(paths, strip=0):
    """parse files with the real parser (rqmc describe) -> {path: doc}"""
    if not paths:
        return {}
    p = subprocess.run([common.RQMC, 'describe', str(strip)] + list(paths), stdout=subprocess.PIPE, stderr=subprocess.PIPE)
    out = {}
    for line in p.stdout.decode().splitlines():
        d = json.loads(line)
        out[d['file']] = d
    return out


def tags_of(series, upto=None):
    """structural class of a series: the set of deviating template kinds (+ options) it contains"""
    tags = set(getattr(series, 'tags', ()))
    for i, p in enumerate(series):
        if upto is not None and i > upto:
            break
        if p.reverse:
            tags.add('-R')
        if p.strip != 1:
            tags.add('dot-slash-names' if p.strip == 'dot' else '-p%d' % p.strip)
        if p.empty:
            tags.add('empty-patch')
        seen = set()
        for fp in p.fps:
            kind = fp.name.split('(')[0]
            if fp.dev > 0 or not fp.ok:
                tags.add(kind)
            for f in fp.files:
                if f in seen:
                    tags.add('same-file-twice')
                seen.add(f)
    return tags


def cls(tags):
    return '+'.join(sorted(tags)) if tags else 'plain'


def witness(m0, series, cfg, extra=None, names=None):
    files, patches, lines = tq.workspace_of(m0, series, names)
    w = {'kind': 'cli', 'files': {k: [common.b2s(v[0]), v[1]] for k, v in files.items()}, 'patches': {k: common.b2s(v) for k, v in patches.items()},
         'series': lines, 'args': cfg_args(cfg), 'threads': cfg.get('threads', 1), 'series_desc': tq.describe_series(series)}
    if extra:
        w.update(extra)
    return w


def cfg_args(cfg):
    a = list(cfg.get('goal', ['-a']))
    if cfg.get('quiet', True):
        a.append('-q')
    if cfg.get('backup'):
        a += ['--backup', cfg['backup']]
    if cfg.get('backup_count') is not None:
        a += ['--backup-count', str(cfg['backup_count'])]
    if cfg.get('fuzz') is not None:
        a += ['--fuzz', str(cfg['fuzz'])]
    if cfg.get('dry'):
        a.append('--dry-run')
    if cfg.get('patches_dir'):
        a += ['-p', cfg['patches_dir']]
    a += cfg.get('extra', [])
    return a


def run_series(m0, series, cfg, root=None, names=None, sched=None, trace=False, preload_env=None):
    """materialise the workspace, run the real binary, return (outcome, before, after)"""
    root = root or os.path.join(wdir(), 'ws')
    files, patches, lines = tq.workspace_of(m0, series, names)
    pd = cfg.get('patches_dir') or 'patches'
    ws.make_ws(root, files, patches, lines, patches_dir=pd)
    before = ws.snapshot(root, skip=(pd.split('/')[0], 'series'))
    tr = os.path.join(wdir(), 'trace') if (trace or cfg.get('threads', 1) > 1) else None
    if cfg.get('policy'):   # the other serial order of the workers (highest id first)
        preload_env = dict(preload_env or {}, RQ_VERIF_POLICY=cfg['policy'])
    o = ws.run_rq(root, cfg_args(cfg), threads=cfg.get('threads', 1), sched=sched, trace=tr, preload_env=preload_env, use_d=not cfg.get('no_d'), threads_env=bool(cfg.get('threads_env')))
    after = ws.snapshot(root, skip=(pd.split('/')[0], 'series'))
    return o, before, after
