"""Shared plumbing of the /verif checks: builds, scratch space, evidence, known findings, verdicts.

Exit codes of ./check: 0 property held on everything explored (known findings are printed),
1 violation (a `VIOLATION property=<id> replay=<path>` line per new violation class),
2 machinery problem (build failure, nondeterminism, vacuity) - never a verdict.
"""
import fcntl
import fnmatch
import hashlib
import json
import os
import shutil
import subprocess
import sys
import time

VERIF = os.path.dirname(os.path.dirname(os.path.abspath(__file__)))
REPO = os.environ.get('RQV_REPO', '/repo')
BUILD = os.path.join(VERIF, '.build')
RQ = os.path.join(BUILD, 'rq', 'debug', 'rapidquilt')
RQMC = os.path.join(BUILD, 'rqmc', 'debug', 'rqmc')
RQDIST = os.path.join(BUILD, 'rqmc', 'debug', 'rqdist')
SHIM = os.path.join(BUILD, 'shim.so')
GUARD = 'opensuse_rapidquilt_verif'
NCPU = int(os.environ.get('RQV_JOBS', os.cpu_count() or 4))


class MachineryError(Exception):
    pass


def log(*a):
    print(*a, file=sys.stderr, flush=True)


# ----------------------------------------------------------------- builds

def _cargo_env(target):
    env = dict(os.environ)
    env['RUSTFLAGS'] = '--cfg ' + GUARD
    env['CARGO_TARGET_DIR'] = os.path.join(BUILD, target)
    env['CARGO_NET_OFFLINE'] = 'true'
    env['CARGO_PROFILE_DEV_DEBUG'] = '0'
    env['CARGO_TERM_COLOR'] = 'never'
    env.pop('RUST_BACKTRACE', None)
    return env


def _run_build(cmd, cwd, env, what):
    t0 = time.time()
    p = subprocess.run(cmd, cwd=cwd, env=env, stdout=subprocess.PIPE, stderr=subprocess.STDOUT)
    if p.returncode != 0:
        tail = p.stdout.decode(errors='replace')
        errs = [l for l in tail.splitlines() if l.startswith('error') or l.strip().startswith('-->')]
        log('BUILD FAILED (%s):' % what)
        log('\n'.join(errs[:40]) or tail[-3000:])
        raise MachineryError('build of %s failed' % what)
    dt = time.time() - t0
    if dt > 2:
        log('[build] %s: %.1fs' % (what, dt))


def build(want=('rq',)):
    """Incrementally (re)build what a check needs from /repo's current working tree, hooks on.
    want: subset of {'rq' (hooked CLI binary), 'rqmc', 'rqdist', 'shim'}. Serialised by a lock file."""
    os.makedirs(BUILD, exist_ok=True)
    with open(os.path.join(BUILD, 'lock'), 'w') as lk:
        fcntl.flock(lk, fcntl.LOCK_EX)
        if 'rq' in want:
            _run_build(['cargo', 'build', '--offline', '--bin', 'rapidquilt'], REPO, _cargo_env('rq'), 'rapidquilt (hooks on)')
        harness = os.path.join(VERIF, 'rqmc')
        lockfile = os.path.join(harness, 'Cargo.lock')
        for b in ('rqmc', 'rqdist'):
            if b in want:
                if not os.path.exists(lockfile):
                    shutil.copy(os.path.join(REPO, 'Cargo.lock'), lockfile)
                _run_build(['cargo', 'build', '--offline', '--bin', b], harness, _cargo_env('rqmc'), b)
        if 'shim' in want:
            src = os.path.join(VERIF, 'shim', 'shim.c')
            if not os.path.exists(SHIM) or os.path.getmtime(SHIM) < os.path.getmtime(src):
                _run_build(['gcc', '-O1', '-shared', '-fPIC', '-o', SHIM + '.tmp', src, '-ldl'], VERIF, dict(os.environ), 'shim.so')
                os.replace(SHIM + '.tmp', SHIM)


# ----------------------------------------------------------------- scratch

_scratch = None


def scratch():
    """Per-process scratch directory on tmpfs (fallback: /verif/.scratch); removed at exit."""
    global _scratch
    if _scratch is None:
        base = '/dev/shm' if os.path.isdir('/dev/shm') and os.access('/dev/shm', os.W_OK) else os.path.join(VERIF, '.scratch')
        os.makedirs(base, exist_ok=True)
        _scratch = os.path.join(base, 'rqv.%d' % os.getpid())
        shutil.rmtree(_scratch, ignore_errors=True)
        os.makedirs(_scratch)
        import atexit
        atexit.register(lambda d=_scratch, pid=os.getpid(): os.getpid() == pid and shutil.rmtree(d, ignore_errors=True))
    return _scratch


# ----------------------------------------------------------------- results

class Result:
    """What a property check found. `classes` is a list of dicts
    {class, mode, count, witnesses:[json-able case, ...]} as produced by the engines."""

    def __init__(self, level='model_checking'):
        self.level = level
        self.coverage = {}
        self.classes = []
        self.assumptions = []
        self.machinery_errors = []

    def add_class(self, cls, mode, count, witnesses):
        for c in self.classes:
            if c['class'] == cls and c['mode'] == mode:
                c['count'] += count
                c['witnesses'] = (c['witnesses'] + list(witnesses))[:3]
                return
        self.classes.append({'class': cls, 'mode': mode, 'count': count, 'witnesses': list(witnesses)[:3]})

    def violation(self, cls, mode, witness):
        self.add_class(cls, mode, 1, [witness])


def run_engine(cmd, timeout=3600, env=None):
    """Run a harness binary that prints one JSON document on stdout."""
    e = dict(os.environ) if env is None else env
    e.pop('RUST_BACKTRACE', None)
    p = subprocess.run(cmd, stdout=subprocess.PIPE, stderr=subprocess.PIPE, timeout=timeout, env=e)
    if p.returncode != 0:
        raise MachineryError('%s exited %d: %s' % (' '.join(cmd[:3]), p.returncode, p.stderr.decode(errors='replace')[-2000:]))
    try:
        return json.loads(p.stdout.decode())
    except Exception as ex:
        raise MachineryError('unparseable engine output from %s: %s' % (cmd[0], ex))


def run_engine_parts(cmd, parts=None, timeout=3600):
    """Run a sharded rqmc sweep as `parts` single-threaded processes (RQMC_PART=k/N) and merge their
    JSON documents: processes instead of threads because many allocating threads in one process
    contend in the allocator (measured 20x slower)."""
    parts = parts or NCPU
    procs = []
    for k in range(parts):
        e = dict(os.environ)
        e.pop('RUST_BACKTRACE', None)
        e['RQMC_THREADS'] = '1'
        e['RQMC_PART'] = '%d/%d' % (k, parts)
        procs.append(subprocess.Popen(cmd, stdout=subprocess.PIPE, stderr=subprocess.PIPE, env=e))
    docs = []
    t_end = time.time() + timeout
    for p in procs:
        try:
            out, err = p.communicate(timeout=max(1, t_end - time.time()))
        except subprocess.TimeoutExpired:
            for q in procs:
                q.kill()
            raise MachineryError('%s timed out' % ' '.join(cmd[:3]))
        if p.returncode != 0:
            for q in procs:
                q.kill()
            raise MachineryError('%s exited %d: %s' % (' '.join(cmd[:3]), p.returncode, err.decode(errors='replace')[-2000:]))
        try:
            docs.append(json.loads(out.decode()))
        except Exception as ex:
            raise MachineryError('unparseable engine output from %s: %s' % (cmd[0], ex))
    return merge_docs(docs)


def run_engine_lines(cmd, timeout=3600):
    """Run an engine that prints one JSON document per line, each with a 'report' (C11 parent: one line per
    finished chunk of a shard subprocess, plus a final line with what the parent itself observed)."""
    e = dict(os.environ)
    e.pop('RUST_BACKTRACE', None)
    e['RQMC_SCRATCH'] = scratch()
    p = subprocess.run(cmd, stdout=subprocess.PIPE, stderr=subprocess.PIPE, timeout=timeout, env=e)
    if p.returncode != 0:
        raise MachineryError('%s exited %d: %s' % (' '.join(cmd[:3]), p.returncode, p.stderr.decode(errors='replace')[-2000:]))
    docs, final = [], None
    for line in p.stdout.decode().splitlines():
        d = json.loads(line)
        docs.append(d['report'])
        if d.get('final'):
            final = d
    if final is None:
        raise MachineryError('engine did not finish: ' + ' '.join(cmd[:3]))
    out = merge_docs(docs)
    for k, v in final.items():
        if k != 'report':
            out[k] = v
    return out


def merge_docs(docs):
    out = dict(docs[0])
    out['counters'] = {}
    out['samples'] = []
    classes = {}
    summed = ('evaluations', 'distinct_nontrivial', 'states', 'transitions')
    for k in summed:
        if k in out:
            out[k] = 0
    out['capped'] = False
    out['wall_s'] = 0
    for d in docs:
        for k in summed:
            if k in out:
                out[k] += d.get(k, 0)
        out['capped'] = out['capped'] or d.get('capped', False)
        out['wall_s'] = max(out['wall_s'], d.get('wall_s', 0))
        for k, v in d.get('counters', {}).items():
            out['counters'][k] = out['counters'].get(k, 0) + v
        out['samples'] += d.get('samples', [])[:2]
        for c in d.get('violation_classes', []):
            e = classes.setdefault((c['class'], c['mode']), {'class': c['class'], 'mode': c['mode'], 'count': 0, 'witnesses': []})
            e['count'] += c['count']
            e['witnesses'] = (e['witnesses'] + c['witnesses'])[:3]
    out['samples'] = out['samples'][:8]
    out['violation_classes'] = [classes[k] for k in sorted(classes)]
    return out


def merge_engine(res, doc, keys=('evaluations', 'distinct_nontrivial', 'states', 'transitions')):
    """Fold an engine JSON document into a Result (sums counts, collects samples and violation classes)."""
    cov = res.coverage
    for k in keys:
        if k in doc:
            cov[k] = cov.get(k, 0) + doc[k]
    cov.setdefault('samples', [])
    cov['samples'] = (cov['samples'] + doc.get('samples', []))[:8]
    for c in doc.get('violation_classes', []):
        res.add_class(c['class'], c['mode'], c['count'], c['witnesses'])
    if doc.get('capped'):
        cov['exhaustive'] = False


# ----------------------------------------------------------------- known findings

def load_known():
    p = os.path.join(VERIF, 'KNOWN_FINDINGS.json')
    if not os.path.exists(p):
        return []
    with open(p) as f:
        return json.load(f).get('findings', [])


def finish(prop, tier, seed, res, wall_s):
    """Write evidence, print KNOWN-FINDING / VIOLATION lines, return the exit code."""
    known = [k for k in load_known() if k.get('property') == prop and k.get('status', 'open') == 'open']
    new, kf = [], {}
    for c in res.classes:
        hit = None
        for k in known:
            # a class is a '+'-joined set of structural tags; an entry matches if its class is one of them
            if k['class'] in c['class'].split('+') and fnmatch.fnmatchcase(c['mode'], k.get('mode') or '*'):
                hit = k
                break
        if hit:
            e = kf.setdefault(hit['id'], {'entry': hit, 'count': 0})
            e['count'] += c['count']
        else:
            new.append(c)
    cov = dict(res.coverage)
    cov.setdefault('exhaustive', True)
    cov['violation_classes'] = [{'class': c['class'], 'mode': c['mode'], 'count': c['count']} for c in res.classes]
    cov['known_findings_seen'] = sorted(kf)
    ev = {
        'property_id': prop,
        'tier': tier,
        'seed': seed,
        'level': res.level,
        'coverage': cov,
        'assumptions': res.assumptions,
        'wall_s': round(wall_s, 2),
        'violations': sum(c['count'] for c in new),
    }
    os.makedirs(os.path.join(VERIF, 'evidence'), exist_ok=True)
    tmp = os.path.join(VERIF, 'evidence', '.%s.json.%d' % (prop, os.getpid()))
    with open(tmp, 'w') as f:
        json.dump(ev, f, indent=1, sort_keys=True, default=_jsonable)
        f.write('\n')
    os.replace(tmp, os.path.join(VERIF, 'evidence', prop + '.json'))

    for kid, e in sorted(kf.items()):
        print('KNOWN-FINDING: property=%s %s %s (%d cases)' % (prop, kid, e['entry'].get('what', e['entry']['class']), e['count']))
    rc = 0
    if res.machinery_errors:
        for m in res.machinery_errors:
            log('MACHINERY: ' + m)
        rc = 2
    for n_printed, c in enumerate(sorted(new, key=lambda c: (len(c['class']), c['class'], c['mode']))):
        rc = 1
        if n_printed >= 12:
            log('  ... and %d more violation classes (see evidence file)' % (len(new) - 12))
            break
        w = c['witnesses'][0] if c['witnesses'] else {}
        rp = write_replay(prop, c, w)
        print('VIOLATION property=%s replay=%s' % (prop, rp))
        log('  class=%s mode=%s cases=%d' % (c['class'], c['mode'], c['count']))
    n = cov.get('evaluations', 0)
    log('[%s %s] evaluations=%s nontrivial=%s states=%s transitions=%s exhaustive=%s violations=%d known=%d wall=%.1fs' % (
        prop, tier, n, cov.get('distinct_nontrivial'), cov.get('states'), cov.get('transitions'), cov.get('exhaustive'),
        sum(c['count'] for c in new), sum(e['count'] for e in kf.values()), wall_s))
    sys.stdout.flush()
    return rc


def _jsonable(o):
    if isinstance(o, bytes):
        return o.decode('latin-1')
    if isinstance(o, (set, frozenset)):
        return sorted(o)
    return repr(o)


def write_replay(prop, cls, witness):
    d = os.path.join(VERIF, 'replays', prop)
    os.makedirs(d, exist_ok=True)
    doc = {'property': prop, 'class': cls['class'], 'mode': cls['mode'], 'cases_in_class': cls['count'], 'case': witness}
    blob = json.dumps(doc, indent=1, sort_keys=True, default=_jsonable)
    name = hashlib.sha1(blob.encode()).hexdigest()[:16] + '.json'
    p = os.path.join(d, name)
    with open(p, 'w') as f:
        f.write(blob + '\n')
    return p


def b2s(b):
    """bytes -> latin-1 string for JSON"""
    return b.decode('latin-1') if isinstance(b, bytes) else b


def s2b(s):
    return s.encode('latin-1') if isinstance(s, str) else s
