"""Toy quilt: the reference model behind the CLI-level sweeps (DESIGN.md 4.3).

A tree is a map path -> (lines, mode). Lines are unique tokens, so a hunk's context matches in exactly
one place and the expected result never depends on search subtleties (those are C02's business).
File-patch templates are instantiated against the model's *current* state: the generator knows by
construction whether an instance applies, what it yields, and which hunks fail."""
import copy

FILES = ['f', 'd/g', 'd/h', 'e/i']
NEWFILES = ['n', 'd/n', 'x/y/n']


NONL = b'~NONL'   # a line token ending in this marker stands for a line without terminator (the last line of a file lacking its final newline)


def eol(l):
    """the bytes of line token l as they stand in a file"""
    return l[:-len(NONL)] if l.endswith(NONL) else l + b'\n'


def patch_line(tag, l):
    """line token l as a line of a hunk"""
    if l.endswith(NONL):
        return tag.encode() + l[:-len(NONL)] + b'\n\\ No newline at end of file\n'
    return tag.encode() + l + b'\n'


class Model:
    def __init__(self):
        self.t = {}  # path -> (list of line tokens without newline, mode or None)

    def clone(self):
        m = Model()
        m.t = {k: (list(v[0]), v[1]) for k, v in self.t.items()}
        return m

    def files(self):
        """{path: (bytes, mode)} with default mode 0644"""
        return {p: (b''.join(eol(l) for l in ls), 0o644 if mode is None else mode) for p, (ls, mode) in self.t.items()}

    def dirs(self):
        ds = set()
        for p in self.t:
            while '/' in p:
                p = p.rsplit('/', 1)[0]
                ds.add(p)
        return ds


SPACEY = 'my dir/my file'


def initial(nlines=6, with_empty=False, with_spacey=False):
    m = Model()
    for f in FILES:
        m.t[f] = ([('%s%d' % (f.replace('/', '_'), i)).encode() for i in range(nlines)], 0o644)
    # modes other than what a newly created file gets: preserving them is part of "the tree equals ..."
    # ... and d/h lacks its final newline
    m.t['d/h'] = (m.t['d/h'][0][:-1] + [m.t['d/h'][0][-1] + NONL], 0o755)
    m.t['e/i'] = (m.t['e/i'][0], 0o600)
    m.t['z'] = ([], 0o600)   # a zero-length file (it may be filled, or replaced by a rename; its mode is not the default one)
    if with_spacey:
        m.t[SPACEY] = ([b'sp%d' % i for i in range(nlines)], 0o644)   # a name that needs quoting in patch headers
    return m


class Fresh:
    """source of line tokens that occur nowhere else"""

    def __init__(self):
        self.n = 0

    def __call__(self):
        self.n += 1
        return b'N%d' % self.n


# ------------------------------------------------------------------ structured hunks / file patches

class Hunk:
    """body: list of (tag, line) with tag in ' -+'; starts are the 1-based numbers a diff would print"""

    def __init__(self, old_start, new_start, body):
        self.old_start, self.new_start, self.body = old_start, new_start, body

    def old(self):
        return [l for t, l in self.body if t in ' -']

    def new(self):
        return [l for t, l in self.body if t in ' +']

    def render(self, inverted=False):
        oc, nc = len(self.old()), len(self.new())
        if not inverted:
            head = b'@@ -%d,%d +%d,%d @@\n' % (self.old_start, oc, self.new_start, nc)
            body = b''.join(patch_line(t, l) for t, l in self.body)
        else:
            head = b'@@ -%d,%d +%d,%d @@\n' % (self.new_start, nc, self.old_start, oc)
            # swap roles; within a change group keep '-' lines before '+' lines
            out, grp = [], []

            def flush():
                out.extend([x for x in grp if x[0] == '-'] + [x for x in grp if x[0] == '+'])
                del grp[:]
            for t, l in self.body:
                if t == ' ':
                    flush()
                    out.append((' ', l))
                else:
                    grp.append(('+' if t == '-' else '-', l))
            flush()
            body = b''.join(patch_line(t, l) for t, l in out)
        return head + body

    def described(self, inverted=False):
        """what parse() must report for this hunk: (old_start0, old lines, new_start0, new lines), 0-based"""
        o, n = [eol(l) for l in self.old()], [eol(l) for l in self.new()]
        os_, ns = self.old_start, self.new_start
        o0 = os_ - 1 if o else os_
        n0 = ns - 1 if n else ns
        if inverted:
            return (n0, n, o0, o)
        return (o0, o, n0, n)


def mk_hunk(lines, i, kind, new=None, ctx=1, wrong=0):
    """one hunk changing line i of `lines`: kind rep/del/ins. Returns (Hunk, resulting lines)."""
    n = len(lines)
    a, b = (i, i) if kind == 'ins' else (i, i + 1)
    s, e = max(0, a - ctx), min(n, b + ctx)
    body = [(' ', l) for l in lines[s:a]]
    if kind in ('rep', 'del'):
        body.append(('-', lines[i]))
    if kind in ('rep', 'ins'):
        body.append(('+', new))
    body += [(' ', l) for l in lines[b:e]]
    oc = e - s
    nc = oc + (1 if kind == 'ins' else 0) - (1 if kind == 'del' else 0)
    os_ = s + 1 if oc > 0 else s
    ns = s + 1 if nc > 0 else s
    newlines = lines[:a] + ([new] if kind in ('rep', 'ins') else []) + lines[b:]
    return Hunk(os_ + wrong, ns + wrong, body), newlines


class FP:
    """one file patch instance"""

    def __init__(self, name, old, new, hunks=(), ok=True, files=None, apply=None, rej=None, fail_hunks=(), git=None, dev=1, error=False, rename=False):
        self.name = name            # template label
        self.old, self.new = old, new   # names without prefix; None = /dev/null
        self.hunks = list(hunks)
        self.ok = ok                # applies completely
        self.files = files if files is not None else [old or new]  # names whose backups the patch produces
        self.apply = apply          # model -> None (only if ok)
        self.rej = rej              # path whose .rej is expected (None: failure without reject)
        self.fail_hunks = list(fail_hunks)   # indices of hunks expected in the reject
        self.git = git              # dict: rename=True | old_mode/new_mode | new_file_mode | deleted_file_mode
        self.dev = dev              # deviation cost
        self.error = error          # not a hunk failure but an I/O error (push must exit 1 cleanly)
        self.rename = rename

    def text(self, strip=1, inverted=False, always_git=False):
        def nm(side, name):
            if name is None:
                return b'/dev/null'
            pre = {0: '', 1: side + '/', 2: 'x/' + side + '/', 'dot': './'}[strip]   # 'dot': -p0 with names spelled ./name
            full = (pre + name).encode()
            if any(c in full for c in b' "\\\t'):
                # names with blanks or quotes are written as C strings, the way diff and git do
                return b'"' + full.replace(b'\\', b'\\\\').replace(b'"', b'\\"') + b'"'
            return full
        old, new = (self.new, self.old) if inverted else (self.old, self.new)
        g = self.git or {}
        out = b''
        if g or always_git:
            go, gn = (old or new), (new or old)
            out += b'diff --git ' + nm('a', go) + b' ' + nm('b', gn) + b'\n'
            if g.get('rename'):
                out += b'rename from ' + (old.encode()) + b'\nrename to ' + (new.encode()) + b'\n'
            om, nmode = g.get('old_mode'), g.get('new_mode')
            if inverted:
                om, nmode = nmode, om
            if om is not None:
                out += b'old mode %06o\n' % om
            if nmode is not None:
                out += b'new mode %06o\n' % nmode
            nf, df = g.get('new_file_mode'), g.get('deleted_file_mode')
            if inverted:
                nf, df = df, nf
            if nf is not None:
                out += b'new file mode %06o\n' % nf
            if df is not None:
                out += b'deleted file mode %06o\n' % df
        if self.hunks:
            out += b'--- ' + nm('a', old) + b'\n+++ ' + nm('b', new) + b'\n'
            out += b''.join(h.render(inverted) for h in self.hunks)
        return out


# ------------------------------------------------------------------ templates

def t_mod(m, fresh, f, ctx=1, wrong=0, i=2, dev=0, label='mod'):
    if f not in m.t or len(m.t[f][0]) <= i:
        return None
    lines, mode = m.t[f]
    h, new = mk_hunk(lines, i, 'rep', fresh(), ctx, wrong)

    def ap(mm):
        mm.t[f] = (new, mm.t[f][1])
    return FP('%s(%s)' % (label, f), f, f, [h], apply=ap, dev=dev)


def t_mod_ins_del(m, fresh, f):
    """insert a line near the top and delete one near the bottom: line counts change, two hunks"""
    if f not in m.t or len(m.t[f][0]) < 6:
        return None
    lines, mode = m.t[f]
    h1, l1 = mk_hunk(lines, 1, 'ins', fresh(), 1)
    h2, l2 = mk_hunk(lines, 4, 'del', None, 1)
    h2.new_start += 1
    new = l1[:5] + l1[6:]

    def ap(mm):
        mm.t[f] = (new, mm.t[f][1])
    return FP('mod2(%s)' % f, f, f, [h1, h2], apply=ap)


def t_modfail(m, fresh, f):
    if f not in m.t or len(m.t[f][0]) < 3:
        return None
    lines, mode = m.t[f]
    bad = list(lines)
    bad[1] = b'ZZZ'
    h, _ = mk_hunk(bad, 1, 'rep', b'Q', 1)
    return FP('modfail(%s)' % f, f, f, [h], ok=False, rej=f, fail_hunks=[0])


def t_partial(m, fresh, f, bad_first=False):
    if f not in m.t or len(m.t[f][0]) < 6:
        return None
    lines, mode = m.t[f]
    good, _ = mk_hunk(lines, 0 if not bad_first else 4, 'rep', fresh(), 1)
    bad = list(lines)
    j = 4 if not bad_first else 0
    bad[j] = b'ZZZ'
    hb, _ = mk_hunk(bad, j, 'rep', b'Q', 1)
    hunks = [good, hb] if not bad_first else [hb, good]
    return FP('partial%s(%s)' % ('B' if bad_first else '', f), f, f, hunks, ok=False, rej=f, fail_hunks=[1 if not bad_first else 0])


def t_create(m, fresh, f, both):
    if f in m.t:
        return None
    new = [fresh(), fresh()]
    h = Hunk(0, 1, [('+', l) for l in new])

    def ap(mm):
        mm.t[f] = (new, None)
    return FP('create%s(%s)' % ('B' if both else 'N', f), f if both else None, f, [h], files=[f], apply=ap)


def t_fill(m, fresh, f):
    """both-names creation over an existing zero-length file"""
    if f not in m.t or m.t[f][0]:
        return None
    new = [fresh(), fresh()]
    h = Hunk(0, 1, [('+', l) for l in new])

    def ap(mm):
        mm.t[f] = (new, mm.t[f][1])
    return FP('fill(%s)' % f, f, f, [h], files=[f], apply=ap)


def t_prepend(m, fresh, f):
    """a context-free hunk '@@ -0,0 +1,2 @@' with real names on a file that has lines: they go to the very top"""
    if f not in m.t or not m.t[f][0]:
        return None
    new = [fresh(), fresh()]
    h = Hunk(0, 1, [('+', l) for l in new])

    def ap(mm):
        mm.t[f] = (new + mm.t[f][0], mm.t[f][1])
    return FP('prepend(%s)' % f, f, f, [h], files=[f], apply=ap)


def t_create_over(m, fresh, f):
    if f not in m.t or not m.t[f][0]:
        return None
    h = Hunk(0, 1, [('+', b'X')])
    return FP('createover(%s)' % f, None, f, [h], ok=False, files=[f], rej=f, fail_hunks=[0])


def t_delete(m, fresh, f, both):
    if f not in m.t or not m.t[f][0]:
        return None
    lines, mode = m.t[f]
    h = Hunk(1, 0, [('-', l) for l in lines])

    def ap(mm):
        if both:
            mm.t[f] = ([], mm.t[f][1])
        else:
            del mm.t[f]
    return FP('delete%s(%s)' % ('B' if both else 'N', f), f, f if both else None, [h], files=[f], apply=ap)


def t_delete_mismatch(m, fresh, f):
    if f not in m.t or len(m.t[f][0]) < 2:
        return None
    lines, mode = m.t[f]
    bad = list(lines)
    bad[0] = b'ZZZ'
    h = Hunk(1, 0, [('-', l) for l in bad])
    return FP('delmismatch(%s)' % f, f, None, [h], ok=False, files=[f], rej=f, fail_hunks=[0])


def t_missing(m, fresh, f):
    if f in m.t:
        return None
    h = Hunk(1, 1, [(' ', b'a'), ('-', b'b'), ('+', b'c')])
    return FP('missing(%s)' % f, f, f, [h], ok=False, rej=f, fail_hunks=[0])


def t_missing_u0(m, fresh, f):
    """context-free hunks (diff -U0) on a file that is not there: a replacement that changes the line count, then a pure insertion
    and a pure deletion whose two line numbers therefore differ by more than the usual one"""
    if f in m.t:
        return None
    hunks = [Hunk(2, 2, [('-', b'b'), ('+', b'c'), ('+', b'd')]), Hunk(6, 8, [('+', fresh()), ('+', fresh())]), Hunk(9, 12, [('-', b'q')])]
    return FP('missingu0(%s)' % f, f, f, hunks, ok=False, rej=f, fail_hunks=[0, 1, 2])


def t_rename(m, fresh, f, g, withhunk):
    if f not in m.t or g in m.t or len(m.t[f][0]) < 3:
        return None
    lines, mode = m.t[f]
    new, hunks = lines, []
    if withhunk:
        h, new = mk_hunk(lines, 1, 'rep', fresh(), 1)
        hunks = [h]

    def ap(mm):
        md = mm.t[f][1]
        del mm.t[f]
        mm.t[g] = (new, md)
    return FP('rename%s(%s->%s)' % ('H' if withhunk else '', f, g), f, g, hunks, files=[f, g], apply=ap, git={'rename': True}, rename=True)


def t_rename_fail(m, fresh, f, g):
    """a git rename whose own content hunk cannot match: nothing is renamed, the reject belongs to the file as it still exists"""
    if f not in m.t or g in m.t or len(m.t[f][0]) < 3:
        return None
    lines, mode = m.t[f]
    bad = list(lines)
    bad[1] = b'ZZZ'
    h, _ = mk_hunk(bad, 1, 'rep', b'Q', 1)
    return FP('renamefail(%s->%s)' % (f, g), f, g, [h], ok=False, files=[f, g], rej=f, fail_hunks=[0], git={'rename': True}, rename=True)


def t_rename_onto_empty(m, fresh, f, g, withhunk):
    """a git rename onto an existing zero-length file: it goes through (there is nothing to lose)"""
    if f not in m.t or g not in m.t or m.t[g][0] or len(m.t[f][0]) < 3:
        return None
    lines, mode = m.t[f]
    new, hunks = lines, []
    if withhunk:
        h, new = mk_hunk(lines, 1, 'rep', fresh(), 1)
        hunks = [h]

    def ap(mm):
        md = mm.t[f][1]
        del mm.t[f]
        mm.t[g] = (new, md)
    return FP('renameontoempty%s(%s->%s)' % ('H' if withhunk else '', f, g), f, g, hunks, files=[f, g], apply=ap, git={'rename': True}, rename=True)


def t_rename_missing(m, fresh, f, g):
    """a git rename (with a hunk) of a file that does not exist: the hunk fails, nothing comes into existence"""
    if f in m.t or g in m.t:
        return None
    h = Hunk(1, 1, [(' ', b'a'), ('-', b'b'), ('+', b'c')])
    return FP('renamemissing(%s->%s)' % (f, g), f, g, [h], ok=False, files=[f, g], rej=g, fail_hunks=[0], git={'rename': True}, rename=True)


def t_rename_onto(m, fresh, f, g):
    if f not in m.t or g not in m.t or f == g or not m.t[g][0]:
        return None
    return FP('renameonto(%s->%s)' % (f, g), f, g, [], ok=False, files=[f, g], rej=None, git={'rename': True}, rename=True)


def t_mode(m, fresh, f, withhunk):
    if f not in m.t or (len(m.t[f][0]) < 3 and (withhunk or not m.t[f][0])):
        return None
    lines, mode = m.t[f]
    cur = 0o644 if mode is None else mode
    nm = 0o755 if cur != 0o755 else 0o644
    new, hunks = lines, []
    if withhunk:
        h, new = mk_hunk(lines, 1, 'rep', fresh(), 1)
        hunks = [h]

    def ap(mm):
        mm.t[f] = (new, nm)
    return FP('chmod%s(%s)' % ('H' if withhunk else '', f), f, f, hunks, apply=ap, git={'old_mode': 0o100000 | cur, 'new_mode': 0o100000 | nm})


def t_orig(m, fresh, f):
    """--- a/f.orig  +++ b/f : the old name does not exist, the new one is patched"""
    if f not in m.t or (f + '.orig') in m.t or len(m.t[f][0]) < 4:
        return None
    lines, mode = m.t[f]
    h, new = mk_hunk(lines, 3, 'rep', fresh(), 1)

    def ap(mm):
        mm.t[f] = (new, mm.t[f][1])
    return FP('orig(%s)' % f, f + '.orig', f, [h], files=[f], apply=ap)


def t_viaold(m, fresh, gone, f):
    """--- a/<gone>  +++ b/<f>: the old name existed at the start of the push but has been deleted or renamed away by an
    earlier patch; the new name is the one to patch"""
    if gone in m.t or f not in m.t or len(m.t[f][0]) < 5:
        return None
    lines, mode = m.t[f]
    h, new = mk_hunk(lines, 4, 'rep', fresh(), 1)

    def ap(mm):
        mm.t[f] = (new, mm.t[f][1])
    return FP('viaold(%s->%s)' % (gone, f), gone, f, [h], files=[f], apply=ap)


def t_isdir(m, fresh, d):
    """a patch naming a directory as its target: an I/O error, not a hunk failure"""
    if d not in m.dirs():
        return None
    h = Hunk(1, 1, [('-', b'a'), ('+', b'b')])
    return FP('isdir(%s)' % d, d, d, [h], ok=False, rej=None, error=True)


def t_multi(m, fresh, f, pattern, ctx=1):
    """hunks on lines 0, 2, 4 (as many as len(pattern)); pattern[i] True = hunk i cannot match"""
    if f not in m.t or len(m.t[f][0]) < 6:
        return None
    lines, mode = m.t[f]
    new = list(lines)
    hunks = []
    for j, bad in enumerate(pattern):
        i = 2 * j
        src = list(lines)
        if bad:
            src[i] = b'ZZZ%d' % j
        tok = fresh()
        h, _ = mk_hunk(src, i, 'rep', tok, ctx)
        hunks.append(h)
        if not bad:
            new[i] = tok
    ok = not any(pattern)

    def ap(mm):
        mm.t[f] = (new, mm.t[f][1])
    return FP('multi%s(%s)' % (''.join('x' if b else 'o' for b in pattern), f), f, f, hunks, ok=ok, apply=ap if ok else None,
              rej=None if ok else f, fail_hunks=[j for j, b in enumerate(pattern) if b], dev=0 if ok else 1)


def t_long_end(m, fresh, f):
    """an End-anchored hunk (leading context only) that is longer than the file: cannot match"""
    if f not in m.t or not m.t[f][0]:
        return None
    n = len(m.t[f][0])
    body = [(' ', b'J%d' % i) for i in range(n + 1)] + [('-', b'X'), ('+', b'Y')]
    h = Hunk(1, 1, body)
    return FP('longend(%s)' % f, f, f, [h], ok=False, rej=f, fail_hunks=[0])


def failing_shapes(m, f):
    """single failing hunks on file f in many shapes of mismatch (for the failure diagnostics and the reject writer):
    a wrong line at each position, an extra or a missing line inside the context, context running past the end or
    starting before the beginning of the file, all-foreign hunks, each with exact and far-off stated lines"""
    if f not in m.t or len(m.t[f][0]) < 4:
        return []
    lines = m.t[f][0]
    n = len(lines)
    out = []

    def add(label, old, start):
        # the hunk replaces its middle line
        k = len(old) // 2
        body = [(' ', l) for l in old[:k]] + [('-', old[k]), ('+', b'REPL')] + [(' ', l) for l in old[k + 1:]]
        h = Hunk(start, start, body)
        out.append(FP('%s(%s)' % (label, f), f, f, [h], ok=False, rej=f, fail_hunks=[0]))
    for width in (3, 5):
        for s0 in range(0, n - width + 1):
            seg = lines[s0:s0 + width]
            for i in range(width):
                bad = list(seg)
                bad[i] = b'WRONG%d' % i
                add('wrongline%d@%d' % (i, s0), bad, s0 + 1)
            for i in range(1, width):
                add('extraline%d@%d' % (i, s0), seg[:i] + [b'EXTRA'] + seg[i:], s0 + 1)
            if width > 3:
                for i in range(1, width - 1):
                    add('missingline%d@%d' % (i, s0), seg[:i] + seg[i + 1:], s0 + 1)
    for k in (1, 2, 3):
        add('pasteof%d' % k, lines[n - 2:] + [b'BEYOND%d' % j for j in range(k)], n - 1)
        add('beforebof%d' % k, [b'BEFORE%d' % j for j in range(k)] + lines[:2], 1)
        add('whole+%d' % k, list(lines) + [b'BEYOND%d' % j for j in range(k)], 1)
    for w in (1, 3, n + 2):
        add('foreign%d' % w, [b'FOREIGN%d' % j for j in range(w)], 1)
        add('foreign%d-far' % w, [b'FOREIGN%d' % j for j in range(w)], n + 10)
    add('wrongline-far', [lines[0], b'WRONG', lines[2]], n + 5)
    return out


def t_misordered(m, fresh, f):
    """two hunks in the wrong order: the second one (for an earlier line) is refused as misordered"""
    if f not in m.t or len(m.t[f][0]) < 6:
        return None
    lines, mode = m.t[f]
    h1, _ = mk_hunk(lines, 4, 'rep', fresh(), 1)
    h2, _ = mk_hunk(lines, 1, 'rep', fresh(), 1)
    return FP('misordered(%s)' % f, f, f, [h1, h2], ok=False, rej=f, fail_hunks=[1])


def menu(m, fresh, rich=True):
    """all template instances applicable in model state m; dev=0 ones are the 'plain' alphabet"""
    out = []
    for f in FILES + NEWFILES:
        out.append(t_mod(m, fresh, f))
    if not rich:
        return [t for t in out if t]
    for f in FILES + NEWFILES:
        out += [t_mod(m, fresh, f, ctx=0, dev=1, label='mod0'), t_mod(m, fresh, f, ctx=3, wrong=1, dev=1, label='modoff'), t_mod_ins_del(m, fresh, f),
                t_modfail(m, fresh, f), t_partial(m, fresh, f), t_partial(m, fresh, f, True), t_delete(m, fresh, f, False), t_delete(m, fresh, f, True),
                t_delete_mismatch(m, fresh, f), t_create_over(m, fresh, f), t_mode(m, fresh, f, True), t_mode(m, fresh, f, False), t_orig(m, fresh, f),
                t_create(m, fresh, f, False), t_create(m, fresh, f, True), t_missing(m, fresh, f)]
    for f in FILES:
        for g in NEWFILES:
            out.append(t_rename(m, fresh, f, g, True))
        out.append(t_rename(m, fresh, f, NEWFILES[0], False))
    out.append(t_rename_onto(m, fresh, 'f', 'd/g'))
    out.append(t_rename_fail(m, fresh, 'f', 'n'))
    out.append(t_rename_fail(m, fresh, 'd/g', 'x/y/n'))
    out.append(t_rename_onto(m, fresh, 'd/g', 'd/h'))
    out.append(t_isdir(m, fresh, 'd'))
    for gone in ('f', 'd/g'):
        for f in ('d/h', 'e/i', 'n'):
            out.append(t_viaold(m, fresh, gone, f))
    out.append(t_misordered(m, fresh, 'f'))
    out.append(t_prepend(m, fresh, 'f'))
    out.append(t_prepend(m, fresh, 'n'))
    out.append(t_long_end(m, fresh, 'e/i'))
    for f in sorted(m.t):
        out.append(t_fill(m, fresh, f))
    return [t for t in out if t]


# ------------------------------------------------------------------ series

class Patch:
    def __init__(self, fps, reverse=False, strip=1, empty=False):
        self.fps, self.reverse, self.strip, self.empty = fps, reverse, strip, empty

    def ok(self):
        return all(fp.ok for fp in self.fps)

    def text(self):
        if self.empty:
            return b''
        # every file patch gets its own 'diff --git' line whenever the patch contains a hunk-less entry:
        # by the format a hunk-less git entry followed by plain ---/+++ lines is ONE entry
        hunkless = any(not fp.hunks for fp in self.fps)
        return b''.join(fp.text(self.strip, self.reverse, always_git=hunkless) for fp in self.fps)

    def series_line(self, name):
        opts = []
        if self.strip != 1:
            opts.append('-p0' if self.strip == 'dot' else '-p%d' % self.strip)
        if self.reverse:
            opts.append('-R')
        return ' '.join([name] + opts)

    def label(self):
        return '+'.join(fp.name for fp in self.fps) + ('-R' if self.reverse else '') + ('' if self.strip == 1 else ('-p0(./names)' if self.strip == 'dot' else '-p%d' % self.strip)) + ('EMPTY' if self.empty else '')


def enumerate_series(max_fps, max_dev, rich=True, m0=None, allow_after_failure=0, plain_files=None):
    """All series with <= max_fps file patches in total and <= max_dev deviations (non-plain templates), each file
    patch either joining the current patch or opening a new one. Yields (series, model_states) where model_states[i]
    is the model before patch i (and the last one after everything that applies). Enumeration stops growing a series
    after its first failing patch except for `allow_after_failure` further plain file patches."""
    m0 = m0 or initial()
    out = []

    def rec(m, series, cur, nfp, dev, failed, after, failed_files, cur_failed):
        full = series + ([cur] if cur else [])
        if full:
            out.append([Patch(list(p)) for p in full])
        if nfp == max_fps:
            return
        if failed and after >= allow_after_failure:
            return
        fresh = Fresh()
        fresh.n = 100 * (nfp + 1) + 1000 * len(series)
        for t in menu(m, fresh, rich):
            if failed and (t.dev > 0 or set(t.files) & failed_files):
                # after the first failure only plain file patches on other files follow: the model does not
                # track the partial effects of the failing patch
                continue
            if plain_files is not None and t.dev == 0 and t.old not in plain_files:
                continue
            d = dev + t.dev
            if d > max_dev:
                continue
            m2 = m
            now_failed = failed
            ff = failed_files
            if not failed:
                if t.ok:
                    m2 = m.clone()
                    t.apply(m2)
                else:
                    now_failed = True
                    ff = set(t.files) | ({t.rej} if t.rej else set())
            aft = after + (1 if failed else 0)
            if not failed or cur_failed:
                # same patch (also behind the failing file patch, as long as the failing patch is still open)
                rec(m2, series, cur + [t], nfp + 1, d, now_failed, aft, ff, now_failed)
            if cur:
                rec(m2, series + [cur], [t], nfp + 1, d, now_failed, aft, ff, now_failed and not failed)  # new patch
    rec(m0, [], [], 0, 0, False, 0, set(), False)
    return out


def build_series(m0, steps):
    """steps: list of patches, each a list of (template function, args...) instantiated against the evolving model"""
    m = m0.clone()
    fresh = Fresh()
    out = []
    for patch in steps:
        fps = []
        for st in patch:
            t = st[0](m, fresh, *st[1:])
            if t is None:
                return None
            if t.ok:
                t.apply(m)
            fps.append(t)
        out.append(Patch(fps))
    return out


def special_series(m0=None):
    """hand-picked series with several deviations at once (beyond the deviation bound of the quick tiers): names whose
    existence changes during the push, files deleted and re-created (with non-default modes), renames there and back,
    failures in fresh or emptied directories, failures on two files"""
    m0 = m0 or initial()
    S = [
        [[(t_delete, 'f', False)], [(t_create, 'f', False)]],
        [[(t_delete, 'd/h', False)], [(t_create, 'd/h', False)], [(t_mod, 'd/h', 1, 0, 0)]],
        [[(t_delete, 'e/i', False)], [(t_create, 'e/i', True)]],
        [[(t_delete, 'd/h', True)], [(t_fill, 'd/h')]],
        [[(t_rename, 'd/h', 'n', True)], [(t_create, 'd/h', False)]],
        [[(t_rename, 'e/i', 'n', False)], [(t_rename, 'n', 'e/i', True)]],
        [[(t_rename, 'f', 'n', True)], [(t_rename, 'n', 'f', False)], [(t_mod, 'f', 1, 0, 0)]],
        [[(t_create, 'n', False)], [(t_delete, 'n', False)]],
        [[(t_create, 'n', False)], [(t_create_over, 'n')], [(t_mod, 'f')]],
        [[(t_create, 'n', True)], [(t_prepend, 'n')], [(t_mod, 'n', 1, 0, 0)]],
        [[(t_mode, 'e/i', False)], [(t_delete, 'e/i', False)], [(t_create, 'e/i', False)]],
        [[(t_mode, 'f', True)], [(t_delete, 'f', False)], [(t_create, 'f', True)]],
        [[(t_delete, 'f', False)], [(t_viaold, 'f', 'd/h')], [(t_mod, 'e/i')]],
        [[(t_rename, 'f', 'n', False)], [(t_viaold, 'f', 'e/i')], [(t_mod, 'n')]],
        [[(t_mod, 'f')], [(t_rename, 'f', 'n', True)], [(t_mod, 'n', 1, 0, 4)]],
        [[(t_delete, 'd/g', False), (t_delete, 'd/h', False)], [(t_create, 'd/n', False)]],
        [[(t_delete, 'd/g', False)], [(t_delete, 'd/h', False)], [(t_missing, 'd/n')]],
        [[(t_create, 'x/y/n', False)], [(t_create_over, 'x/y/n')], [(t_mod, 'f')]],
        [[(t_create, 'x/y/n', False), (t_create, 'x/y/m', False)], [(t_create_over, 'x/y/n'), (t_mod, 'd/g')]],
        [[(t_mod, 'f')], [(t_modfail, 'd/g')], [(t_modfail, 'f')]],
        [[(t_modfail, 'f')], [(t_modfail, 'd/g')]],
        [[(t_mod, 'f'), (t_mod, 'd/g')], [(t_modfail, 'd/g'), (t_partial, 'f')], [(t_mod, 'd/h')]],
        [[(t_mod, 'd/g')], [(t_mod, 'f')], [(t_modfail, 'f'), (t_mod, 'e/i')], [(t_modfail, 'd/g')]],
        [[(t_delete, 'f', False), (t_create, 'n', False)], [(t_modfail, 'd/g'), (t_rename, 'd/h', 'd/n', True)]],
        [[(t_rename, 'f', 'n', True)], [(t_rename_fail, 'n', 'x/y/n'), (t_mod, 'd/g')]],
        # a rename onto an existing empty file (mode 0600): its backup, and its return when the patch or a later one fails
        [[(t_rename_onto_empty, 'f', 'z', True)]],
        [[(t_rename_onto_empty, 'f', 'z', False)], [(t_mod, 'z', 1, 0, 0)]],
        [[(t_rename_onto_empty, 'f', 'z', False), (t_modfail, 'd/g')]],
        [[(t_modfail, 'd/g'), (t_rename_onto_empty, 'd/h', 'z', True)]],
        [[(t_mod, 'e/i')], [(t_modfail, 'd/g')], [(t_rename_onto_empty, 'f', 'z', False)]],
        # behind the failing patch, several patches on one file (and a rename chain): a worker that got that far has to undo them newest first
        [[(t_mod, 'f')], [(t_modfail, 'd/g')], [(t_mod, 'f', 1, 0, 0)], [(t_mod, 'f', 1, 0, 2)], [(t_mod_ins_del, 'f')]],
        [[(t_modfail, 'd/g')], [(t_mod_ins_del, 'f')], [(t_mod, 'f', 1, 0, 3)]],
        [[(t_modfail, 'd/g')], [(t_rename, 'f', 'n', True)], [(t_rename, 'n', 'x/y/n', True)], [(t_mod, 'x/y/n', 1, 0, 4)]],
        # a failing rename onto a name that an earlier patch of the push removed or moved away: the name stays gone
        [[(t_delete, 'd/h', False)], [(t_rename_fail, 'f', 'd/h')]],
        [[(t_rename, 'd/h', 'n', False)], [(t_rename_fail, 'f', 'd/h'), (t_mod, 'e/i')]],
        [[(t_delete, 'e/i', False), (t_mod, 'f')], [(t_mod, 'd/g')], [(t_rename_fail, 'd/g', 'e/i')]],
        # a rename of a file that does not exist
        [[(t_rename_missing, 'q', 'n')]],
        [[(t_mod, 'f')], [(t_rename_missing, 'q', 'n'), (t_mod, 'd/g')]],
        [[(t_delete, 'f', False)], [(t_rename_missing, 'f', 'n')]],
        # a file named by two entries of one patch, one of them a mode change: the backup holds state and mode from before the patch
        [[(t_create, 'n', False)], [(t_mode, 'n', False), (t_mod, 'n', 1, 0, 0)]],
        [[(t_mode, 'd/h', False), (t_mod, 'd/h')]],
        [[(t_mod, 'e/i'), (t_mode, 'e/i', True)], [(t_mod, 'f')]],
    ]
    out = []
    for steps in S:
        s = build_series(m0, steps)
        if s:
            out.append(s)
    return out


def series_dev(series):
    return sum(fp.dev for p in series for fp in p.fps) + sum((1 if p.reverse else 0) + (1 if p.strip != 1 else 0) + (1 if p.empty else 0) for p in series)


def with_patch_options(series_list, max_dev):
    """adds, for every series with a deviation to spare, the variants with one patch marked -R (its text inverted),
    one patch at -p0 / -p2, or an empty patch file inserted at any position"""
    out = list(series_list)
    for s in series_list:
        if series_dev(s) + 1 > max_dev:
            continue
        for i in range(len(s)):
            for kw in ({'reverse': True}, {'strip': 0}, {'strip': 2}, {'strip': 'dot'}):
                v = [Patch(p.fps, p.reverse, p.strip, p.empty) for p in s]
                v[i] = Patch(s[i].fps, kw.get('reverse', False), kw.get('strip', 1))
                out.append(v)
        for j in range(len(s) + 1):
            if any(not p.ok() for p in s[:j]):
                break
            v = [Patch(p.fps, p.reverse, p.strip, p.empty) for p in s]
            v.insert(j, Patch([], empty=True))
            out.append(v)
    return out


def c13_space(max_files, m0=None):
    """failing patches with 1..max_files files, 1..3 hunks per file, every subset of hunks failing (at least one overall),
    with and without a plain patch before / after; plus every failure reason of the menu as the only failing entry"""
    m0 = m0 or initial()
    files = ['f', 'd/g', 'e/i'][:max_files]
    pats = [tuple(bool(b >> j & 1) for j in range(h)) for h in (1, 2, 3) for b in range(1 << h)]
    out = []

    def combos(k):
        if k == 0:
            yield []
            return
        for rest in combos(k - 1):
            for p in pats:
                yield rest + [p]
    for nf in range(1, max_files + 1):
        for combo in combos(nf):
            if not any(any(p) for p in combo):
                continue
            for pre in (False, True):
                for post in (False, True):
                    fresh = Fresh()
                    m = m0.clone()
                    series = []
                    if pre:
                        t = t_mod(m, fresh, 'd/h')
                        t.apply(m)
                        series.append(Patch([t]))
                    fps = [t_multi(m, fresh, f, list(p)) for f, p in zip(files, combo)]
                    series.append(Patch(fps))
                    if post:
                        series.append(Patch([t_mod(m, fresh, 'd/h', i=4)]))
                    out.append(series)
    # a file whose name needs quoting: the reject must still name it
    if SPACEY in m0.t:
        fresh = Fresh()
        for t in (t_modfail(m0, fresh, SPACEY), t_partial(m0, fresh, SPACEY), t_delete_mismatch(m0, fresh, SPACEY), t_multi(m0, fresh, SPACEY, [False, True, True])):
            out.append([Patch([t])])
            out.append([Patch([t_mod(m0, fresh, 'f'), t])])
    # several failing entries for one file in the failing patch: one reject file with a section per entry, in patch order
    fresh = Fresh()
    for f in ('f', 'd/g'):
        a, b, c, d = t_modfail(m0, fresh, f), t_multi(m0, fresh, f, [True, True]), t_partial(m0, fresh, f), t_delete_mismatch(m0, fresh, f)
        other = t_mod(m0, fresh, 'e/i')
        for combo in ([a, b], [b, a], [c, a], [a, c], [a, other, b], [a, d], [b, a, d]):
            out.append([Patch(list(combo))])
        # ... with a failing entry for another file (or two) in between: the sections of one file are not next to each other in the patch
        of1, of2 = t_modfail(m0, fresh, 'e/i'), t_partial(m0, fresh, 'd/h')
        for combo in ([a, of1, b], [b, of1, a], [a, of1, of2, b], [c, of1, a, of2, d]):
            if all(x is not None for x in combo):
                out.append([Patch(list(combo))])
        out.append([Patch([t_mod(m0, fresh, 'd/h')]), Patch([a, b]), Patch([t_mod(m0, fresh, 'd/h', i=4)])])
    # context-free hunks with a zero-length side among the failed ones: the reject must carry both line numbers as written
    fresh = Fresh()
    for f in ('n', 'd/n'):
        t = t_missing_u0(m0, fresh, f)
        out.append([Patch([t])])
        out.append([Patch([t_mod(m0, fresh, 'f'), t])])
        out.append([Patch([t], reverse=True)])
    # every failure reason, alone and next to a plain file patch on another file
    fresh = Fresh()
    for t in menu(m0, fresh):
        if not t.ok and not t.error:
            out.append([Patch([t])])
            other = t_mod(m0, fresh, 'e/i' if 'e/i' not in t.files else 'f')
            out.append([Patch([other, t])])
            out.append([Patch([t, other])])
    return out


def names_for(series):
    return ['p%d.patch' % i for i in range(len(series))]


def expectation(m0, series, first=0, last=None):
    """Run the model over patches first..last-1 (m0 = model at `first`). Returns dict with
    k (patches applied in this range), model_after, pre (list of (index, model_before, files touched)),
    rej_required / rej_permitted (paths), fail_index, error (I/O error expected)."""
    last = len(series) if last is None else last
    m = m0.clone()
    pre, k = [], last - first
    rej_req, rej_perm, rej_hunks = set(), set(), {}
    error = False
    fail = None
    for i in range(first, last):
        p = series[i]
        if not p.ok():
            k = i - first
            fail = i
            start_dirs = m0.dirs() | {''}
            now_dirs = m.dirs() | {''}
            for fp in p.fps:
                if fp.error:
                    error = True
                if not fp.ok and fp.rej is not None:
                    d = fp.rej.rsplit('/', 1)[0] if '/' in fp.rej else ''
                    # rejects are written after the files of the applied patches have been saved and emptied directories
                    # removed: the reject has a place iff its directory is part of the tree the applied patches leave
                    if d in now_dirs:
                        rej_req.add(fp.rej)
                        rej_perm.add(fp.rej)
                    rej_hunks.setdefault(fp.rej, []).append((fp, [fp.hunks[j].described(p.reverse) for j in fp.fail_hunks]))
            break
        pre.append((i, m.clone(), [f for fp in p.fps for f in fp.files]))
        for fp in p.fps:
            fp.apply(m)
    return {'k': k, 'model': m, 'pre': pre, 'rej_required': rej_req, 'rej_permitted': rej_perm, 'rej_hunks': rej_hunks, 'fail': fail, 'error': error}


class Raw(list):
    """a hand-written workspace standing in for (model, series) where the oracle is differential (C06, C09, ...) and no model is
    needed: files {path: (bytes, mode | 'link')}, patches {name: bytes}, series lines. It is an empty list of patches for the
    structural helpers; its class tags are given."""

    def __init__(self, label, files, patches, lines, tags=()):
        super().__init__()
        self.label, self.files, self.patches, self.lines, self.tags = label, files, patches, lines, tuple(tags)


def workspace_of(m0, series, names=None):
    """(files, patches, series_lines) for ws.make_ws"""
    if isinstance(series, Raw):
        return series.files, series.patches, series.lines
    names = names or names_for(series)
    patches = {n: p.text() for n, p in zip(names, series)}
    return m0.files(), patches, [p.series_line(n) for n, p in zip(names, series)]


def describe_series(series):
    if isinstance(series, Raw):
        return series.label
    return ' | '.join(p.label() for p in series)
