"""./check replay <path>: re-run one recorded violation on the real code without any explorer and print
what was expected and what is observed now."""
import json
import os
import sys
import subprocess

import common
import ws


def main(path):
    doc = json.load(open(path))
    case = doc.get('case', {})
    kind = case.get('kind')
    print('property=%s class=%s mode=%s (cases in class: %s)' % (doc.get('property'), doc.get('class'), doc.get('mode'), doc.get('cases_in_class')))
    d = os.path.join(common.scratch(), 'replay')
    os.makedirs(d, exist_ok=True)
    if kind == 'lib-apply':
        common.build(('rqmc',))
        pf = os.path.join(d, 'p.patch')
        open(pf, 'wb').write(common.s2b(case['patch']))
        ff = '-'
        if case.get('file') is not None:
            ff = os.path.join(d, 'file')
            open(ff, 'wb').write(common.s2b(case['file']))
        print('--- patch (reverse=%s, fuzz limit=%s)\n%s--- file: %r' % (case['reverse'], case['fuzz'], case['patch'], case.get('file')))
        print('--- expected:', json.dumps(case.get('expected')))
        print('--- recorded:', json.dumps(case.get('observed')))
        out = subprocess.run([common.RQMC, 'apply1', pf, ff, '1' if case['reverse'] else '0', str(case['fuzz'])], stdout=subprocess.PIPE).stdout.decode()
        print('--- observed now:\n' + out)
    elif kind in ('lib-parse', 'lib-roundtrip'):
        common.build(('rqmc',))
        pf = os.path.join(d, 'input')
        open(pf, 'wb').write(common.s2b(case['input']))
        print('--- input:\n%s' % case['input'])
        print('--- recorded:', case.get('observed'))
        if kind == 'lib-parse':
            p = subprocess.run([common.RQMC, 'parse1', pf], stdout=subprocess.PIPE, stderr=subprocess.PIPE)
            print('--- observed now: exit=%s %s' % (p.returncode, p.stdout.decode()))
        else:
            print('--- written form recorded:\n%s' % case.get('written'))
            p = subprocess.run([common.RQMC, 'describe', '0', pf], stdout=subprocess.PIPE)
            print('--- parse of the input now:', p.stdout.decode())
    elif kind == 'distributor':
        common.build(('rqdist',))
        names = {}
        args = []
        for a, b in case['history']:
            x = names.setdefault(a, len(names))
            y = names.setdefault(b, len(names)) if b is not None else None
            args.append('%d:%s' % (x, '' if y is None else y))
        print('--- history:', case['history'], 'threads:', case['threads'])
        print('--- expected:', case.get('expected'), '\n--- recorded:', case.get('observed'))
        print('--- observed now:\n' + subprocess.run([common.RQDIST, 'replay', str(case['threads'])] + args, stdout=subprocess.PIPE).stdout.decode())
    elif kind == 'lib-history':
        print(json.dumps(case, indent=1))
        print('(replay: apply the steps in order with rqmc apply1, then undo them in reverse order)')
    elif kind == 'cli':
        common.build(('rq', 'shim'))
        root = os.path.join(d, 'ws')
        files = {k: (common.s2b(v[0]), v[1]) for k, v in case['files'].items()}
        ws.make_ws(root, files, {k: common.s2b(v) for k, v in case['patches'].items()}, case['series'], applied=case.get('applied'))
        if case.get('applied_raw') is not None:
            os.makedirs(os.path.join(root, '.pc'), exist_ok=True)
            if case['applied_raw'] == 'a directory':
                os.mkdir(os.path.join(root, '.pc', 'applied-patches'))
            else:
                open(os.path.join(root, '.pc', 'applied-patches'), 'wb').write(common.s2b(case['applied_raw']))
        for step in case.get('before', []):
            ws.run_rq(root, step['args'], threads=step.get('threads', 1))
        env = None
        if case.get('fault'):
            env = {'LD_PRELOAD': common.SHIM, 'RQ_FAIL_AT': str(case['fault']['k']), 'RQ_FAIL_ERRNO': str(case['fault']['errno']), 'RQ_LOG': os.path.join(d, 'fslog')}
            if case.get('readdir_fault_at'):   # the k-th reading of a directory entry fails instead of the k-th mutating call
                del env['RQ_FAIL_AT']
                env['RQ_FAIL_READDIR'] = str(case['readdir_fault_at'])
        o = ws.run_rq(root, case['args'], threads=case.get('threads', 1), sched=case.get('schedule'), trace=os.path.join(d, 'trace'), preload_env=env)
        print('--- workspace: %s\n--- series: %s\n--- args: %s threads=%s schedule=%s' % (case.get('series_desc'), case['series'], case['args'], case.get('threads', 1), case.get('schedule')))
        print('--- expected:', json.dumps(case.get('expected')))
        print('--- recorded:', json.dumps(case.get('observed')))
        snap = ws.snapshot(root)
        print('--- observed now: exit=%s applied=%s' % (o.cls, ws.applied_of(snap)))
        print('stderr:', o.err.decode(errors='replace')[-800:])
        for p, v in sorted(snap.items()):
            if v[0] == 'F':
                print('  %s %o %r' % (p, v[2], v[1][:200]))
    elif kind == 'cli-sentinel':
        common.build(('rq', 'shim'))
        import shutil
        import fsmon
        sentinel = os.path.join(d, 'sentinel')
        shutil.rmtree(sentinel, ignore_errors=True)
        root = os.path.join(sentinel, 'lvl1', 'ws')
        os.makedirs(os.path.join(sentinel, 'abs'))
        os.makedirs(os.path.join(sentinel, 'lvl1'), exist_ok=True)
        for pth in ('x', 'lvl1/x', 'abs/x', 'lvl1/f'):
            open(os.path.join(sentinel, pth), 'wb').write(b'decoy1\ndecoy2\ndecoy3\n')
        ws.make_ws(root, {'f': (b'f0\nf1\nf2\n', 0o644), 'g0': (b'g\n', 0o644)}, {'p1.patch': common.s2b(case['patch'])}, case['series'])
        log = os.path.join(d, 'fslog')
        before = ws.snapshot(sentinel, skip=())
        o = ws.run_rq(root, ['-a', '-q'], threads=case.get('threads', 1), preload_env=fsmon.env(log))
        after = ws.snapshot(sentinel, skip=())
        print('--- patch:\n%s--- series: %s (name after stripping: %s, escapes: %s)' % (case['patch'], case['series'], case.get('name_after_strip'), case.get('escapes')))
        print('--- recorded:', json.dumps(case.get('observed')))
        print('--- observed now: exit=%s' % o.cls)
        print('stderr:', o.err.decode(errors='replace')[-400:])
        ch = sorted(x for x in set(before) | set(after) if before.get(x) != after.get(x) and not x.startswith('lvl1/ws/'))
        print('changed outside the workspace:', ch)
        print('calls outside the workspace:', [e for e in fsmon.read_log(log, root) if '/sentinel/' in e[2] and '/lvl1/ws' not in e[2]][:10])
    elif kind == 'cli-sentinel-grid':
        common.build(('rq', 'shim'))
        sys.path.insert(0, os.path.join(os.path.dirname(__file__), 'props'))
        import c19
        r = c19.grid_case(tuple(case['task']))
        print('--- patch:\n%s--- series: %s (what -pN leaves of the name: %r, %s)' % (case['patch'], case['series'], case.get('name_after_strip'), case.get('verdict')))
        print('--- recorded:', json.dumps(case.get('observed')))
        print('--- observed now: %s' % sorted(r['outcomes']))
        for c_, mode, w in r['violations']:
            print('violation now: %s: %s' % (mode, json.dumps({k: w.get(k) for k in ('expected', 'observed')})))
    elif kind == 'cli-sentinel-links':
        common.build(('rq',))
        sys.path.insert(0, os.path.join(os.path.dirname(__file__), 'props'))
        import c19
        r = c19.link_case((case['name'], case['fpkind'], case.get('threads', 1), case.get('backup', 'never')))
        print('--- links in the tree: %s\n--- patch p1.patch (behind a patch that applies):\n%s' % (json.dumps(case.get('links')), case['patch']))
        print('--- recorded:', json.dumps(case.get('observed')))
        print('--- observed now: %s' % sorted(r['outcomes']))
        for c_, mode, w in r['violations']:
            print('violation now: %s: %s' % (mode, json.dumps({k: w.get(k) for k in ('expected', 'observed')})))
    else:
        print(json.dumps(doc, indent=1))
    return 0
