"""Model-based oracles of the CLI-level sweeps (toy quilt vs. the real binary): C05, C08, C13 and the
CLI parts of C04, C11, C20."""
import os

import common
import toyquilt as tq
import ws
import wsweep
from wsweep import cls, tags_of, witness


def model_files_at(exp, m0, kprime):
    """tracked files after the first kprime patches of the run"""
    if kprime == exp['k']:
        return exp['model'].files()
    if kprime < len(exp['pre']):
        return exp['pre'][kprime][1].files()
    return None


def diff_paths(a, b):
    return sorted(p for p in set(a) | set(b) if a.get(p) != b.get(p))


# ------------------------------------------------------------------ C05

def oracle_c05(m0, series, cfg, o, after, exp, names):
    """all-or-nothing per patch: tree = first k patches, k = names recorded, exit 0 iff everything applied"""
    v = []
    tags = tags_of(series, exp['fail'])
    tags.add('threads>1' if cfg.get('threads', 1) > 1 else 'threads=1')
    if not cfg.get('quiet', True):
        tags.add('verbose')
    c = cls(tags)
    if o.cls not in ('0', '1'):
        return [(c, o.cls, witness(m0, series, cfg, {'expected': 'exit 0 or 1', 'observed': o.cls, 'stderr': common.b2s(o.err[-600:])}))]
    applied = ws.applied_of(after)
    k = exp['k']
    tree = ws.tree_of(after)
    if exp['error']:
        # an I/O error, not a hunk failure: exit 1, and whatever is recorded must be what is on disk
        if o.cls != '1':
            v.append((c, 'exit-status', witness(m0, series, cfg, {'expected': 'exit 1 (unpatchable target)', 'observed': o.cls})))
        kp = len(applied)
        if applied != names[:kp] or kp > k:
            v.append((c, 'applied-patches', witness(m0, series, cfg, {'expected': 'a prefix of %r' % names[:k], 'observed': applied})))
        else:
            want = model_files_at(exp, m0, kp)
            if want is not None and tree != want:
                v.append((c, 'tree-differs-from-recorded-patches', witness(m0, series, cfg, {'expected': 'tree of the first %d patches' % kp, 'observed': 'differs at %r' % diff_paths(tree, want), 'applied': applied})))
        return v
    if (o.cls == '0') != (k == len(series)):
        v.append((c, 'exit-status', witness(m0, series, cfg, {'expected': '0' if k == len(series) else '1', 'observed': o.cls, 'stderr': common.b2s(o.err[-400:])})))
    if applied != names[:k]:
        v.append((c, 'applied-patches', witness(m0, series, cfg, {'expected': names[:k], 'observed': applied})))
    want = exp['model'].files()
    if tree != want:
        d = diff_paths(tree, want)
        v.append((c, 'tree', witness(m0, series, cfg, {'expected': 'tree after the first %d patches' % k, 'observed': 'differs at %r' % d,
                                                            'detail': {p: [common.b2s(tree.get(p, (None,))[0]), common.b2s(want.get(p, (None,))[0])] for p in d[:3]}})))
    else:
        # emptied directories disappear (as patch/quilt do); a directory may stay only because a reject lives in it
        wantd = {d + '/' for d in exp['model'].dirs()}
        gotd = set(ws.dirs_of(after))
        rej_dirs = set()
        for r in ws.rejects_of(after):
            while '/' in r:
                r = r.rsplit('/', 1)[0]
                rej_dirs.add(r + '/')
        if (gotd - rej_dirs) != (wantd - rej_dirs) or not wantd <= gotd:
            v.append((c, 'directories', witness(m0, series, cfg, {'expected': sorted(wantd), 'observed': sorted(gotd)})))
    return v


# ------------------------------------------------------------------ C13

def oracle_c13(m0, series, cfg, o, after, exp, names):
    """reject files = exactly the failed hunks of the failing patch"""
    v = []
    tags = tags_of(series, exp['fail'])
    tags.add('threads>1' if cfg.get('threads', 1) > 1 else 'threads=1')
    c = cls(tags)
    if o.cls not in ('0', '1'):
        return [(c, o.cls, witness(m0, series, cfg, {'expected': 'exit 0 or 1', 'observed': o.cls, 'stderr': common.b2s(o.err[-600:])}))]
    if exp['error']:
        return v
    rej = ws.rejects_of(after)
    got = {p[:-4] for p in rej}
    req, perm = exp['rej_required'], exp['rej_permitted']
    if not (req <= got and got <= perm):
        v.append((c, 'reject-set', witness(m0, series, cfg, {'expected': {'required': sorted(req), 'permitted': sorted(perm)}, 'observed': sorted(got)})))
        return v
    if not got:
        return v
    root = os.path.join(wsweep.wdir(), 'ws')
    docs = wsweep.describe_patches([os.path.join(root, p) for p in sorted(rej)])
    for p in sorted(rej):
        target = p[:-4]
        d = docs.get(os.path.join(root, p))
        entries = exp['rej_hunks'].get(target, [])
        if len(entries) != 1:
            continue  # two failing entries for one file: out of this model's scope (KF duplicate reject is checked separately)
        fp, hunks = entries[0]
        if not d or not d.get('ok'):
            v.append((c, 'reject-unparseable', witness(m0, series, cfg, {'reject': p, 'content': common.b2s(rej[p]), 'observed': d})))
            continue
        fps = d['file_patches']
        if len(fps) != 1:
            v.append((c, 'reject-file-patches', witness(m0, series, cfg, {'reject': p, 'content': common.b2s(rej[p]), 'observed': len(fps)})))
            continue
        names_in = {common.s2b(x).decode(errors='replace') for x in (fps[0]['old'], fps[0]['new']) if x is not None}
        # written with strip 0 after the names were stripped: the target itself must be named
        if target not in names_in:
            v.append((c, 'reject-names', witness(m0, series, cfg, {'reject': p, 'expected': target, 'observed': sorted(names_in)})))
        got_h = [(h['old_start'], [common.s2b(x) for x in h['old']], h['new_start'], [common.s2b(x) for x in h['new']]) for h in fps[0]['hunks']]
        want_h = [(a, list(b), c2, list(d2)) for (a, b, c2, d2) in hunks]
        if got_h != want_h:
            v.append((c, 'reject-hunks', witness(m0, series, cfg, {'reject': p, 'content': common.b2s(rej[p]), 'expected': repr(want_h), 'observed': repr(got_h)})))
    return v


# ------------------------------------------------------------------ C08

def expected_backups(exp, names, cfg, nseries, first=0):
    """{'.pc/<patch>/<file>': (bytes, mode)} the run must have produced"""
    mode = cfg.get('backup') or 'onfail'
    k = exp['k']
    if mode == 'never' or (mode == 'onfail' and first + k == nseries):
        return {}
    cnt = cfg.get('backup_count')
    if cnt is None:
        cnt = 100
    lo = first + (0 if cnt == 'all' else max(0, k - int(cnt)))
    out = {}
    for (i, pm, files) in exp['pre']:
        if i < lo:
            continue
        for f in files:
            key = '.pc/%s/%s' % (names[i], f)
            if key in out:
                continue
            if f in pm.t:
                lines, md = pm.t[f]
                out[key] = (b''.join(l + b'\n' for l in lines), 0o644 if md is None else md)
            else:
                out[key] = (b'', 0o644)
    return out


def oracle_c08(m0, series, cfg, o, after, exp, names, first=0):
    v = []
    tags = tags_of(series, exp['fail'])
    tags.add('threads>1' if cfg.get('threads', 1) > 1 else 'threads=1')
    tags.add('backup=%s' % (cfg.get('backup') or 'default'))
    c = cls(tags)
    if o.cls not in ('0', '1'):
        return [(c, o.cls, witness(m0, series, cfg, {'expected': 'exit 0 or 1', 'observed': o.cls, 'stderr': common.b2s(o.err[-600:])}))]
    if exp['error']:
        return v
    pc = ws.pc_of(after)
    applied = ws.applied_of(after)
    if applied != names[:first + exp['k']]:
        v.append((c, 'applied-patches', witness(m0, series, cfg, {'expected': names[:first + exp['k']], 'observed': applied})))
    gotb = {p: x for p, x in pc.items() if p != '.pc/applied-patches'}
    wantb = expected_backups(exp, names, cfg, len(series), first)
    if gotb != wantb:
        d = diff_paths(gotb, wantb)
        v.append((c, 'backup-files', witness(m0, series, cfg, {'expected': {p: [common.b2s(wantb[p][0]), oct(wantb[p][1])] if p in wantb else None for p in d[:4]},
                                                                     'observed': {p: [common.b2s(gotb[p][0]), oct(gotb[p][1])] if p in gotb else None for p in d[:4]}})))
    elif (cfg.get('backup_count') == 'all') and wantb:
        # simulated pop: restoring the backups newest first must recreate the pre-push tree
        tree = dict(ws.tree_of(after))
        for i in reversed(range(first, first + exp['k'])):
            pre = '.pc/%s/' % names[i]
            for p, (data, md) in gotb.items():
                if p.startswith(pre):
                    f = p[len(pre):]
                    if data == b'':
                        tree.pop(f, None)
                    else:
                        tree[f] = (data, md)
        start = (exp['pre'][0][1] if exp['pre'] else exp['model']).files()
        # zero-length backups mean "did not exist": a file that really was empty before cannot be told apart (quilt's format)
        start_cmp = {p: x for p, x in start.items() if x[0] != b''}
        tree_cmp = {p: x for p, x in tree.items() if x[0] != b''}
        if tree_cmp != start_cmp:
            v.append((c, 'pop-does-not-restore', witness(m0, series, cfg, {'observed': 'differs at %r' % diff_paths(tree_cmp, start_cmp)})))
    return v


ORACLES = {'C05': oracle_c05, 'C13': oracle_c13, 'C08': oracle_c08}


def series_case(task):
    """one (property, m0, series, cfg) case: run and judge"""
    prop, m0, series, cfg = task
    names = tq.names_for(series)
    prior = cfg.get('prior', 0)
    if prior:
        # state produced by a real earlier push of the first `prior` patches (no backups), then the run under test
        pexp = tq.expectation(m0, series, 0, prior)
        if pexp['k'] != prior:
            return {'evals': 0}
        root = os.path.join(wsweep.wdir(), 'ws')
        files, patches, lines = tq.workspace_of(m0, series, names)
        ws.make_ws(root, files, patches, lines)
        o0 = ws.run_rq(root, [str(prior), '-q', '--backup', 'never'], threads=1)
        if o0.cls != '0':
            return {'evals': 1, 'violations': [(cls(tags_of(series)), 'prior-push-failed:' + o0.cls, witness(m0, series, cfg))]}
        tr = os.path.join(wsweep.wdir(), 'trace')
        o = ws.run_rq(root, wsweep.cfg_args(cfg), threads=cfg.get('threads', 1), trace=tr)
        after = ws.snapshot(root)
        exp = tq.expectation(pexp['model'], series, prior)
        viol = ORACLES[prop](m0, series, cfg, o, after, exp, names, prior)
    else:
        o, before, after = wsweep.run_series(m0, series, cfg, names=names)
        exp = tq.expectation(m0, series)
        viol = ORACLES[prop](m0, series, cfg, o, after, exp, names)
    out = {'evals': 1, 'violations': viol, 'outcomes': {'exit-' + o.cls: 1, 'k=%d/%d' % (exp['k'], len(series)): 1}}
    nontrivial = exp['fail'] is not None or len(series) > 1 or any(fp.dev for p in series for fp in p.fps)
    out['nontrivial'] = 1 if nontrivial else 0
    return out


def sweep(prop, res, m0, series_list, cfgs, key, sample_every=997):
    tasks = [(prop, m0, s, cfg) for s in series_list for cfg in cfgs]
    acc = wsweep.Acc(res)
    results = wsweep.pmap(series_case, tasks)
    for i, r in enumerate(results):
        if i % sample_every == 0 and len(acc.samples) < 6 and r.get('evals'):
            _, _, s, cfg = tasks[i]
            r = dict(r)
            r['sample'] = {'series': tq.describe_series(s), 'args': wsweep.cfg_args(cfg), 'threads': cfg.get('threads', 1), 'outcome': sorted(r.get('outcomes', {}))}
        acc.add(r)
    acc.finish(key)
    return acc
