"""Model-based oracles of the CLI-level sweeps (toy quilt vs. the real binary): C05, C08, C13 and the
CLI parts of C04, C11, C20."""
import os

import common
import toyquilt as tq
import ws
import wsweep
from wsweep import cls, tags_of, witness


def model_files_at(exp, m0, kprime):
    """tracked files after the first kprime patches of the run"""
    if kprime == exp['k']:
        return exp['model'].files()
    if kprime < len(exp['pre']):
        return exp['pre'][kprime][1].files()
    return None


def diff_paths(a, b):
    return sorted(p for p in set(a) | set(b) if a.get(p) != b.get(p))


# ------------------------------------------------------------------ C05

def oracle_c05(m0, series, cfg, o, after, exp, names):
    """all-or-nothing per patch: tree = first k patches, k = names recorded, exit 0 iff everything applied"""
    v = []
    tags = tags_of(series, exp['fail'])
    tags.add('threads>1' if cfg.get('threads', 1) > 1 else 'threads=1')
    if not cfg.get('quiet', True):
        tags.add('verbose')
    c = cls(tags)
    if o.cls not in ('0', '1'):
        return [(c, o.cls, witness(m0, series, cfg, {'expected': 'exit 0 or 1', 'observed': o.cls, 'stderr': common.b2s(o.err[-600:])}))]
    applied = ws.applied_of(after)
    k = exp['k']
    tree = ws.tree_of(after)
    if exp['error']:
        # an I/O error, not a hunk failure: exit 1, and whatever is recorded must be what is on disk
        if o.cls != '1':
            v.append((c, 'exit-status', witness(m0, series, cfg, {'expected': 'exit 1 (unpatchable target)', 'observed': o.cls})))
        kp = len(applied)
        if applied != names[:kp] or kp > k:
            v.append((c, 'applied-patches', witness(m0, series, cfg, {'expected': 'a prefix of %r' % names[:k], 'observed': applied})))
        else:
            want = model_files_at(exp, m0, kp)
            if want is not None and tree != want:
                v.append((c, 'tree-differs-from-recorded-patches', witness(m0, series, cfg, {'expected': 'tree of the first %d patches' % kp, 'observed': 'differs at %r' % diff_paths(tree, want), 'applied': applied})))
        return v
    if (o.cls == '0') != (k == len(series)):
        v.append((c, 'exit-status', witness(m0, series, cfg, {'expected': '0' if k == len(series) else '1', 'observed': o.cls, 'stderr': common.b2s(o.err[-400:])})))
    if applied != names[:k]:
        v.append((c, 'applied-patches', witness(m0, series, cfg, {'expected': names[:k], 'observed': applied})))
    want = exp['model'].files()
    if tree != want:
        d = diff_paths(tree, want)
        v.append((c, 'tree', witness(m0, series, cfg, {'expected': 'tree after the first %d patches' % k, 'observed': 'differs at %r' % d,
                                                            'detail': {p: [common.b2s(tree.get(p, (None,))[0]), common.b2s(want.get(p, (None,))[0])] for p in d[:3]}})))
    else:
        # emptied directories disappear (as patch/quilt do); a directory may stay only because a reject lives in it
        wantd = {d + '/' for d in exp['model'].dirs()}
        gotd = set(ws.dirs_of(after))
        rej_dirs = set()
        for r in ws.rejects_of(after):
            while '/' in r:
                r = r.rsplit('/', 1)[0]
                rej_dirs.add(r + '/')
        if (gotd - rej_dirs) != (wantd - rej_dirs) or not wantd <= gotd:
            v.append((c, 'directories', witness(m0, series, cfg, {'expected': sorted(wantd), 'observed': sorted(gotd)})))
    return v


# ------------------------------------------------------------------ C13

def oracle_c13(m0, series, cfg, o, after, exp, names):
    """reject files = exactly the failed hunks of the failing patch"""
    v = []
    tags = tags_of(series, exp['fail'])
    tags.add('threads>1' if cfg.get('threads', 1) > 1 else 'threads=1')
    c = cls(tags)
    if o.cls not in ('0', '1'):
        return [(c, o.cls, witness(m0, series, cfg, {'expected': 'exit 0 or 1', 'observed': o.cls, 'stderr': common.b2s(o.err[-600:])}))]
    if exp['error']:
        return v
    rej = ws.rejects_of(after)
    got = {p[:-4] for p in rej}
    req, perm = exp['rej_required'], exp['rej_permitted']
    if not (req <= got and got <= perm):
        v.append((c, 'reject-set', witness(m0, series, cfg, {'expected': {'required': sorted(req), 'permitted': sorted(perm)}, 'observed': sorted(got)})))
        return v
    if not got:
        return v
    root = os.path.join(wsweep.wdir(), 'ws')
    docs = wsweep.describe_patches([os.path.join(root, p) for p in sorted(rej)])
    for p in sorted(rej):
        target = p[:-4]
        d = docs.get(os.path.join(root, p))
        entries = exp['rej_hunks'].get(target, [])
        if not entries:
            continue
        if not d or not d.get('ok'):
            v.append((c, 'reject-unparseable', witness(m0, series, cfg, {'reject': p, 'content': common.b2s(rej[p]), 'observed': d})))
            continue
        fps = d['file_patches']
        # one section per failing entry of the patch for this file (normally one), in the order of the patch
        if len(fps) != len(entries):
            v.append((c, 'reject-file-patches', witness(m0, series, cfg, {'reject': p, 'content': common.b2s(rej[p]), 'expected': len(entries), 'observed': len(fps)})))
            continue
        for sect, (fp, hunks) in zip(fps, entries):
            names_in = {common.s2b(x).decode(errors='replace') for x in (sect['old'], sect['new']) if x is not None}
            # written with strip 0 after the names were stripped: the target itself must be named
            if target not in names_in:
                v.append((c, 'reject-names', witness(m0, series, cfg, {'reject': p, 'expected': target, 'observed': sorted(names_in)})))
            got_h = [(h['old_start'], [common.s2b(x) for x in h['old']], h['new_start'], [common.s2b(x) for x in h['new']]) for h in sect['hunks']]
            want_h = [(a, list(b), c2, list(d2)) for (a, b, c2, d2) in hunks]
            if got_h != want_h:
                v.append((c, 'reject-hunks', witness(m0, series, cfg, {'reject': p, 'content': common.b2s(rej[p]), 'expected': repr(want_h), 'observed': repr(got_h), 'entries_for_this_file': len(entries)})))
    return v


# ------------------------------------------------------------------ C08

def expected_backups(exp, names, cfg, nseries, first=0):
    """{'.pc/<patch>/<file>': (bytes, mode)} the run must have produced"""
    mode = cfg.get('backup') or 'onfail'
    k = exp['k']
    if mode == 'never' or (mode == 'onfail' and first + k == nseries):
        return {}
    cnt = cfg.get('backup_count')
    if cnt is None:
        cnt = 100
    lo = first + (0 if cnt == 'all' else max(0, k - int(cnt)))
    out = {}
    for (i, pm, files) in exp['pre']:
        if i < lo:
            continue
        for f in files:
            key = '.pc/%s/%s' % (names[i], f)
            if key in out:
                continue
            if f in pm.t:
                lines, md = pm.t[f]
                out[key] = (b''.join(tq.eol(l) for l in lines), 0o644 if md is None else md)
            else:
                out[key] = (b'', None)   # a zero-length placeholder for "did not exist": its mode carries no meaning
    return out


def oracle_c08(m0, series, cfg, o, after, exp, names, first=0):
    v = []
    tags = tags_of(series, exp['fail'])
    tags.add('threads>1' if cfg.get('threads', 1) > 1 else 'threads=1')
    tags.add('backup=%s' % (cfg.get('backup') or 'default'))
    c = cls(tags)
    if o.cls not in ('0', '1'):
        return [(c, o.cls, witness(m0, series, cfg, {'expected': 'exit 0 or 1', 'observed': o.cls, 'stderr': common.b2s(o.err[-600:])}))]
    if exp['error']:
        return v
    pc = ws.pc_of(after)
    applied = ws.applied_of(after)
    if applied != names[:first + exp['k']]:
        v.append((c, 'applied-patches', witness(m0, series, cfg, {'expected': names[:first + exp['k']], 'observed': applied})))
    gotb = {p: x for p, x in pc.items() if p != '.pc/applied-patches'}
    wantb = expected_backups(exp, names, cfg, len(series), first)
    for p_, (data_, md_) in list(wantb.items()):
        if md_ is None:
            wantb[p_] = (data_, gotb[p_][1] if (p_ in gotb and gotb[p_][0] == b'') else 0o644)
    if gotb != wantb:
        d = diff_paths(gotb, wantb)
        v.append((c, 'backup-files', witness(m0, series, cfg, {'expected': {p: [common.b2s(wantb[p][0]), oct(wantb[p][1])] if p in wantb else None for p in d[:4]},
                                                                     'observed': {p: [common.b2s(gotb[p][0]), oct(gotb[p][1])] if p in gotb else None for p in d[:4]}})))
    elif (cfg.get('backup_count') == 'all') and wantb:
        # simulated pop: restoring the backups newest first must recreate the pre-push tree
        tree = dict(ws.tree_of(after))
        for i in reversed(range(first, first + exp['k'])):
            pre = '.pc/%s/' % names[i]
            for p, (data, md) in gotb.items():
                if p.startswith(pre):
                    f = p[len(pre):]
                    if data == b'':
                        tree.pop(f, None)
                    else:
                        tree[f] = (data, md)
        start = (exp['pre'][0][1] if exp['pre'] else exp['model']).files()
        # zero-length backups mean "did not exist": a file that really was empty before cannot be told apart (quilt's format)
        start_cmp = {p: x for p, x in start.items() if x[0] != b''}
        tree_cmp = {p: x for p, x in tree.items() if x[0] != b''}
        if tree_cmp != start_cmp:
            v.append((c, 'pop-does-not-restore', witness(m0, series, cfg, {'observed': 'differs at %r' % diff_paths(tree_cmp, start_cmp)})))
    return v


ORACLES = {'C05': oracle_c05, 'C13': oracle_c13, 'C08': oracle_c08}


def series_case(task):
    """one (property, m0, series, cfg) case: run and judge"""
    prop, m0, series, cfg = task
    names = tq.names_for(series)
    prior = cfg.get('prior', 0)
    if prior:
        # state produced by a real earlier push of the first `prior` patches (no backups), then the run under test
        pexp = tq.expectation(m0, series, 0, prior)
        if pexp['k'] != prior:
            return {'evals': 0}
        root = os.path.join(wsweep.wdir(), 'ws')
        files, patches, lines = tq.workspace_of(m0, series, names)
        ws.make_ws(root, files, patches, lines)
        o0 = ws.run_rq(root, [str(prior), '-q', '--backup', 'never'], threads=1)
        if o0.cls != '0':
            return {'evals': 1, 'violations': [(cls(tags_of(series)), 'prior-push-failed:' + o0.cls, witness(m0, series, cfg))]}
        tr = os.path.join(wsweep.wdir(), 'trace')
        o = ws.run_rq(root, wsweep.cfg_args(cfg), threads=cfg.get('threads', 1), trace=tr)
        after = ws.snapshot(root)
        exp = tq.expectation(pexp['model'], series, prior)
        viol = ORACLES[prop](m0, series, cfg, o, after, exp, names, prior)
    else:
        o, before, after = wsweep.run_series(m0, series, cfg, names=names)
        exp = tq.expectation(m0, series)
        viol = ORACLES[prop](m0, series, cfg, o, after, exp, names)
    out = {'evals': 1, 'violations': viol, 'outcomes': {'exit-' + o.cls: 1, 'k=%d/%d' % (exp['k'], len(series)): 1}}
    nontrivial = exp['fail'] is not None or len(series) > 1 or any(fp.dev for p in series for fp in p.fps)
    out['nontrivial'] = 1 if nontrivial else 0
    return out


def sweep(prop, res, m0, series_list, cfgs, key, sample_every=997):
    tasks = [(prop, m0, s, cfg) for s in series_list for cfg in cfgs]
    acc = wsweep.Acc(res)
    results = wsweep.pmap(series_case, tasks)
    for i, r in enumerate(results):
        if i % sample_every == 0 and len(acc.samples) < 6 and r.get('evals'):
            _, _, s, cfg = tasks[i]
            r = dict(r)
            r['sample'] = {'series': tq.describe_series(s), 'args': wsweep.cfg_args(cfg), 'threads': cfg.get('threads', 1), 'outcome': sorted(r.get('outcomes', {}))}
        acc.add(r)
    acc.finish(key)
    # determinism is checked, not assumed: every 97th case is executed again and must give identical observations
    probe = list(range(0, len(tasks), 97))
    again = wsweep.pmap(series_case, [tasks[i] for i in probe])
    strip = lambda r: (r.get('outcomes'), [(c, m) for c, m, _ in r.get('violations', [])])
    diff = [i for i, r2 in zip(probe, again) if strip(r2) != strip(results[i])]
    res.coverage[key]['determinism_probe'] = {'reexecuted': len(probe), 'differing': len(diff)}
    if diff:
        res.machinery_errors.append('nondeterministic outcome on re-execution of %d of %d probed cases (first: %s)' % (len(diff), len(probe), tq.describe_series(tasks[diff[0]][2])))
    return acc


# ------------------------------------------------------------------ CLI parts of C04, C11, C20

def oracle_c04(m0, series, cfg, o, after, exp, names, first=0):
    """rollback inside the driver (failing patch, backups): never aborts, tree and backups as the model says"""
    v = []
    seen = set()
    for c, mode, w in oracle_c05(m0, series, cfg, o, after, exp, names) + (oracle_c08(m0, series, cfg, o, after, exp, names, first) if o.cls in ('0', '1') else []):
        c = '+'.join(t for t in c.split('+') if not t.startswith('backup='))
        if (c, mode) not in seen:
            seen.add((c, mode))
            v.append((c, mode, w))
    return v


ORACLES['C04'] = oracle_c04


def run_c04(tier, seed, res):
    m0 = tq.initial()
    base = tq.with_patch_options(tq.enumerate_series(2, 2, allow_after_failure=1), 2)
    want = ('rename', 'renameH', 'createN', 'createB', 'deleteN', 'deleteB', 'partial', 'partialB', 'chmod', 'chmodH', '-R', 'fill')
    series = [s for s in base if wsweep.tags_of(s) & set(want)]
    if tier == 'quick':
        series = [s for s in series if any(not p.ok() for p in s) or any(p.reverse for p in s)]
    cfgs = [{'backup': 'always', 'backup_count': 'all', 'threads': t, 'quiet': True} for t in (1, 2)]
    acc = sweep('C04', res, m0, series, cfgs, 'cli_rollback_sweep')
    res.coverage['cli_rollback_series'] = len(series)
    # what a worker that ran ahead of the failing patch has to undo: the hand-picked series, parallel driver, both serial orders of the workers
    special = [s for s in tq.special_series(m0) if any(not p.ok() for p in s)]
    pcfgs = [{'backup': b, 'backup_count': 'all' if b == 'always' else None, 'threads': t, 'quiet': True, 'policy': pol} for b in ('always', 'never') for t in (2, 3) for pol in (None, 'high')]
    sweep('C04', res, m0, special, pcfgs, 'cli_rollback_of_workers_that_ran_ahead')


def fuzzy_series(m0):
    """all-success series that need fuzz: a context line of the hunk is wrong"""
    out = []
    for f in ('f', 'd/g'):
        for ctx in (1, 2, 3):
            for side in ('first', 'last'):
                m = m0.clone()
                fresh = tq.Fresh()
                lines, mode = m.t[f]
                src = list(lines)
                i = 3
                j = max(0, i - ctx) if side == 'first' else min(len(lines) - 1, i + ctx)
                src[j] = b'JUNK'
                h, _ = tq.mk_hunk(src, i, 'rep', fresh(), ctx)
                fp = tq.FP('fuzzy%d%s(%s)' % (ctx, side, f), f, f, [h], ok=True, apply=lambda mm: None)
                out.append([tq.Patch([tq.t_mod(m, fresh, 'e/i')]), tq.Patch([fp, tq.t_mod(m, fresh, 'd/h')])])
    return out


def c20_case(task):
    m0, series, huge = task
    d = wsweep.wdir()
    root = os.path.join(d, 'ws')
    names = tq.names_for(series)
    files, patches, lines = tq.workspace_of(m0, series, names)
    out = {'evals': 0, 'violations': [], 'outcomes': {}, 'nontrivial': 0}
    runs = []
    for fz in (0, 1, 2, 3) + ((1000, 4294967296, 9223372036854775807, 18446744073709551615, 18446744073709551616, 10 ** 30) if huge else ()):
        for threads in (1, 2):
            ws.make_ws(root, files, patches, lines)
            o = ws.run_rq(root, ['-a', '-q', '--backup', 'always', '--fuzz', str(fz)], threads=threads, trace=os.path.join(d, 'trace'))
            snap = ws.snapshot(root)
            runs.append((fz, threads, o.cls, (tuple(sorted(ws.tree_of(snap).items())), tuple(sorted(ws.pc_of(snap).items())), tuple(sorted(ws.rejects_of(snap).items())))))
    tags = cls(tags_of(series))
    for (f1, t1, c1, s1) in runs:
        if c1 != '0':
            continue
        for (f2, t2, c2, s2) in runs:
            if f2 <= f1 or t1 != t2:
                continue
            out['evals'] += 1
            out['nontrivial'] += 1
            out['outcomes']['applies-at-%d' % f1] = out['outcomes'].get('applies-at-%d' % f1, 0) + 1
            if c2 != '0' or s2 != s1:
                mode = c2 if c2 not in ('0', '1') else ('fails-at-higher-limit' if c2 != '0' else 'different-result-at-higher-limit')
                out['violations'].append((tags, mode, witness(m0, series, {'goal': ['-a'], 'quiet': True, 'backup': 'always', 'fuzz': f2, 'threads': t2},
                                                              {'expected': 'identical to the run with --fuzz %d (exit 0)' % f1, 'observed': 'exit %s' % c2}, names)))
    for (f1, t1, c1, s1) in runs:
        out['outcomes']['exit-%s-at-fuzz-%d' % (c1, f1)] = out['outcomes'].get('exit-%s-at-fuzz-%d' % (c1, f1), 0) + 1
    return out


def run_c20(tier, seed, res):
    m0 = tq.initial()
    base = tq.enumerate_series(2, 1) if tier == 'quick' else tq.enumerate_series(2, 2)
    series = [s for s in base if all(p.ok() for p in s)]
    if tier == 'quick':
        series = series[::3]
    series += fuzzy_series(m0)
    acc = wsweep.Acc(res)
    # "unaffected by any --fuzz value": absurdly large limits as well, for the fuzzy series and every 10th other one
    nfz = len(fuzzy_series(m0))
    tasks = [(m0, s, (i >= len(series) - nfz) or i % 10 == 0) for i, s in enumerate(series)]
    for i, r in enumerate(wsweep.pmap(c20_case, tasks)):
        if i % 97 == 0:
            r = dict(r)
            r['sample'] = {'series': tq.describe_series(tasks[i][1]), 'outcomes': r['outcomes']}
        acc.add(r)
    acc.finish('cli_fuzz_sweep')
    res.coverage['cli_series'] = len(series)


SERIES_TOKENS = [b'p1.patch', b'p1.patch -p1', b'p1.patch -p', b'p1.patch -pX', b'p1.patch -p99999999999999999999', b'p1.patch -p18446744073709551615', b'p1.patch -p4294967296', b'p1.patch -R', b'p1.patch -Rp1', b'p1.patch --bogus',
                 b'# comment', b'', b'   \t', b'\xff\xfe.patch', b'p\x00.patch', b'missing.patch', b'p1.patch extra words', b'-p1', b'p1.patch -p -1']


def c11_case(task):
    kind, payload, threads = task
    d = wsweep.wdir()
    root = os.path.join(d, 'ws')
    files = {'f': (b'a\nb\nc\n', 0o644), 'g': (b'', 0o644)}
    good = b'--- a/f\n+++ b/f\n@@ -1,3 +1,3 @@\n a\n-b\n+B\n c\n'
    if kind == 'ws':   # a whole generated workspace: (files, patches, series lines, class label, description)
        files, wpatches, wseries, wlabel, whow = payload
        ws.make_ws(root, files, wpatches, wseries)
        o = ws.run_rq(root, ['-a'], threads=threads, trace=os.path.join(d, 'trace'), timeout=300, mem_limit=1 << 30, cpu_limit=60)
        out = {'evals': 1, 'violations': [], 'outcomes': {kind + ':exit-' + o.cls: 1}, 'nontrivial': 1}
        if o.cls not in ('0', '1'):
            out['violations'].append((wlabel + ('+threads>1' if threads > 1 else '+threads=1'), o.cls,
                                      {'kind': 'generated', 'how': whow, 'args': ['-a'], 'threads': threads, 'expected': 'exit 0 or 1 (RLIMIT_AS 1 GiB, 60 s of processor time)', 'observed': o.cls, 'stderr': common.b2s(o.err[-300:])}))
        return out
    if kind == 'patch':
        label = None
        if isinstance(payload, tuple):   # (files, patch[, class label]): a workspace of its own
            files, payload = payload[0], payload[1]
            label = payload_label = None
            if len(task[1]) > 2:
                label = task[1][2]
        ws.make_ws(root, files, {'p1.patch': payload}, ['p1.patch'])
    else:
        ws.make_ws(root, files, {'p1.patch': good}, [])
        with open(os.path.join(root, 'series'), 'wb') as f:
            f.write(b''.join(l + b'\n' for l in payload))
    # the horizon is processor time (20 s; the slowest input needs 6), which does not depend on how busy the machine is; the wall clock
    # only guards against a process that sleeps forever
    o = ws.run_rq(root, ['-a'], threads=threads, trace=os.path.join(d, 'trace'), timeout=300, mem_limit=1 << 30, cpu_limit=20)
    out = {'evals': 1, 'violations': [], 'outcomes': {kind + ':exit-' + o.cls: 1}, 'nontrivial': 1 if o.cls == '0' else 0}
    if o.cls not in ('0', '1'):
        if kind == 'patch':
            s = payload.decode('latin-1')
            big = any(len(n) >= 10 for l in s.splitlines() if l.startswith('@@') for n in ''.join(c if c.isdigit() else ' ' for c in l).split())
            c = 'hunk-header-with-huge-number' if big else (label or 'token-sequence')
        else:
            c = 'series-file'
        out['violations'].append((c + ('+threads>1' if threads > 1 else '+threads=1'), o.cls,
                                  {'kind': 'cli', 'files': {k: [common.b2s(v[0]), v[1]] for k, v in files.items()}, 'patches': {'p1.patch': common.b2s(payload if kind == 'patch' else good)},
                                   'series': ['p1.patch'] if kind == 'patch' else [common.b2s(l) for l in payload], 'args': ['-a'], 'threads': threads, 'expected': 'exit 0 or 1', 'observed': o.cls,
                                   'stderr': common.b2s(o.err[-300:])}))
    return out


def read_dump(path):
    import struct
    out = []
    with open(path, 'rb') as f:
        data = f.read()
    i = 0
    while i < len(data):
        idx, n = struct.unpack_from('<II', data, i)
        out.append(data[i + 8:i + 8 + n])
        i += 8 + n
    return out


def run_c11(tier, seed, res):
    import itertools
    import subprocess
    d = wsweep.wdir('dump')
    inputs = []
    plan = [('seq2', 0, 10 ** 9, 1), ('edits', 0, 10 ** 9, 997 if tier == 'quick' else 97), ('grid', 0, 10 ** 9, 41 if tier == 'quick' else 5)]
    if tier != 'quick':
        plan.append(('seq3', 0, 10 ** 9, 7))
    sizes = {}
    for sp, a, b, step in plan:
        f = os.path.join(d, sp + '.bin')
        p = subprocess.run([common.RQMC, 'c11-dump', sp, str(a), str(b), str(step), f], stdout=subprocess.PIPE)
        got = read_dump(f)
        sizes[sp] = {'space': int(p.stdout.decode().strip() or 0), 'run': len(got), 'every': step}
        inputs += got
        os.unlink(f)
    # single-field extremes of the hunk header (each field over the whole grid, others fixed) - always in full
    grid = ['0', '1', '2', '2147483647', '2147483648', '4294967295', '4294967296', '2000000000000000000', '2305843009213693951', '9223372036854775807', '9223372036854775808', '18446744073709551615',
            '18446744073709551616', '1' + '0' * 30]
    for pos in range(4):
        for g in grid:
            fld = ['1', '3', '1', '3']
            fld[pos] = g
            inputs.append(('--- a/f\n+++ b/f\n@@ -%s,%s +%s,%s @@\n a\n-b\n+B\n c\n' % tuple(fld)).encode())
            # the same with a hunk that cannot match (the failure diagnostics then compute with these numbers)
            inputs.append(('--- a/f\n+++ b/f\n@@ -%s,%s +%s,%s @@\n a\n-X\n+B\n c\n' % tuple(fld)).encode())
    # a first hunk with an extreme line number whose lines are found at the top of the file, followed by an ordinary hunk
    for g in grid:
        inputs.append(('--- a/f\n+++ b/f\n@@ -%s,2 +%s,2 @@\n a\n-b\n+B\n@@ -3 +3 @@\n-c\n+C\n' % (g, g)).encode())
        inputs.append(('--- a/f\n+++ b/f\n@@ -%s,2 +%s,2 @@\n a\n-b\n+B\n@@ -3 +3 @@\n-X\n+C\n' % (g, g)).encode())
    # a failing hunk and a file that share many lookalike lines (the comparison hint of the diagnostics looks at all pairs of them)
    for n in (40, 150, 400):
        for line in (b'\n', b'}\n'):
            body = b' ' + line
            inputs.append(({'f': (line * n, 0o644)}, b'--- a/f\n+++ b/f\n@@ -1,%d +1,%d @@\n' % (n + 1, n) + body * (n // 2) + b'-x\n' + body * (n - n // 2), 'failing-hunk-of-lookalike-lines'))
    # a failing hunk with thousands of context lines (a full-context diff): the fuzz hint of the diagnostics has as many fuzz levels to try
    for n in (500, 4000):
        body = b''.join(b' l%d\n' % i for i in range(n // 2)) + b'-x\n+y\n' + b''.join(b' l%d\n' % i for i in range(n // 2, n))
        inputs.append(({'f': (b''.join(b'l%d\n' % i for i in range(n)), 0o644), 'keep': (b'k\n', 0o644)}, b'--- a/f\n+++ b/f\n@@ -1,%d +1,%d @@\n' % (n + 1, n + 1) + body, 'failing-hunk-with-thousands-of-context-lines'))
    # a failing hunk that replaces every line of a large file (no line in common): the comparison hint compares all pairs of lines
    n = 20000
    inputs.append(({'f': (b''.join(b'l%d\n' % i for i in range(n)), 0o644), 'keep': (b'k\n', 0o644)},
                   b'--- a/f\n+++ b/f\n@@ -1,%d +1,%d @@\n' % (n, n) + b''.join(b'-x%d\n' % i for i in range(n)) + b''.join(b'+y%d\n' % i for i in range(n)), 'failing-hunk-replacing-a-large-file'))
    # many small failing hunks against a file with a very long line (and against one with many long lines in front of the only
    # matching one): every failed hunk gets a comparison that quotes lines of the file, and the report is collected in memory
    longline = b'x' + b' ' * 1000000 + b'\n'
    inputs.append(({'f': (longline, 0o644), 'keep': (b'k\n', 0o644)}, b'--- a/f\n+++ b/f\n' + b'@@ -1 +1 @@\n-x\n+y\n' * 1500, 'many-failing-hunks-against-a-very-long-line'))
    many = b''.join(b'L%d ' % i + b'z' * 100000 + b'\n' for i in range(50)) + b'tail\n'
    ctx = b''.join(b' c%d\n' % i for i in range(50))
    inputs.append(({'f': (many, 0o644), 'keep': (b'k\n', 0o644)}, b'--- a/f\n+++ b/f\n' + (b'@@ -1,52 +1,52 @@\n' + ctx + b'-nope\n+y\n tail\n') * 300, 'many-failing-hunks-against-many-long-lines'))
    # failing hunks in systematic shapes of mismatch: the failure diagnostics (closest match, hints) of the default verbosity
    m_sh = tq.initial()
    for fp in tq.failing_shapes(m_sh, 'e/i'):
        # (on the file the shapes were derived from: a mismatch somewhere in otherwise matching lines)
        inputs.append(({'f': m_sh.files()['e/i'], 'g': (b'', 0o644)}, fp.text().replace(b'e/i', b'f'), 'failing-hunk-shape'))
    tasks = [('patch', inp, 1 + (i % 2)) for i, inp in enumerate(inputs)]
    # a failing patch with 1500 sections for one file behind 1500 patches (with long names) that each touched it: every failing
    # section lists the earlier patches that touched its file and tries out whether taking one of them back would help
    nn = 1500
    wp, wl, cur = {}, [], b'a'
    for i in range(nn):
        nm = 'p%04d-%s.patch' % (i, 'x' * 180)
        nxt = b'b' if cur == b'a' else b'a'
        wp[nm] = b'--- a/f\n+++ b/f\n@@ -1 +1 @@\n-' + cur + b'\n+' + nxt + b'\n'
        wl.append(nm)
        cur = nxt
    wp['last.patch'] = b'--- a/f\n+++ b/f\n@@ -1 +1 @@\n-zz\n+y\n' * nn
    wl.append('last.patch')
    for t in (1, 2):
        tasks.append(('ws', ({'f': (b'a\n', 0o644)}, wp, wl, 'failing-patch-with-many-sections-behind-many-patches-on-the-file', '%d patches (names of 190 bytes) that change the one line of f to and fro, then a patch with %d sections for f that all fail; default verbosity' % (nn, nn)), t))
    maxlen = 2 if tier == 'quick' else 3
    for l in range(1, maxlen + 1):
        for combo in itertools.product(SERIES_TOKENS, repeat=l):
            tasks.append(('series', list(combo), 1 + (len(tasks) % 2)))
    acc = wsweep.Acc(res)
    for i, r in enumerate(wsweep.pmap(c11_case, tasks)):
        if i % 1999 == 0:
            r = dict(r)
            r['sample'] = {'kind': tasks[i][0], 'input': common.b2s(tasks[i][1] if not isinstance(tasks[i][1], tuple) else tasks[i][1][1][:200]) if tasks[i][0] == 'patch' else [common.b2s(x) for x in tasks[i][1]], 'threads': tasks[i][2], 'outcome': sorted(r['outcomes'])}
        acc.add(r)
    acc.finish('cli_sweep')
    res.coverage['cli_spaces'] = sizes
    res.coverage['cli_series_file_tokens'] = len(SERIES_TOKENS)
    res.coverage['cli_rule'] = ('the real binary (default verbosity, RLIMIT_AS 1 GiB, a horizon of 20 s of processor time (RLIMIT_CPU; 300 s wall clock), threads alternating 1/2) on: every token sequence of length <= 2, every k-th element of the edit and grid '
                               'spaces (k as listed; the lib-level sweep runs them all), each hunk-header field alone over the full boundary grid, and every sequence of <= %d series-file lines over %d tokens '
                               '(option spellings incl. missing/garbage/overlong arguments, comments, blank and whitespace-only lines, non-UTF-8 and NUL bytes). Oracle: exit class 0 or 1.') % (maxlen, len(SERIES_TOKENS))


# ------------------------------------------------------------------ C02 at CLI level: --fuzz is honoured (and 0 by default)

def c02_cli_case(task):
    m0, need, series, fz, threads = task
    d = wsweep.wdir()
    root = os.path.join(d, 'ws')
    names = tq.names_for(series)
    files, patches, lines = tq.workspace_of(m0, series, names)
    ws.make_ws(root, files, patches, lines)
    args = ['-a', '-q', '--backup', 'never'] + ([] if fz is None else ['--fuzz', str(fz)])
    o = ws.run_rq(root, args, threads=threads, trace=os.path.join(d, 'trace'))
    snap = ws.snapshot(root)
    limit = 0 if fz is None else fz
    want_ok = limit >= need
    out = {'evals': 1, 'nontrivial': 1, 'violations': [], 'outcomes': {'needs-%d:limit-%s:exit-%s' % (need, 'default' if fz is None else fz, o.cls): 1}}
    tags = cls({'needs-fuzz-%d' % need, 'limit-%s' % ('default' if fz is None else fz)})
    w = lambda extra: witness(m0, series, {'goal': ['-a'], 'quiet': True, 'backup': 'never', 'fuzz': fz, 'threads': threads}, extra, names)
    if o.cls not in ('0', '1'):
        out['violations'].append((tags, o.cls, w({'observed': o.cls})))
    elif (o.cls == '0') != want_ok:
        out['violations'].append((tags, 'applied-beyond-the-fuzz-limit' if o.cls == '0' else 'refused-within-the-fuzz-limit',
                                  w({'expected': 'applies' if want_ok else 'fails (a context line differs, fuzz limit %d < %d needed)' % (limit, need), 'observed': 'exit ' + o.cls})))
    elif want_ok:
        # the fuzzy hunk replaced line 3 of its file and nothing else
        f = series[1].fps[0].old
        got = ws.tree_of(snap).get(f, (b'', 0))[0].split(b'\n')
        orig = files[f][0].split(b'\n')
        diff = [i for i in range(max(len(got), len(orig))) if (got[i] if i < len(got) else None) != (orig[i] if i < len(orig) else None)]
        if diff != [3]:
            out['violations'].append((tags, 'fuzzy-hunk-changed-other-lines', w({'expected': 'only line 4 of %s changes' % f, 'observed': diff})))
    return out


def run_c02_cli(tier, seed, res):
    m0 = tq.initial()
    tasks = []
    for s in fuzzy_series(m0):
        name = s[1].fps[0].name           # fuzzy<ctx><side>(file)
        body = s[1].fps[0].hunks[0].body
        pctx = next(i for i, (t, _) in enumerate(body) if t != ' ')
        sctx = next(i for i, (t, _) in enumerate(reversed(body)) if t != ' ')
        # the documented rule: at level f the longer context is cut to max(p,s)-f, the shorter one only as far as needed;
        # the wrong line is the outermost one of its side, so it goes as soon as that side loses one line
        need = max(pctx, sctx) - (pctx if 'first' in name else sctx) + 1
        for fz in (None, 0, 1, 2, 3):
            for threads in (1, 2):
                tasks.append((m0, need, s, fz, threads))
    acc = wsweep.Acc(res)
    for i, r in enumerate(wsweep.pmap(c02_cli_case, tasks)):
        if i % 37 == 0:
            r = dict(r)
            r['sample'] = {'series': tq.describe_series(tasks[i][2]), 'fuzz_limit': tasks[i][3], 'threads': tasks[i][4], 'outcome': sorted(r['outcomes'])}
        acc.add(r)
    acc.finish('cli_fuzz_limit')
