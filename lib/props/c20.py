"""C20 - raising the fuzz limit never breaks or changes an application that already succeeded."""
import common

NEEDS = ('rqmc', 'rq')


def run(tier, seed):
    res = common.Result('model_checking')
    args = ['4', '2', '4', '2'] if tier == 'quick' else ['5', '3', '5', '2']
    doc = common.run_engine_parts([common.RQMC, 'c20'] + args)
    common.merge_engine(res, doc)
    cov = res.coverage
    cov['bounds'] = {'c02_space': doc['c02_space'], 'c03_space': doc['c03_space'], 'fuzz_limits': doc['fuzz_limits']}
    cov['outcomes'] = doc['counters']
    try:
        import wsprops
        wsprops.run_c20(tier, seed, res)
    except ImportError:
        pass
    cov['rule'] = ('every (file, patch) of the C02 single-hunk space and the C03 two-hunk space, both directions, run at fuzz limits 0..3; for every pair F < F\' '
                   'where the patch applied completely at F: at F\' it must apply completely with identical content and identical per-hunk (line, offset, fuzz). '
                   'evaluations = pairs checked; non-trivial = pairs where F\' makes a fuzz level available that F did not')
    return res
