"""C11 - the patch parser (and the tool) is total: any bytes give a patch or an error, never a crash.

Lib level: token sequences, numeric grid and token edits of patch skeletons, run in shard subprocesses
under an address-space limit and a watchdog (rqmc c11). CLI level: lib/wsprops (real binary, series file tokens)."""
import common

NEEDS = ('rqmc', 'rq')


def run(tier, seed):
    res = common.Result('model_checking')
    doc = common.run_engine_lines([common.RQMC, 'c11', '4' if tier == 'quick' else '5', '1', '1'])
    common.merge_engine(res, doc)
    cov = res.coverage
    cov['spaces'] = doc['spaces']
    cov['tokens'] = doc['tokens']
    cov['tokens_second_alphabet'] = doc.get('tokens_b')
    cov['outcomes'] = doc['counters']
    if doc.get('capped'):
        cov['exhaustive'] = False
        cov['cap'] = 'a shard was abandoned after too many abnormal terminations; cases-not-run-after-restart-cap=%s' % doc['counters'].get('cases-not-run-after-restart-cap')
    try:
        import wsprops
        wsprops.run_c11(tier, seed, res)
    except ImportError:
        pass
    cov['rule'] = ('(a) all sequences of %d whole-line tokens up to the stated length - and the same over a second alphabet of exotic spellings (quoted names with escapes, CRLF, trailing blanks, odd headers; size in tokens_second_alphabet) -, the last token also without its final newline; (b) full 14^4 grid of '
                   'hunk-header numbers {0,1,2,2^31-1,2^31,2^32-1,2^32,2*10^18,2^61-1,2^63-1,2^63,2^64-1,2^64,10^30} x 3 bodies; (c) 5 patch skeletons with every combination of up to 2 '
                   'token edits. Each input is parsed with strip 0/1/5 and, if it parses, every file patch is applied and rolled back on an empty, an absent and a '
                   '3-line file at fuzz 0 and 2 in both directions. Oracle: no panic, abort, hang (2 s watchdog) and no allocation above 64*|input|+1MiB. '
                   'non-trivial = inputs that parse to at least one file patch') % doc['tokens']
    res.assumptions = ['arbitrary bytes that are not whole-line tokens are not enumerated (the repository\'s libFuzzer target samples that space)',
                       'shard subprocesses run under RLIMIT_AS 4 GiB; single allocations above 1 GiB are refused by the harness allocator (abort = violation)']
    if cov.get('evaluations', 0) < 100000:
        res.machinery_errors.append('vacuous')
    return res
