"""C08 - quilt metadata is exact: backups allow popping, applied-patches matches the tree (CLI level)."""
import common
import toyquilt as tq
import wsprops

NEEDS = ('rq', 'rqmc')


def run(tier, seed):
    res = common.Result('model_checking')
    m0 = tq.initial()
    q, d = (3, 1) if tier == 'quick' else (4, 1)
    chains = tq.with_patch_options(tq.enumerate_series(q, d, allow_after_failure=0, plain_files={'f'}), d)
    # keep chains whose patches mostly touch f (several patches on one file), plus everything with <= 2 file patches
    seen, uniq = set(), []
    for s in chains + (tq.enumerate_series(2, 1) if tier == 'quick' else tq.enumerate_series(2, 2)) + tq.special_series(m0):
        k = tq.describe_series(s)
        if k not in seen:
            seen.add(k)
            uniq.append(s)
    cfgs = []
    for backup in ('always', 'onfail', 'never'):
        for cnt in ((None, 'all', 0, 1, 2) if backup != 'never' else (None,)):
            for threads in (1, 2):
                cfgs.append({'backup': backup, 'backup_count': cnt, 'threads': threads, 'quiet': True})
    if tier == 'quick':
        cfgs = [c for c in cfgs if (c['backup'] == 'always' and c['backup_count'] in (None, 'all', 1)) or (c['backup'] == 'onfail' and c['backup_count'] in (None, 0))
                or (c['backup'] == 'never' and c['threads'] == 1)]
    wsprops.sweep('C08', res, m0, uniq, cfgs, 'sweep')
    # prior applied state produced by a real earlier push
    multi = [s for s in uniq if len(s) >= 2]
    pc = [{'backup': 'always', 'backup_count': cnt, 'threads': t, 'quiet': True, 'prior': j} for cnt in ('all', 1) for t in ((1, 2) if tier != 'quick' else (2,)) for j in (1, 2)]
    wsprops.sweep('C08', res, m0, [s for s in multi if len(s) >= 2], pc, 'sweep_with_prior_state')
    cov = res.coverage
    cov['series'] = len(uniq)
    cov['configs'] = len(cfgs) + len(pc)
    cov['rule'] = ('chains of up to %d file patches with plain modifications only on f (several patches touching one file, several entries for one file in a patch) and <= %d '
                   'deviation (create/delete/rename/mode change/partial failure/-R/-pN/empty patch), plus all series with <= 2 file patches and <= 2 deviations; x --backup '
                   '{always,onfail,never} x --backup-count {default,all,0,1,2} x threads {1,2}; and multi-patch series pushed on top of a prior applied prefix of 1 or 2 patches. '
                   'Oracle: every .pc/<patch>/<file> of the last N applied patches of this run equals the model content and mode before that patch (zero-length if absent), nothing '
                   'else under .pc, none for never / for onfail on success; with "all", restoring backups newest first recreates the start tree; applied-patches gains exactly the applied names') % (q, d)
    return res
