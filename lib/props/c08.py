"""C08 - quilt metadata is exact: backups allow popping, applied-patches matches the tree (CLI level)."""
import common
import toyquilt as tq
import wsprops

NEEDS = ('rq', 'rqmc')


def setid_case(task):
    """an ordinary user (root is exempt): a file with a set-user-ID / set-group-ID bit keeps it through a push, and so does its backup"""
    import os
    import rawcases as rc
    import ws
    import wsweep
    mode, threads, backup, fail_behind = task
    root = os.path.join(wsweep.wdir(), 'ws')
    files = {'f': (rc.lines(b'f'), mode), 'g': (rc.lines(b'g'), 0o644)}
    patches = {'p0.patch': rc.mod(b'f', b'f', 2, b'F2'), 'p1.patch': rc.mod(b'f', b'f', 4, b'F4')}
    lines = ['p0.patch', 'p1.patch']
    if fail_behind:
        patches['p2.patch'] = rc.mod(b'g', b'g', 2, b'X', bad=True)
        lines.append('p2.patch')
    ws.make_ws(root, files, patches, lines)
    for cur, dirs, fs in os.walk(root):
        for n in [''] + dirs + fs:
            os.chown(os.path.join(cur, n), 65534, 65534)
    os.chmod(os.path.join(root, 'f'), mode)   # (chown clears the bits)
    o = ws.run_rq(root, ['-a', '-q', '--backup', backup], threads=threads, as_nobody=True)
    snap = ws.snapshot(root)
    out = {'evals': 1, 'nontrivial': 1, 'violations': [], 'outcomes': {'setid:exit-' + o.cls: 1}}
    tags = wsweep.cls({'set-id-bit-as-ordinary-user', 'threads>1' if threads > 1 else 'threads=1', 'backup=' + backup})
    w = lambda extra: dict({'kind': 'cli', 'files': {k: [common.b2s(v[0]), v[1]] for k, v in files.items()}, 'patches': {k: common.b2s(v) for k, v in patches.items()}, 'series': lines,
                            'args': ['-a', '-q', '--backup', backup], 'threads': threads, 'series_desc': 'run as uid 65534, f has mode %o' % mode}, **extra)
    if o.cls != ('1' if fail_behind else '0'):
        out['violations'].append((tags, 'exit-status' if o.cls in ('0', '1') else o.cls, w({'expected': '1' if fail_behind else '0', 'observed': o.cls, 'stderr': common.b2s(o.err[-300:])})))
        return out
    want = {'f': mode}
    if backup == 'always':
        want.update({'.pc/p0.patch/f': mode, '.pc/p1.patch/f': mode})
    got = {p: (snap[p][2] if p in snap else None) for p in want}
    if got != want:
        out['violations'].append((tags, 'backup-files' if got.get('f') == mode else 'mode-of-the-patched-file', w({'expected': {k: oct(v) for k, v in want.items()}, 'observed': {k: (oct(v) if v is not None else None) for k, v in got.items()}})))
    return out


def no_final_newline_case(task):
    """.pc/applied-patches whose last line has no end (edited by hand): the names of this push still come one per line"""
    import os
    import rawcases as rc
    import ws
    import wsweep
    prior, threads, goal = task
    root = os.path.join(wsweep.wdir(), 'ws')
    files = {'f': (rc.lines(b'f'), 0o644)}
    names = ['p0.patch', 'p1.patch', 'p2.patch']
    patches = {n: rc.mod(b'f', b'f', 2 * i, b'F%d' % i) for i, n in enumerate(names)}
    ws.make_ws(root, files, patches, names)
    ws.run_rq(root, [str(prior), '-q', '--backup', 'never'], threads=1)
    ap = os.path.join(root, '.pc', 'applied-patches')
    data = open(ap, 'rb').read()
    open(ap, 'wb').write(data.rstrip(b'\n'))
    o = ws.run_rq(root, [goal, '-q', '--backup', 'never'], threads=threads)
    got = open(ap, 'rb').read()
    k = len(names) if goal == '-a' else min(len(names), prior + int(goal))
    want = b''.join(n.encode() + b'\n' for n in names[:k])
    out = {'evals': 1, 'nontrivial': 1, 'violations': [], 'outcomes': {'no-final-newline:exit-' + o.cls: 1}}
    if o.cls != '0' or got != want:
        out['violations'].append((wsweep.cls({'applied-patches-without-final-newline', 'threads>1' if threads > 1 else 'threads=1'}), 'applied-patches' if o.cls == '0' else 'exit-' + o.cls,
                                  {'kind': 'cli', 'files': {k_: [common.b2s(v[0]), v[1]] for k_, v in files.items()}, 'patches': {k_: common.b2s(v) for k_, v in patches.items()}, 'series': names,
                                   'applied_raw': common.b2s(data.rstrip(b'\n')), 'args': [goal, '-q', '--backup', 'never'], 'threads': threads,
                                   'series_desc': '%d patches applied, applied-patches without final newline, then push %s' % (prior, goal), 'expected': common.b2s(want), 'observed': common.b2s(got)}))
    return out


def run(tier, seed):
    res = common.Result('model_checking')
    m0 = tq.initial()
    q, d = (3, 1) if tier == 'quick' else (4, 1)
    chains = tq.with_patch_options(tq.enumerate_series(q, d, allow_after_failure=0, plain_files={'f'}), d)
    # keep chains whose patches mostly touch f (several patches on one file), plus everything with <= 2 file patches
    seen, uniq = set(), []
    # ... and every series of up to two file patches with one patch marked -R (its text inverted) or at another strip level:
    # the names under which the backups go are the names the files have before the patch, whichever way round the patch is written
    opts = [s for s in tq.with_patch_options(tq.enumerate_series(2, 1), 2) if any((p.reverse or (tier != 'quick' and p.strip != 1)) for p in s)]
    if tier == 'quick':   # quick: the reversed patch renames, creates or deletes, or has two names (where the names are what matters)
        opts = [s for s in opts if any(p.reverse and any(fp.name.startswith(('rename', 'create', 'delete', 'orig')) for fp in p.fps) for p in s)]
    for s in chains + (tq.enumerate_series(2, 1) if tier == 'quick' else tq.enumerate_series(2, 2)) + opts + tq.special_series(m0):
        k = tq.describe_series(s)
        if k not in seen:
            seen.add(k)
            uniq.append(s)
    cfgs = []
    for backup in ('always', 'onfail', 'never'):
        for cnt in ((None, 'all', 0, 1, 2) if backup != 'never' else (None,)):
            for threads in (1, 2):
                cfgs.append({'backup': backup, 'backup_count': cnt, 'threads': threads, 'quiet': True})
    if tier == 'quick':
        cfgs = [c for c in cfgs if (c['backup'] == 'always' and c['backup_count'] in (None, 'all', 1)) or (c['backup'] == 'onfail' and c['backup_count'] in (None, 0))
                or (c['backup'] == 'never' and c['threads'] == 1)]
    wsprops.sweep('C08', res, m0, uniq, cfgs, 'sweep')
    # prior applied state produced by a real earlier push
    multi = [s for s in uniq if len(s) >= 2]
    pc = [{'backup': 'always', 'backup_count': cnt, 'threads': t, 'quiet': True, 'prior': j} for cnt in ('all', 1) for t in ((1, 2) if tier != 'quick' else (2,)) for j in (1, 2)]
    wsprops.sweep('C08', res, m0, [s for s in multi if len(s) >= 2], pc, 'sweep_with_prior_state')
    import shutil
    import wsweep
    accn = wsweep.Acc(res)
    for r in wsweep.pmap(no_final_newline_case, [(prior, t, goal) for prior in (1, 2) for t in (1, 2) for goal in ('1', '-a')]):
        accn.add(r)
    accn.finish('applied_patches_without_final_newline')
    if shutil.which('setpriv'):
        acc = wsweep.Acc(res)
        for r in wsweep.pmap(setid_case, [(m, t, b, fb) for m in (0o4755, 0o2755, 0o6750, 0o755) for t in (1, 2) for b in ('always', 'never') for fb in (False, True)]):
            acc.add(r)
        acc.finish('set_id_bits_as_ordinary_user')
        res.coverage['set_id_bits_as_ordinary_user']['rule'] = ('the push runs as uid/gid 65534 on a workspace it owns; f has mode 4755 / 2755 / 6750 / 755 and is changed by two patches (a third one behind them '
                                                                'fails or not) x threads {1,2} x backups on/off: f and both backups of f carry the mode f had')
    cov = res.coverage
    cov['series'] = len(uniq)
    cov['configs'] = len(cfgs) + len(pc)
    cov['rule'] = ('chains of up to %d file patches with plain modifications only on f (several patches touching one file, several entries for one file in a patch) and <= %d '
                   'deviation (create/delete/rename/mode change/partial failure/-R/-pN/empty patch), plus all series with <= 2 file patches and <= 2 deviations; x --backup '
                   '{always,onfail,never} x --backup-count {default,all,0,1,2} x threads {1,2}; and multi-patch series pushed on top of a prior applied prefix of 1 or 2 patches. '
                   'Oracle: every .pc/<patch>/<file> of the last N applied patches of this run equals the model content and mode before that patch (zero-length if absent), nothing '
                   'else under .pc, none for never / for onfail on success; with "all", restoring backups newest first recreates the start tree; applied-patches gains exactly the applied names') % (q, d)
    return res
