"""C04 - undoing an application restores content, existence and permissions exactly.

Lib level: (a) apply->rollback over the C03 multi-hunk space, (b) history BFS over stacks of file patches
(creates, deletes, mode changes, partial failures) with LIFO rollback. CLI level: lib/ws sweeps (rollback inside the driver)."""
import common

NEEDS = ('rqmc', 'rq')


def run(tier, seed):
    res = common.Result('model_checking')
    args = ['4', '2', '1', '1'] if tier == 'quick' else ['5', '2', '2', '1']
    doc = common.run_engine_parts([common.RQMC, 'c04-pairs'] + args)
    common.merge_engine(res, doc)
    cov = res.coverage
    cov['pair_sweep'] = {'bounds': {k: doc[k] for k in ('max_file_len', 'max_context', 'max_fuzz_limit', 'triples', 'files')}, 'outcomes': doc['counters'], 'evaluations': doc['evaluations']}
    try:
        doc2 = common.run_engine_parts([common.RQMC, 'c04-bfs'] + (['3', '3'] if tier == 'quick' else ['4', '4']))
        common.merge_engine(res, doc2)
        cov['history_bfs'] = {k: doc2[k] for k in ('states', 'transitions', 'max_depth', 'menu_size', 'start_states') if k in doc2}
        cov['traces_validated_against_impl'] = doc2.get('transitions', 0)
    except KeyError:
        raise
    try:
        import wsprops
        wsprops.run_c04(tier, seed, res)
    except ImportError:
        pass
    cov['rule'] = ('(a) every case of the C03 space applied and rolled back; (b) BFS over stacks of file patches from start states '
                   '{content | empty | absent} x {no mode, 0644, 0755}: apply up to depth d patches from a menu derived from the current state, then roll back LIFO, '
                   'comparing with the recorded pre-state after every rollback; non-trivial = >= 2 hunks applied or partial application (a), every transition (b)')
    res.assumptions = ['rollback is called with the direction the patch was applied in (the API contract); what the driver passes is checked at CLI level']
    return res
