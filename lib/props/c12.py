"""C12 - write-then-parse preserves a parsed patch; writing is a fixed point (lib level)."""
import common

NEEDS = ('rqmc',)


def run(tier, seed):
    res = common.Result('model_checking')
    args = ['4', '4', '2'] if tier == 'quick' else ['5', '6', '3']
    doc = common.run_engine_parts([common.RQMC, 'c12'] + args)
    common.merge_engine(res, doc)
    cov = res.coverage
    cov['bounds'] = {k: doc[k] for k in ('token_seq_len', 'script_len_sigma2', 'script_len_nasty', 'dialects')}
    cov['outcomes'] = doc['counters']
    cov['rule'] = ('every input of the two C11 token-sequence spaces (main and exotic-spelling alphabet, length <= token_seq_len) and the token-edit space, and every reference diff of edit scripts '
                   '(length <= script_len over {a,b} / the nasty alphabet, all no-newline/absent flags, context 0/1/3) under each header dialect; inputs the parser '
                   'rejects are skipped. Oracle: write(p) parses; same number of file patches; per file patch same kind, names, rename flag, modes, hashes; '
                   'per hunk same old/new line sequences and start lines; write(parse(write(p))) == write(p). non-trivial = parsed inputs with >= 1 file patch')
    if doc['counters'].get('round-trips', 0) + doc['counters'].get('violating', 0) < 100000:
        res.machinery_errors.append('vacuous')
    return res
