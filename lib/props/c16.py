"""C16 - per-patch series options and file-name resolution are honoured consistently (CLI level)."""
import itertools
import os

import common
import toyquilt as tq
import ws
import wsweep

NEEDS = ('rq',)

LINES = [b'l0', b'l1', b'l2', b'l3']
BODY = b''.join(l + b'\n' for l in LINES)


# ---------------------------------------------------------------- part 1: option spellings and strip levels

def spellings(strip, rev):
    """every way getopts accepts to say -pN [-R] on a series line"""
    p = ['-p%d' % strip, '-p %d' % strip, '--strip=%d' % strip, '--strip %d' % strip]
    if not rev:
        out = list(p)
        if strip == 1:
            out.append('')
        return out
    r = ['-R', '--reverse']
    out = []
    for a in p:
        for b in r:
            out += ['%s %s' % (a, b), '%s %s' % (b, a)]
    out += ['-Rp%d' % strip, '-Rp %d' % strip]
    if strip == 1:
        out += r
    return out


def opt_case(task):
    strip, rev, spelling, depth, decor, threads, hdr = task
    d = wsweep.wdir()
    root = os.path.join(d, 'ws')
    # the target sits `depth` directories deep; the patch names carry `strip` extra leading components
    target = '/'.join(['t%d' % i for i in range(depth - 1)] + ['file'])
    pre = ''.join('s%d/' % i for i in range(strip))
    old, new = LINES, [LINES[0], b'CHANGED', LINES[2], LINES[3]]
    a, b = (new, old) if rev else (old, new)   # a -R entry carries the inverse diff
    files = {target: (BODY, 0o644)}
    want = {target: (b''.join(l + b'\n' for l in new), 0o644)}
    mod = b'@@ -1,4 +1,4 @@\n ' + a[0] + b'\n-' + a[1] + b'\n+' + b[1] + b'\n ' + a[2] + b'\n ' + a[3] + b'\n'
    if hdr == 'same':
        text = ('--- %s%s\n+++ %s%s\n' % (pre, target, pre, target)).encode() + mod
    elif hdr == 'orig':
        # only one of the names exists: the other side must be stripped by the same amount to be found absent
        o_, n_ = ((target, target + '.orig') if rev else (target + '.orig', target))
        text = ('--- %s%s\n+++ %s%s\n' % (pre, o_, pre, n_)).encode() + mod
    elif hdr == 'new-only':
        text = ('--- /dev/null\n+++ %s%s.new\n@@ -0,0 +1,2 @@\n+c0\n+c1\n' % (pre, target)).encode()
        want = {target: (BODY, 0o644), target + '.new': (b'c0\nc1\n', 0o644)}
    else:  # old-only
        text = ('--- %s%s\n+++ /dev/null\n@@ -1,4 +0,0 @@\n' % (pre, target)).encode() + b''.join(b'-' + l + b'\n' for l in LINES)
        files['keep'] = (b'k\n', 0o644)
        want = {'keep': (b'k\n', 0o644)}
    line = ('p1.patch ' + spelling).rstrip()
    lines = {'plain': [line], 'comments': ['# a comment', line, '#p9.patch -p7'], 'blank': ['', line, ''], 'spaces': ['   ', '\t', line, '  \t '], 'indented': ['  ' + line.replace(' ', '\t', 1) + '  '],
             # quilt cuts a series line at a '#' that follows whitespace: whatever the remark says, it is no option
             # comments are ignored whatever their encoding (a Latin-1 letter is not valid UTF-8)
             'latin1-comment-line': [b'# J\xf6rg: fixes', line.encode(), b'#\xff'], 'latin1-trailing-comment': [line.encode() + b' # J\xf6rg'],
             'trailing-comment': [line + ' # a remark'], 'trailing-comment-options': [line + '\t# was -p7 before; do not use -R --bogus'], 'trailing-comment-hash': [line + ' #-R']}[decor]
    ws.make_ws(root, files, {'p1.patch': text}, lines)
    o = ws.run_rq(root, ['-a', '-q', '--backup', 'never'], threads=threads, trace=os.path.join(d, 'trace'))
    snap = ws.snapshot(root)
    out = {'evals': 1, 'violations': [], 'outcomes': {'exit-' + o.cls: 1}, 'nontrivial': 1 if (rev or strip != 1 or decor != 'plain' or hdr != 'same') else 0}
    tags = wsweep.cls({'-p%d' % strip, 'spelling:' + (spelling or 'none'), 'series-file:' + decor, 'names:' + hdr} | ({'-R'} if rev else set()))
    w = lambda extra: dict({'kind': 'cli', 'files': {k: [common.b2s(v[0]), v[1]] for k, v in files.items()}, 'patches': {'p1.patch': common.b2s(text)}, 'series': [l if isinstance(l, str) else common.b2s(l) for l in lines], 'args': ['-a', '-q', '--backup', 'never'], 'threads': threads,
                            'series_desc': 'series line %r' % line}, **extra)
    got = ws.tree_of(snap)
    if o.cls != '0' or got != want or ws.applied_of(snap) != ['p1.patch']:
        mode = o.cls if o.cls not in ('0', '1') else ('option-not-honoured:exit-%s' % o.cls)
        out['violations'].append((tags, mode, w({'expected': 'patch applied with -p%d%s: %s' % (strip, ' reversed' if rev else '', sorted(want)), 'observed': 'exit %s, tree %r' % (o.cls, {k: common.b2s(v[0]) for k, v in got.items()}),
                                                'stderr': common.b2s(o.err[-300:])})))
    return out


BAD_STRIPS = ['-pfoo', '-p2R', '-p 1x', '--strip=-2', '--strip=1.5', '-p99999999999999999999', '-p18446744073709551616', '-p-1', '-R -pX']


def bad_strip_case(task):
    """a strip count that is no number: there is no -pN to honour, the push is refused and nothing is touched"""
    spelling, threads, pos = task
    d = wsweep.wdir()
    root = os.path.join(d, 'ws')
    # names with two leading components and files at every level: whatever count the tool might fall back to, it would hit a file
    files = {'file': (BODY, 0o644), 'b/file': (BODY, 0o644), 'a/b/file': (BODY, 0o644), 'g': (b'g0\ng1\n', 0o644)}
    text = b'--- a/b/file\n+++ a/b/file\n@@ -1,4 +1,4 @@\n l0\n-l1\n+CHANGED\n l2\n l3\n'
    good = b'--- a/g\n+++ b/g\n@@ -1,2 +1,2 @@\n-g0\n+G0\n g1\n'
    lines = ['p1.patch ' + spelling, 'good.patch'] if pos == 0 else ['good.patch', 'p1.patch ' + spelling]
    ws.make_ws(root, files, {'p1.patch': text, 'good.patch': good}, lines)
    before = ws.snapshot(root)
    o = ws.run_rq(root, ['-a', '-q', '--backup', 'never'], threads=threads, trace=os.path.join(d, 'trace'))
    after = ws.snapshot(root)
    out = {'evals': 1, 'violations': [], 'outcomes': {'bad-strip:exit-' + o.cls: 1}, 'nontrivial': 1}
    tags = wsweep.cls({'strip-count-is-not-a-number', 'spelling:' + spelling})
    w = lambda extra: dict({'kind': 'cli', 'files': {k: [common.b2s(v[0]), v[1]] for k, v in files.items()}, 'patches': {'p1.patch': common.b2s(text), 'good.patch': common.b2s(good)}, 'series': lines,
                            'args': ['-a', '-q', '--backup', 'never'], 'threads': threads, 'series_desc': 'series line %r' % lines[pos]}, **extra)
    if o.cls != '1' or before != after:
        changed = sorted(p for p in set(before) | set(after) if before.get(p) != after.get(p))
        out['violations'].append((tags, o.cls if o.cls not in ('0', '1') else 'applied-with-some-other-strip-count', w({'expected': 'exit 1, nothing touched', 'observed': 'exit %s, changed: %r' % (o.cls, changed), 'stderr': common.b2s(o.err[-300:])})))
    return out


def strip_corner_case(task):
    """corners of -pN and of the old/new choice: a "." among the components that are removed, an old name that -pN uses up
    completely, an old name that is a directory. Decoy files sit where a wrong count or a wrong choice would land."""
    label, old, new, strip, target, use_d, threads = task
    d = wsweep.wdir()
    root = os.path.join(d, 'ws')
    files = {p: (BODY, 0o644) for p in ('f', 'b/f', 'a/b/f', 'c/f', 'd/f')}
    files['sub/keep'] = (b'k\n', 0o644)
    text = ('--- %s\n+++ %s\n' % (old, new)).encode() + b'@@ -1,4 +1,4 @@\n l0\n-l1\n+CHANGED\n l2\n l3\n'
    patches, series = {'p1.patch': text}, ['p1.patch -p%d' % strip]
    if target is None:
        # a patch that is fine goes first: a push that is refused touches nothing, not even that
        patches['p0.patch'] = b'--- a/sub/keep\n+++ b/sub/keep\n@@ -1 +1 @@\n-k\n+K\n'
        series = ['p0.patch'] + series
    ws.make_ws(root, files, patches, series)
    o = ws.run_rq(root, ['-a', '-q', '--backup', 'never'], threads=threads, use_d=use_d, trace=os.path.join(d, 'trace'))
    got = ws.tree_of(ws.snapshot(root))
    want = dict(files)
    if target is not None:
        want[target] = (BODY.replace(b'l1\n', b'CHANGED\n'), 0o644)
    out = {'evals': 1, 'violations': [], 'outcomes': {'strip-corner:exit-' + o.cls: 1}, 'nontrivial': 1}
    tags = wsweep.cls({'strip-corner:' + label, '-p%d' % strip, 'with-d' if use_d else 'in-cwd'})
    if o.cls != ('0' if target is not None else '1') or got != want:
        changed = sorted(p for p in set(got) | set(want) if got.get(p) != files.get(p))
        out['violations'].append((tags, o.cls if o.cls not in ('0', '1') else ('not-applied' if o.cls == '1' else 'wrong-file-patched'),
                                  {'kind': 'cli', 'files': {k: [common.b2s(v[0]), v[1]] for k, v in files.items()}, 'patches': {k: common.b2s(v) for k, v in patches.items()}, 'series': series,
                                   'args': ['-a', '-q', '--backup', 'never'], 'threads': threads, 'series_desc': '%s: --- %s +++ %s at -p%d, %s' % (label, old, new, strip, 'with -d' if use_d else 'run inside of the workspace'),
                                   'expected': ('exit 0, %s patched' % target) if target is not None else 'exit 1, nothing touched (no name is left)', 'observed': 'exit %s, changed: %r' % (o.cls, changed), 'stderr': common.b2s(o.err[-300:])}))
    return out


def gnu_strip(name, n):
    """what -pN leaves of a name, the way patch(1) documents it: N times "everything up to and including the next run of slashes"; None if the name is used up"""
    i = 0
    for _ in range(n):
        j = name.find('/', i)
        if j < 0:
            return None
        while j < len(name) and name[j] == '/':
            j += 1
        i = j
    return name[i:]


def strip_grid_names(variants):
    """every name of 0..3 leading components over {d, e, .} in front of the file name f; with `variants` each joint also as a double slash"""
    import itertools
    out = []
    for n in range(0, 4):
        for comps in itertools.product(('d', 'e', '.'), repeat=n):
            for joints in (itertools.product(('/', '//'), repeat=n) if variants else [('/',) * n]):
                out.append(''.join(c + j for c, j in zip(comps, joints)) + 'f')
    return out


GRID_FILES = ['f'] + ['%s/f' % '/'.join(c) for n in (1, 2, 3) for c in __import__('itertools').product(('d', 'e'), repeat=n)]


def strip_grid_case(task):
    """the strip count, enumerated: a file f sits at every place over {d, e}^(<=3), all with the same lines, so that the hunk fits
    each of them and the tree shows which one -pN arrived at"""
    name, strip, rev, threads = task
    d = wsweep.wdir()
    root = os.path.join(d, 'ws')
    new_body = BODY.replace(b'l1\n', b'CHANGED\n')
    files = {p: ((new_body if rev else BODY), 0o644) for p in GRID_FILES}
    files['keep'] = (b'k\n', 0o644)
    text = ('--- %s\n+++ %s\n' % (name, name)).encode() + b'@@ -1,4 +1,4 @@\n l0\n-l1\n+CHANGED\n l2\n l3\n'
    # a patch that is fine goes first: a push that is refused touches nothing, not even that
    patches = {'p0.patch': b'--- a/keep\n+++ b/keep\n@@ -1 +1 @@\n-k\n+K\n', 'p1.patch': text}
    series = ['p0.patch', 'p1.patch -p%d%s' % (strip, ' -R' if rev else '')]
    ws.make_ws(root, files, patches, series)
    o = ws.run_rq(root, ['-a', '-q', '--backup', 'never'], threads=threads, trace=os.path.join(d, 'trace'))
    got = ws.tree_of(ws.snapshot(root))
    rest = gnu_strip(name, strip)
    target = None if rest is None else '/'.join(c for c in rest.split('/') if c not in ('', '.'))
    want = dict(files)
    if target is not None:
        want[target] = ((BODY if rev else new_body), 0o644)
        want['keep'] = (b'K\n', 0o644)
    out = {'evals': 1, 'violations': [], 'outcomes': {('strip-grid:used-up' if target is None else 'strip-grid:depth-%d' % target.count('/')) + ':exit-' + o.cls: 1}, 'nontrivial': 1}
    tags = wsweep.cls({'strip-grid', '-p%d' % strip, 'reverse' if rev else 'forward', 'name-used-up' if target is None else 'name-left',
                       'dot-component' if '/./' in '/' + name else 'plain-components', 'double-slash' if '//' in name else 'single-slashes', 'threads>1' if threads > 1 else 'threads=1'})
    if o.cls != ('0' if target is not None else '1') or got != want:
        changed = sorted(p for p in set(got) | set(files) if got.get(p) != files.get(p))
        out['violations'].append((tags, o.cls if o.cls not in ('0', '1') else ('not-applied' if o.cls == '1' else 'wrong-file-patched'),
                                  {'kind': 'cli', 'files': {k: [common.b2s(v[0]), v[1]] for k, v in files.items()}, 'patches': {k: common.b2s(v) for k, v in patches.items()}, 'series': series,
                                   'args': ['-a', '-q', '--backup', 'never'], 'threads': threads, 'series_desc': '--- %s +++ %s at -p%d%s' % (name, name, strip, ' -R' if rev else ''),
                                   'expected': ('exit 0, %s (and keep) patched' % target) if target is not None else 'exit 1, nothing touched (no name is left)', 'observed': 'exit %s, changed: %r' % (o.cls, changed), 'stderr': common.b2s(o.err[-300:])}))
    return out


STRIP_CORNERS = [
    # label, old name, new name, -pN, file that must be patched
    ('dot-among-the-stripped', 'x/./a/b/f', 'x/./a/b/f', 2, 'a/b/f'),
    ('dot-among-the-stripped', 'a/./d/f', 'b/./d/f', 2, 'd/f'),
    ('dot-among-the-stripped', '././c/f', '././c/f', 2, 'c/f'),
    ('dot-first', './x/a/b/f', './x/a/b/f', 2, 'a/b/f'),
    ('double-slash', 'x//y///a/b/f', 'x//y///a/b/f', 2, 'a/b/f'),
    ('dot-kept', 'x/a/./b/f', 'x/a/./b/f', 1, 'a/b/f'),
    ('old-name-used-up', 'a/f', 'b/c/f', 2, 'f'),
    ('old-name-used-up', 'f.orig', 'b/f', 1, 'f'),
    ('new-name-used-up', 'x/y/c/f', 'c', 2, 'c/f'),
    # nothing is left of either name: no file to patch, and certainly not the working directory
    ('all-names-used-up', 'f', 'f', 1, None),
    ('all-names-used-up', 'a/f', 'b/f', 2, None),
    ('all-names-used-up', '/dev/null', 'c', 1, None),
    ('old-name-is-a-directory', 'a/sub', 'b/f', 1, 'f'),
    ('old-name-is-a-directory', 'a/b', 'b/d/f', 1, 'd/f'),
]


# ---------------------------------------------------------------- part 2: which name is patched

STATES = ['on-disk', 'created-earlier', 'deleted-earlier', 'renamed-away', 'absent']


def setup_fp(name, state, other):
    """file patch text of the set-up patch that brings `name` into `state`; returns (text, exists_afterwards)"""
    nb = name.encode()
    if state == 'created-earlier':
        return b'--- /dev/null\n+++ b/' + nb + b'\n@@ -0,0 +1,4 @@\n' + b''.join(b'+' + l + b'\n' for l in LINES), True
    if state == 'deleted-earlier':
        return b'--- a/' + nb + b'\n+++ /dev/null\n@@ -1,4 +0,0 @@\n' + b''.join(b'-' + l + b'\n' for l in LINES), False
    if state == 'renamed-away':
        return b'diff --git a/' + nb + b' b/' + nb + b'.moved\nrename from ' + nb + b'\nrename to ' + nb + b'.moved\n', False
    return b'', state == 'on-disk'


def name_case(task):
    so, sn, kind, split, threads = task[:5]
    dot = len(task) > 5 and task[5]   # the set-up patch is a -p0 entry whose names are spelled ./name
    rev = len(task) > 6 and task[6]   # the entry is marked -R and written the other way round: the names keep their roles (only a rename swaps them)
    d = wsweep.wdir()
    root = os.path.join(d, 'ws')
    files = {'keep': (b'k\n', 0o644)}
    for name, st in (('o', so), ('n', sn)):
        if st in ('on-disk', 'deleted-earlier', 'renamed-away'):
            files[name] = (BODY, 0o644)
    t_o, o_exists = setup_fp('o', so, 'n')
    t_n, n_exists = setup_fp('n', sn, 'o')
    # every entry of the set-up patch gets its own diff --git line (a hunk-less rename entry is present)
    def gitline(t, nm):
        return t if (not t or t.startswith(b'diff --git')) else b'diff --git a/' + nm + b' b/' + nm + b'\n' + t
    p0 = gitline(t_o, b'o') + gitline(t_n, b'n')
    if kind == 'modify' and rev:
        body = b'@@ -1,4 +1,4 @@\n l0\n-CHANGED\n+l1\n l2\n l3\n'
    elif kind == 'modify':
        body = b'@@ -1,4 +1,4 @@\n l0\n-l1\n+CHANGED\n l2\n l3\n'
    elif kind == 'create':
        body = b'@@ -0,0 +1,2 @@\n+c0\n+c1\n'
    else:
        body = b'@@ -1,4 +0,0 @@\n' + b''.join(b'-' + l + b'\n' for l in LINES)
    p1 = b'--- a/o\n+++ b/n\n' + body
    # toy quilt: the old name if it currently exists, otherwise the new one
    target, exists = ('o', True) if o_exists else ('n', n_exists)
    model = {'keep': b'k\n'}
    if o_exists:
        model['o'] = BODY
    if n_exists:
        model['n'] = BODY
    for nm, st in (('o', so), ('n', sn)):
        if st == 'renamed-away':
            model[nm + '.moved'] = BODY
    if kind == 'modify':
        ok = exists
        if ok:
            model[target] = b'l0\nCHANGED\nl2\nl3\n'
    elif kind == 'create':
        # both names are real: on an existing file this is a context-free hunk adding lines at the very top
        ok = True
        model[target] = b'c0\nc1\n' + (BODY if exists else b'')
    else:
        ok = exists
        if ok:
            model[target] = b''   # both names given: the file is emptied, not removed
    patches, series = {}, []
    if p0:
        if dot:
            p0 = p0.replace(b' a/', b' ./').replace(b' b/', b' ./')
        patches['p0.patch'] = p0
        series.append('p0.patch -p0' if dot else 'p0.patch')
    patches['p1.patch'] = p1
    series.append('p1.patch -R' if rev else 'p1.patch')
    ws.make_ws(root, files, patches, series)
    tr = os.path.join(d, 'trace')
    if split and p0:
        o0 = ws.run_rq(root, ['1', '-q', '--backup', 'never'], threads=threads, trace=tr)
    o = ws.run_rq(root, ['-a', '-q', '--backup', 'never'], threads=threads, trace=tr)
    snap = ws.snapshot(root)
    got = {k: v[0] for k, v in ws.tree_of(snap).items()}
    out = {'evals': 1, 'violations': [], 'outcomes': {'target=%s:%s' % (target, 'applies' if ok else 'fails'): 1}, 'nontrivial': 1}
    tags = wsweep.cls({'old:' + so, 'new:' + sn, kind, 'split' if split else 'one-push', 'threads>1' if threads > 1 else 'threads=1'} | ({'set-up-patch-spelled-dot-slash'} if dot else set()) | ({'entry-marked-R'} if rev else set()))
    w = lambda extra: dict({'kind': 'cli', 'files': {k: [common.b2s(v[0]), v[1]] for k, v in files.items()}, 'patches': {k: common.b2s(v) for k, v in patches.items()}, 'series': series,
                            'before': [{'args': ['1', '-q', '--backup', 'never'], 'threads': threads}] if (split and p0) else [], 'args': ['-a', '-q', '--backup', 'never'], 'threads': threads,
                            'series_desc': 'old name %s, new name %s, %s' % (so, sn, kind)}, **extra)
    if o.cls not in ('0', '1'):
        out['violations'].append((tags, o.cls, w({'observed': o.cls, 'stderr': common.b2s(o.err[-300:])})))
        return out
    if (o.cls == '0') != ok:
        out['violations'].append((tags, 'exit-status', w({'expected': '0' if ok else '1', 'observed': o.cls, 'target': target})))
    if got != model:
        diff = sorted(p for p in set(got) | set(model) if got.get(p) != model.get(p))
        out['violations'].append((tags, 'wrong-file-patched', w({'expected': 'the patch goes to %r' % target, 'observed': {p: common.b2s(got.get(p)) for p in diff}})))
    rej = sorted(ws.rejects_of(snap))
    if not ok and rej not in ([], [target + '.rej']):
        out['violations'].append((tags, 'reject-for-the-wrong-name', w({'expected': target + '.rej', 'observed': rej})))
    return out


def run(tier, seed):
    res = common.Result('model_checking')
    tasks = []
    for strip in (0, 1, 2):
        for rev in (False, True):
            for sp in spellings(strip, rev):
                for decor in ('plain', 'comments', 'blank', 'spaces', 'indented', 'trailing-comment', 'trailing-comment-options', 'trailing-comment-hash', 'latin1-comment-line', 'latin1-trailing-comment'):
                    for depth in (1, 2, 3):
                        if tier == 'quick' and decor != 'plain' and depth != 2:
                            continue
                        tasks.append((strip, rev, sp, depth, decor, 1 if (len(tasks) % 2) else 2, 'same'))
    # each name is stripped on its own: header forms where only one of the names decides, strip 0..3 x depth 1..3
    for strip in (0, 1, 2, 3):
        for depth in (1, 2, 3):
            for hdr in ('same', 'orig', 'new-only', 'old-only'):
                for rev in ((False, True) if hdr in ('same', 'orig') else (False,)):
                    tasks.append((strip, rev, '-p%d' % strip + (' -R' if rev else ''), depth, 'plain', 1 + (strip + depth) % 2, hdr))
    acc = wsweep.Acc(res)
    for i, r in enumerate(wsweep.pmap(opt_case, tasks)):
        if i % 199 == 0:
            r = dict(r)
            r['sample'] = {'strip': tasks[i][0], 'reverse': tasks[i][1], 'spelling': tasks[i][2], 'path_depth': tasks[i][3], 'series_file': tasks[i][4]}
        acc.add(r)
    acc.finish('option_spellings')
    acc3 = wsweep.Acc(res)
    for r in wsweep.pmap(bad_strip_case, [(sp, t, pos) for sp in BAD_STRIPS for t in (1, 2) for pos in (0, 1)]):
        acc3.add(r)
    acc3.finish('strip_counts_that_are_no_numbers')
    acc4 = wsweep.Acc(res)
    for r in wsweep.pmap(strip_corner_case, [c + (use_d, t) for c in STRIP_CORNERS for use_d in (True, False) for t in (1, 2)]):
        acc4.add(r)
    acc4.finish('strip_and_choice_corners')
    res.coverage['strip_and_choice_corners']['rule'] = ('names with "." or "//" among or behind the components -pN removes (counted as written, like patch); an old (or new) name with fewer components than N; an old name that is a '
                                                       'directory: %d cases x with/without -d x threads {1,2}; decoy files at every place a miscount would land; exactly the stated file changes') % len(STRIP_CORNERS)
    acc5 = wsweep.Acc(res)
    gnames = strip_grid_names(tier != 'quick')
    gtasks = [(nm, strip, rev, t) for nm in gnames for strip in range(0, 5) for rev in ((False,) if tier == 'quick' else (False, True)) for t in ((1,) if tier == 'quick' else (1, 2))]
    for i, r in enumerate(wsweep.pmap(strip_grid_case, gtasks)):
        if i % 299 == 0:
            r = dict(r)
            r['sample'] = {'name': gtasks[i][0], 'strip': gtasks[i][1], 'reverse': gtasks[i][2], 'threads': gtasks[i][3], 'outcome': sorted(r['outcomes'])}
        acc5.add(r)
    acc5.finish('strip_grid')
    res.coverage['strip_grid']['rule'] = ('every name of 0..3 leading components over {d, e, .} in front of f (%d names%s) x -p0..-p4%s; a file f with the same lines at every one of the %d places over {d, e}^(<=3), behind a patch '
                                          'that applies. Expected by the rule of patch(1): N components go, a component ends with its run of slashes, "." is a component when counting and no place when looking the file up; '
                                          'exactly that file changes, or - nothing left of the name - exit 1 and nothing touched') % (len(gnames), ', each joint also as //' if tier != 'quick' else '', ' x -R x threads {1,2}' if tier != 'quick' else '', len(GRID_FILES))
    tasks2 = [(so, sn, kind, split, threads) for so in STATES for sn in STATES for kind in ('modify', 'create', 'delete') for split in (False, True) for threads in (1, 2)]
    # the same matrix with the set-up patch at -p0 and its names spelled ./o and ./n: "as left by earlier patches of the same run" whatever they called the file
    tasks2 += [(so, sn, kind, False, threads, True) for so in STATES for sn in STATES for kind in ('modify', 'create', 'delete') for threads in (1, 2)
               if so in ('created-earlier', 'deleted-earlier', 'renamed-away') or sn in ('created-earlier', 'deleted-earlier', 'renamed-away')]
    # the same matrix for an entry marked -R (modifying entries): -R turns the hunks round, not the roles of the two names
    tasks2 += [(so, sn, 'modify', split, threads, False, True) for so in STATES for sn in STATES for split in (False, True) for threads in (1, 2)]
    acc2 = wsweep.Acc(res)
    for i, r in enumerate(wsweep.pmap(name_case, tasks2)):
        if i % 59 == 0:
            r = dict(r)
            r['sample'] = {'old_name': tasks2[i][0], 'new_name': tasks2[i][1], 'kind': tasks2[i][2], 'split_push': tasks2[i][3], 'threads': tasks2[i][4], 'outcome': sorted(r['outcomes'])}
        acc2.add(r)
    acc2.finish('existence_matrix')
    cov = res.coverage
    cov['rule'] = ('(1) series lines: every spelling getopts accepts for -p0/-p1/-p2 (-pN, -p N, --strip=N, --strip N) alone and with -R/--reverse in either order, clustered -RpN, default -p1; between comment, '
                   'blank, whitespace-only lines, indented/tab-separated, followed by a trailing comment (also one that mentions options); strip counts that are no numbers (%s) are refused with nothing touched; target path depth 1..3; header forms where both / only the old / only the new name decide (same names, .orig-style, /dev/null on either side) x -p0..-p3; the patch names carry exactly N extra components and -R entries carry the inverse diff, so only the right '
                   'strip level and direction produce the expected tree. (2) existence matrix: old name x new name each in {on disk, created earlier this run, deleted earlier, renamed away, absent} x '
                   'kind {modify, create, delete} x {one push, split pushes} x threads {1,2}, the modifying entries also marked -R (hunks written the other way round; the names keep their roles); both files hold the same lines, so the hunk fits either and the tree shows which name was patched. Oracle: toy '
                   'quilt rule - the old name if it currently exists, otherwise the new name. non-trivial = all matrix runs and non-default option runs') % ', '.join(BAD_STRIPS)
    return res
