"""C18 - an output failure is never reported as success nor recorded as applied.

Fault enumeration on the real binary through the LD_PRELOAD shim: for every workload and driver, one run per
mutating libc call k (and per applicable errno) with exactly that call failing."""
import errno
import os
import re

import common
import fsmon
import toyquilt as tq
import ws
import wsweep

NEEDS = ('rq', 'shim')

DRIVERS = [('sequential', 1, None), ('parallel-low-first', 2, None), ('parallel-high-first', 2, 'high')]


def errnos_for(op):
    e = [errno.EIO]
    if op in ('write', 'mkdir', 'openw'):
        e.append(errno.ENOSPC)
    if op in ('openw', 'unlink'):
        e.append(errno.EACCES)
    return e


def names_file(stderr, path, root):
    """does the message name the failing path? any trailing part of the path (>= 1 component), delimited"""
    rel = os.path.relpath(path, root) if path.startswith('/') else path
    s = stderr.decode(errors='replace')
    # a directory operation made on behalf of an output file: naming that file (a path below the directory) is naming enough
    for quoted in re.findall(r'"([^"]+)"', s):
        q = os.path.normpath(os.path.join(root, quoted))
        if (q + '/').startswith(os.path.normpath(path if path.startswith('/') else os.path.join(root, path)) + '/'):
            return True
    comps = [c for c in rel.split('/') if c not in ('', '.')]
    for i in range(len(comps)):
        frag = '/'.join(comps[i:])
        if re.search(r'(^|[\s"\'/:(])' + re.escape(frag) + r'($|[\s"\'/:.,)])', s):
            return True
    return False


def run_once(root, files, patches, lines, cfg, threads, policy, log, fault=None, short=None, readdir=None):
    ws.make_ws(root, files, patches, lines)
    if os.path.exists(log):
        os.unlink(log)
    env = fsmon.env(log, fail_at=fault[0] if fault else None, errno_=fault[1] if fault else None, short_at=short, readdir_at=readdir)
    if policy:
        env['RQ_VERIF_POLICY'] = policy
    o = ws.run_rq(root, wsweep.cfg_args(cfg), threads=threads, preload_env=env)
    return o, ws.snapshot(root), fsmon.read_log(log, os.path.normpath(root))


def case(task):
    m0, series, cfg, driver, with_short = task
    dname, threads, policy = driver
    d = wsweep.wdir()
    root, log = os.path.join(d, 'ws'), os.path.join(d, 'fslog')
    names = tq.names_for(series)
    files, patches, lines = tq.workspace_of(m0, series, names)
    exp = tq.expectation(m0, series)
    out = {'evals': 0, 'violations': [], 'outcomes': {}, 'nontrivial': 0, 'calls': 0}
    base_tags = wsweep.tags_of(series) | {dname, 'backup=' + (cfg.get('backup') or 'default')}
    o0, snap0, log0 = run_once(root, files, patches, lines, cfg, threads, policy, log)
    out['evals'] += 1
    mut = fsmon.mutating(log0)
    out['calls'] = len(mut)
    ref = (o0.cls, ws.tree_of(snap0), ws.pc_of(snap0), ws.rejects_of(snap0))

    def wit(k, eno, extra):
        return wsweep.witness(m0, series, dict(cfg, threads=threads), dict({'fault': {'k': k, 'errno': eno}, 'driver': dname, 'policy': policy}, **extra), names)
    for (k, op, path, _) in mut:
        for eno in errnos_for(op):
            o, snap, lg = run_once(root, files, patches, lines, cfg, threads, policy, log, fault=(k, eno))
            out['evals'] += 1
            fired = [e for e in lg if e[3]]
            if not fired:
                out['outcomes']['fault-not-reached'] = out['outcomes'].get('fault-not-reached', 0) + 1
                continue
            fk, fop, fpath, _ = fired[0]
            out['nontrivial'] += 1
            kind = 'reject-file' if fpath.endswith('.rej') else ('backup-file' if '/.pc/' in fpath and not fpath.endswith('applied-patches') else ('applied-patches' if fpath.endswith('applied-patches') or fpath.endswith('/.pc') else 'tree'))
            tags = wsweep.cls(base_tags | {'fault:%s-%s' % (fop, kind)})
            out['outcomes']['%s:%s' % (fop, o.cls)] = out['outcomes'].get('%s:%s' % (fop, o.cls), 0) + 1
            if o.cls not in ('0', '1'):
                out['violations'].append((tags, o.cls, wit(k, eno, {'expected': 'a clean non-zero exit', 'observed': o.cls, 'call': '%s %s' % (fop, fpath), 'stderr': common.b2s(o.err[-300:])})))
                continue
            if o.cls == '0':
                out['violations'].append((tags, 'reported-as-success', wit(k, eno, {'expected': 'non-zero exit status', 'observed': 'exit 0', 'call': '%s %s' % (fop, fpath)})))
            elif not names_file(o.err, fpath, os.path.normpath(root)):
                out['violations'].append((tags, 'message-does-not-name-the-file', wit(k, eno, {'expected': 'a message naming %s' % os.path.relpath(fpath, os.path.normpath(root)), 'observed': common.b2s(o.err[-300:]), 'call': '%s %s' % (fop, fpath)})))
            # nothing recorded unless everything of it is on disk
            applied = ws.applied_of(snap)
            if applied:
                kp = len(applied)
                want = None
                if applied == names[:kp] and kp <= exp['k']:
                    want = exp['model'].files() if kp == exp['k'] else exp['pre'][kp][1].files()
                if want is None or ws.tree_of(snap) != want:
                    out['violations'].append((tags, 'recorded-as-applied-although-not-on-disk', wit(k, eno, {'expected': 'no patch recorded whose files were not all written', 'observed': applied, 'call': '%s %s' % (fop, fpath)})))
    # a directory that may have become empty is listed before it is removed: a listing that fails is not "there is something in it"
    nread = sum(1 for e in log0 if e[0] is None and e[1] == 'readdir')
    for k in range(1, nread + 1):
        o, snap, lg = run_once(root, files, patches, lines, cfg, threads, policy, log, readdir=k)
        out['evals'] += 1
        fired = [e for e in lg if e[3]]
        if not fired:
            out['outcomes']['fault-not-reached'] = out['outcomes'].get('fault-not-reached', 0) + 1
            continue
        fpath = fired[0][2]
        out['nontrivial'] += 1
        tags = wsweep.cls(base_tags | {'fault:readdir-tree'})
        out['outcomes']['readdir:%s' % o.cls] = out['outcomes'].get('readdir:%s' % o.cls, 0) + 1
        if o.cls not in ('0', '1'):
            out['violations'].append((tags, o.cls, wit(k, errno.EIO, {'readdir_fault_at': k, 'expected': 'a clean non-zero exit', 'observed': o.cls, 'call': 'readdir %s' % fpath, 'stderr': common.b2s(o.err[-300:])})))
        elif o.cls == '0':
            out['violations'].append((tags, 'reported-as-success', wit(k, errno.EIO, {'readdir_fault_at': k, 'expected': 'non-zero exit status', 'observed': 'exit 0', 'call': 'readdir %s' % fpath})))
        elif not names_file(o.err, fpath, os.path.normpath(root)):
            out['violations'].append((tags, 'message-does-not-name-the-file', wit(k, errno.EIO, {'readdir_fault_at': k, 'expected': 'a message naming %s' % os.path.relpath(fpath, os.path.normpath(root)), 'observed': common.b2s(o.err[-300:]), 'call': 'readdir %s' % fpath})))
    if with_short:
        for (k, op, path, _) in mut:
            if op != 'write':
                continue
            o, snap, lg = run_once(root, files, patches, lines, cfg, threads, policy, log, short=k)
            out['evals'] += 1
            out['nontrivial'] += 1
            got = (o.cls, ws.tree_of(snap), ws.pc_of(snap), ws.rejects_of(snap))
            if got != ref:
                out['violations'].append((wsweep.cls(base_tags | {'short-write'}), 'short-write-changes-the-outcome', wit(k, 0, {'short_write_at': k, 'expected': 'same outcome as without the short write', 'observed': 'exit %s' % o.cls, 'call': 'write ' + path})))
    return out


def fsize_case(task):
    """`ulimit -f` smaller than a file that is written: that is a write that fails, not a reason to die of a signal"""
    which, threads, backup = task
    d = wsweep.wdir()
    root = os.path.join(d, 'ws')
    big = b''.join(b'line %d\n' % i for i in range(400))      # 3.3 kB
    small = b's0\ns1\ns2\n'
    files = {'big': (big, 0o644), 'small': (small, 0o644)}
    p_small = b'--- a/small\n+++ b/small\n@@ -1,3 +1,3 @@\n s0\n-s1\n+S1\n s2\n'
    p_big = b'--- a/big\n+++ b/big\n@@ -1,3 +1,3 @@\n line 0\n-line 1\n+LINE 1\n line 2\n'
    p_bigfail = b'--- a/big\n+++ b/big\n' + b'@@ -1,400 +1,400 @@\n' + b''.join(b'-nope %d\n' % i for i in range(400)) + b''.join(b'+x %d\n' % i for i in range(400))
    patches = {'p0.patch': p_small, 'p1.patch': {'tree': p_big, 'backup': p_big, 'reject': p_bigfail}[which]}
    ws.make_ws(root, files, patches, ['p0.patch', 'p1.patch'])
    o = ws.run_rq(root, ['-a', '-q', '--backup', backup], threads=threads, fsize_limit=1024)
    snap = ws.snapshot(root)
    out = {'evals': 1, 'violations': [], 'outcomes': {'fsize:%s:%s' % (which, o.cls): 1}, 'nontrivial': 1, 'calls': 0}
    tags = wsweep.cls({'file-size-limit', 'too-big:' + which, 'backup=' + backup, 'threads>1' if threads > 1 else 'threads=1'})
    w = {'kind': 'generated', 'how': 'files big (400 lines, 3.3 kB) and small; p0 edits small, p1 %s; RLIMIT_FSIZE = 1024 bytes (ulimit -f 1)' % {'tree': 'edits big', 'backup': 'edits big (its backup is as big)', 'reject': 'has a 400-line hunk for big that fails (the reject is bigger than the limit)'}[which],
         'args': ['-a', '-q', '--backup', backup], 'threads': threads}
    name = {'tree': 'big', 'backup': 'big', 'reject': 'big.rej'}[which]
    if o.cls not in ('0', '1'):
        out['violations'].append((tags, o.cls, dict(w, expected='a clean non-zero exit', observed=o.cls, stderr=common.b2s(o.err[-300:]))))
    elif o.cls == '0':
        out['violations'].append((tags, 'reported-as-success', dict(w, expected='non-zero exit status', observed='exit 0')))
    elif name.encode() not in o.err:
        out['violations'].append((tags, 'message-does-not-name-the-file', dict(w, expected='a message naming %s' % name, observed=common.b2s(o.err[-300:]))))
    if which != 'reject' and 'p1.patch' in ws.applied_of(snap):
        out['violations'].append((tags, 'recorded-as-applied-although-not-on-disk', dict(w, expected='p1.patch not recorded', observed=ws.applied_of(snap))))
    return out


def workloads(tier):
    m0 = tq.initial()
    base = tq.enumerate_series(2, 1, allow_after_failure=1)
    pick = []
    seen = set()
    for s in base:
        kinds = tuple(sorted(wsweep.tags_of(s))) + (len(s), sum(len(p.fps) for p in s))
        if kinds in seen:
            continue   # one representative per combination of template kinds and shape
        seen.add(kinds)
        pick.append(s)
    if tier == 'quick':
        pick = pick[::2]
    else:
        # thorough: every series of the base space, not one per kind, and the representatives of the next two spaces
        # (two deviations; three file patches)
        pick = list(base)
        for more in (tq.enumerate_series(2, 2, allow_after_failure=1), tq.enumerate_series(3, 1, allow_after_failure=1)):
            for s in more:
                kinds = tuple(sorted(wsweep.tags_of(s))) + (len(s), sum(len(p.fps) for p in s))
                if kinds in seen:
                    continue
                seen.add(kinds)
                pick.append(s)
    return m0, pick


def run(tier, seed):
    res = common.Result('fault_enumeration')
    m0, W = workloads(tier)
    tasks = [(m0, s, {'backup': b, 'quiet': True}, drv, (tier != 'quick' and i % 8 == 0) or (tier == 'quick' and i % 4 == 0)) for i, s in enumerate(W) for b in ('always', 'never') for drv in DRIVERS]
    # a file with a line longer than any write buffer: such a line goes out in a write of its own, which may be cut short
    mbig = m0.clone()
    mbig.t['big'] = ([b'b0', b'L' * 20000, b'b2', b'b3', b'b4', b'b5'], 0o644)
    fresh = tq.Fresh()
    big = [[tq.Patch([tq.t_mod(mbig, fresh, 'big', 1, 0, 3)])], [tq.Patch([tq.t_mod(mbig, fresh, 'big', 1, 0, 4), tq.t_mod(mbig, fresh, 'f')])]]
    tasks += [(mbig, s, {'backup': b, 'quiet': True}, drv, True) for s in big for b in ('always', 'never') for drv in DRIVERS]
    acc = wsweep.Acc(res)
    calls = 0
    for i, r in enumerate(wsweep.pmap(case, tasks)):
        calls += r.get('calls', 0)
        if i % 61 == 0:
            r = dict(r)
            r['sample'] = {'series': tq.describe_series(tasks[i][1]), 'driver': tasks[i][3][0], 'backup': tasks[i][2]['backup'], 'mutating_calls': r['calls'], 'outcomes': r['outcomes']}
        acc.add(r)
    acc.finish('fault_sweep')
    accf = wsweep.Acc(res)
    for r in wsweep.pmap(fsize_case, [(w, t, b) for w in ('tree', 'backup', 'reject') for t in (1, 2) for b in ('always', 'never') if not (w == 'backup' and b == 'never')]):
        accf.add(r)
    accf.finish('file_size_limit')
    res.coverage['file_size_limit']['rule'] = ('RLIMIT_FSIZE of 1024 bytes and a changed file / its backup / a reject file of 3 kB and more, behind a patch that goes through, x threads {1,2} x backups: '
                                               'exit 1 with a message naming the file - not death by SIGXFSZ -, the patch not recorded')
    cov = res.coverage
    cov['workloads'] = len(W)
    cov['configurations'] = len(tasks)
    cov['fault_positions'] = calls
    cov['rule'] = ('for each workload (quick: one representative series per combination of template kinds with <= 2 file patches and <= 1 deviation; thorough: every series of that space and one representative per '
                   'combination of kinds with two deviations or three file patches: success and failing pushes, creates, deletes, renames, mode changes, '
                   'rejects) x --backup {always,never} x driver {sequential, parallel with the serial schedule lowest-worker-first, highest-worker-first}: a fault-free run counts the n mutating libc calls '
                   '(open for writing, write, unlink, mkdir, rmdir, fchmod, ...), then one run per k in 1..n and per applicable errno (EIO; ENOSPC for write/mkdir/open; EACCES for open/unlink) with exactly '
                   'that call failing; likewise every reading of a directory entry while emptied directories are looked at (EIO); short writes at every write for a quarter (thorough: an eighth, of twenty times as many) of the workloads. Oracle when the fault fired: exit class non-zero and not a crash; stderr names the failing '
                   'path (any trailing part of it); nothing is appended to applied-patches unless the tree equals the model after exactly those patches; a short write changes nothing. '
                   'distinct_nontrivial = runs in which the injected fault was reached')
    res.assumptions = ['faults are injected at the libc boundary of the dynamically linked binary', 'parallel runs are serialised by the cooperative scheduler so that "the k-th call" is reproducible']
    if acc.nontrivial < 500:
        res.machinery_errors.append('vacuous: only %d faults fired' % acc.nontrivial)
    return res
