"""C05 - push is all-or-nothing per patch: tree = first k patches, k = names recorded (CLI level)."""
import common
import toyquilt as tq
import wsprops

NEEDS = ('rq', 'rqmc')


def configs(tier):
    out = []
    for backup in ('always', 'onfail', 'never'):
        for threads in (1, 2):
            for quiet in (True, False):
                out.append({'backup': backup, 'threads': threads, 'quiet': quiet})
    return out


def run(tier, seed):
    res = common.Result('model_checking')
    m0 = tq.initial()
    if tier == 'quick':
        series = tq.with_patch_options(tq.enumerate_series(2, 1, allow_after_failure=1), 1)
        # plus every failing patch with two entries from the D<=2 space (a cleanly applied create/delete/rename/... that
        # has to be undone because a sibling entry fails)
        series += [s for s in tq.enumerate_series(2, 2, allow_after_failure=1) if any((not p.ok()) and len(p.fps) >= 2 for p in s)]
        # plus chains of three file patches over f and the name it may be renamed to / re-created as (Q<=3, D<=1)
        series += [s for s in tq.enumerate_series(3, 1, allow_after_failure=1, plain_files={'f', 'n'}) if sum(len(p.fps) for p in s) == 3][::2]
        cfgs = [c for c in configs(tier) if c['backup'] != 'onfail']
        bounds = 'Q<=2 file patches, D<=1 deviation; D<=2 for failing patches with two entries; every second chain with Q=3, D<=1 over the files f and n'
    else:
        series = tq.with_patch_options(tq.enumerate_series(3, 1, allow_after_failure=1), 1) + tq.with_patch_options(tq.enumerate_series(2, 2, allow_after_failure=1), 2)
        cfgs = configs(tier)
        bounds = 'Q<=3,D<=1 and Q<=2,D<=2'
    series = series + tq.special_series(m0)
    seen, uniq = set(), []
    for s in series:
        k = tq.describe_series(s)
        if k not in seen:
            seen.add(k)
            uniq.append(s)
    wsprops.sweep('C05', res, m0, uniq, cfgs, 'sweep')
    # the hand-picked series (several failing patches, failures behind renames, ...) with the parallel driver under the other serial
    # order of the workers as well: which worker reports its failure first must not matter
    wsprops.sweep('C05', res, m0, tq.special_series(m0), [{'backup': 'never', 'threads': t, 'quiet': True, 'policy': 'high'} for t in (2, 3)], 'special_series_other_worker_order')
    # how the workspace is addressed must not matter: current directory instead of -d, another patch directory (-p),
    # thread count from RAPIDQUILT_THREADS instead of --threads
    addr = [{'backup': 'always', 'threads': 1, 'quiet': True, 'no_d': True}, {'backup': 'never', 'threads': 2, 'quiet': True, 'no_d': True},
            {'backup': 'always', 'threads': 1, 'quiet': True, 'patches_dir': 'other/dir'}, {'backup': 'onfail', 'threads': 2, 'quiet': False, 'patches_dir': 'pp'},
            {'backup': 'always', 'threads': 2, 'quiet': True, 'threads_env': True}, {'backup': 'never', 'threads': 1, 'quiet': True, 'threads_env': True}]
    small = [s for s in uniq if tq.series_dev(s) <= 1 and sum(len(p.fps) for p in s) <= 2][::(3 if tier == 'quick' else 1)]
    wsprops.sweep('C05', res, m0, small, addr, 'workspace_addressing_sweep')
    import rawcases
    rawcases.run_expect('C05', res)
    cov = res.coverage
    cov['series'] = len(uniq)
    cov['bounds'] = bounds
    cov['configs'] = len(cfgs)
    cov['rule'] = ('all series over the toy-quilt template alphabet (%d templates per state: modify variants, 2-hunk, failing, partial, create/delete in both header forms, '
                   'rename with/without hunk, rename onto existing, mode change, .orig names, missing target, target is a directory; per-patch -R, -p0, -p2, empty patch file) with <= Q file patches in total '
                   '(each joining the current patch or opening a new one) and <= D deviations from the plain modification, x backup mode x threads {1,2 (serial schedule)} x '
                   'verbosity; oracle: toy-quilt model (tree incl. modes and emptied directories, names appended to applied-patches, exit status). '
                   'non-trivial = series with a failure, more than one patch, or a deviating template') % len(tq.menu(m0, tq.Fresh()))
    res.assumptions = ['unique line tokens: hunks match in exactly one place (placement subtleties are C02\'s business)',
                       'threads > 1 run under the cooperative scheduler with the serial schedule; other schedules are C06\'s business']
    return res
