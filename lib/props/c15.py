"""C15 - files are replaced, never edited in place; hard-linked copies stay intact (CLI level, monitored)."""
import os
import shutil

import common
import fsmon
import toyquilt as tq
import ws
import wsweep

NEEDS = ('rq', 'shim')


def case(task):
    m0, series, cfg = task
    d = wsweep.wdir()
    root, twin, log = os.path.join(d, 'ws'), os.path.join(d, 'twin'), os.path.join(d, 'fslog')
    names = tq.names_for(series)
    files, patches, lines = tq.workspace_of(m0, series, names)
    ws.make_ws(root, files, patches, lines)
    # reject files left over from an earlier run, next to every file: like everything else they are hard-linked into the twin
    stale = {rel + '.rej': (b'--- stale\n+++ stale\n@@ -1 +1 @@\n-left\n+over\n', 0o644) for rel in files}
    ws.write_tree(root, stale)
    shutil.rmtree(twin, ignore_errors=True)
    for rel in list(files) + list(stale):   # cp -al
        p = os.path.join(twin, rel)
        os.makedirs(os.path.dirname(p), exist_ok=True)
        os.link(os.path.join(root, rel), p)
    tbefore = ws.snapshot(twin, meta=True, skip=())
    if os.path.exists(log):
        os.unlink(log)
    o = ws.run_rq(root, wsweep.cfg_args(cfg), threads=cfg['threads'], preload_env=fsmon.env(log))
    tafter = ws.snapshot(twin, meta=True, skip=())
    after = ws.snapshot(root, meta=True)
    named = set()
    for p in series:
        for fp in p.fps:
            for n in (fp.old, fp.new):
                if n:
                    named.add(n)
    tags = wsweep.cls(wsweep.tags_of(series) | {'threads>1' if cfg['threads'] > 1 else 'threads=1'} | ({'--mmap'} if '--mmap' in cfg.get('extra', []) else set()))
    out = {'evals': 1, 'violations': [], 'outcomes': {'exit-' + o.cls: 1}, 'nontrivial': 0}
    w = lambda extra: wsweep.witness(m0, series, cfg, extra, names)
    if o.cls not in ('0', '1'):
        out['violations'].append((tags, o.cls, w({'observed': o.cls, 'stderr': common.b2s(o.err[-300:])})))
        return out
    # 1. the twin tree is untouched (bytes, modes, inodes; link counts may drop)
    strip = lambda s: {p: (v[:4] if v[0] == 'F' else v[:3]) for p, v in s.items()}
    if strip(tbefore) != strip(tafter):
        a, b = strip(tbefore), strip(tafter)
        ch = sorted(p for p in set(a) | set(b) if a.get(p) != b.get(p))
        out['violations'].append((tags, 'hard-linked-twin-changed', w({'expected': 'twin tree identical', 'observed': ch[:6]})))
    # 2. changed files got a fresh inode; unnamed files were not touched
    log_entries = fsmon.read_log(log, root)
    rootn = os.path.normpath(root)
    touched = {}
    for n, op, p, fault in log_entries:
        if n is not None and p.startswith(rootn + '/'):
            touched.setdefault(p[len(rootn) + 1:], []).append(op)
    changed_any = False
    for rel, (data, mode) in files.items():
        t = tbefore[rel]
        cur = after.get(rel)
        if rel not in named:
            if cur is None or cur[3] != t[3] or cur[4] != 2 or touched.get(rel):
                out['violations'].append((tags, 'file-not-named-by-any-patch-was-touched', w({'file': rel, 'observed': {'now': None if cur is None else [cur[3], cur[4]], 'calls': touched.get(rel)}})))
            continue
        if cur is None:
            changed_any = True
            continue
        if cur[1] != data or cur[2] != t[2]:
            changed_any = True
            if cur[3] == t[3]:
                out['violations'].append((tags, 'changed-file-shares-inode-with-twin', w({'file': rel})))
    out['nontrivial'] = 1 if changed_any else 0
    return out


def run(tier, seed):
    res = common.Result('model_checking')
    m0 = tq.initial()
    if tier == 'quick':
        series = tq.with_patch_options(tq.enumerate_series(2, 1, allow_after_failure=1), 1)
        cfgs = [{'threads': t, 'backup': 'never', 'quiet': True, 'extra': e} for t in (1, 2) for e in ([], ['--mmap'])]
    else:
        series = tq.with_patch_options(tq.enumerate_series(3, 1, allow_after_failure=1), 1) + tq.enumerate_series(2, 2, allow_after_failure=1)
        cfgs = [{'threads': t, 'backup': b, 'quiet': True, 'extra': e} for t in (1, 2) for e in ([], ['--mmap']) for b in ('never', 'always')]
    series = series + tq.special_series(m0)
    tasks = [(m0, s, c) for s in series for c in cfgs]
    acc = wsweep.Acc(res)
    for i, r in enumerate(wsweep.pmap(case, tasks)):
        if i % 1499 == 0:
            r = dict(r)
            r['sample'] = {'series': tq.describe_series(tasks[i][1]), 'args': wsweep.cfg_args(tasks[i][2]), 'threads': tasks[i][2]['threads'], 'outcome': sorted(r['outcomes'])}
        acc.add(r)
    acc.finish('sweep')
    cov = res.coverage
    cov['series'] = len(series)
    cov['configs'] = len(cfgs)
    cov['rule'] = ('every workspace of the C05 alphabet (modify, truncate, delete, rename, mode change, create, failures with rollback, -R, -pN) with each of its files hard-linked into a twin tree outside the '
                   'workspace (cp -al) x loaders {default, --mmap} x threads {1,2}, under the LD_PRELOAD monitor. Oracle: twin tree byte-, mode- and inode-identical afterwards; every workspace '
                   'file whose content or mode changed has another inode than its twin; every file that no patch of the range names still shares its inode with the twin (nlink 2) and the monitor saw no '
                   'mutating call on it. non-trivial = runs in which at least one file changed')
    return res
