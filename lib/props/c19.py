"""C19 - patch file names can never make a push touch files outside the working tree (CLI level, monitored)."""
import os
import shutil

import common
import fsmon
import ws
import wsweep

NEEDS = ('rq', 'shim')

DECOY = b'decoy1\ndecoy2\ndecoy3\n'
INTREE = b'f0\nf1\nf2\n'


def components(name):
    parts = []
    if name.startswith('/'):
        parts.append('/')
    for c in name.split('/'):
        if c in ('', '.'):
            continue
        parts.append(c)
    if name.startswith('./') or name == '.':
        parts.insert(0, '.')   # Path::components keeps a leading CurDir
    return parts


def after_strip(name, strip):
    return components(name)[strip:]


def escapes(parts):
    if parts and parts[0] == '/':
        return True
    depth = 0
    for c in parts:
        if c == '.':
            continue
        if c == '..':
            depth -= 1
            if depth < 0:
                return True
        else:
            depth += 1
    return False


def q(name, quoted):
    """spell a name for a header line"""
    if not quoted:
        return name.encode()
    return b'"' + name.encode().replace(b'\\', b'\\\\').replace(b'/', b'\\057', 1) + b'"'


def build_patch(kind, pos, name, quoted):
    """patch text for one file-patch kind with the escaping `name` at header position `pos`; other names are in-tree"""
    n = q(name, quoted)
    mod_body = b'@@ -1,3 +1,3 @@\n decoy1\n-decoy2\n+CHANGED\n decoy3\n'
    if kind == 'create':
        old = {'+++': b'/dev/null', 'both': n, '---': n}[pos]
        new = {'+++': n, 'both': n, '---': b'f.new'}[pos]
        return b'--- ' + old + b'\n+++ ' + new + b'\n@@ -0,0 +1,2 @@\n+created1\n+created2\n'
    if kind == 'modify':
        old = {'+++': b'p/nonexistent.orig', 'both': n, '---': n}[pos]
        new = {'+++': n, 'both': n, '---': b'p/f'}[pos]
        return b'--- ' + old + b'\n+++ ' + new + b'\n' + mod_body
    if kind == 'delete':
        old = {'---': n, 'both': n, '+++': b'p/gone'}[pos]
        new = {'---': b'/dev/null', 'both': n, '+++': n}[pos]
        return b'--- ' + old + b'\n+++ ' + new + b'\n@@ -1,3 +0,0 @@\n-decoy1\n-decoy2\n-decoy3\n'
    if kind == 'rename-to':
        return b'diff --git p/f ' + n + b'\nrename from f\nrename to x\n'
    if kind == 'rename-from':
        return b'diff --git ' + n + b' p/g\nrename from x\nrename to g\n'
    if kind == 'git-mode':
        return b'diff --git ' + n + b' ' + n + b'\nold mode 100644\nnew mode 100755\n'
    if kind == 'failing':
        # a hunk that cannot match: the reject file must not be written outside either
        old = n if pos in ('---', 'both') else b'p/nonexistent.orig'
        new = n if pos in ('+++', 'both') else b'p/f'
        return b'--- ' + old + b'\n+++ ' + new + b'\n@@ -1,3 +1,3 @@\n nope1\n-nope2\n+X\n nope3\n'
    raise KeyError(kind)


def case(task):
    label, spelling, strip, kind, pos, quoted, threads = task
    d = wsweep.wdir()
    sentinel = os.path.join(d, 'sentinel')
    shutil.rmtree(sentinel, ignore_errors=True)
    root = os.path.join(sentinel, 'lvl1', 'ws')
    os.makedirs(os.path.join(sentinel, 'abs'))
    os.makedirs(os.path.join(sentinel, 'lvl1'), exist_ok=True)
    for p in ('x', 'lvl1/x', 'abs/x', 'lvl1/f'):
        with open(os.path.join(sentinel, p), 'wb') as f:
            f.write(DECOY)
    name = spelling.replace('@ABS@', os.path.join(sentinel, 'abs'))
    # N extra leading components that -pN removes ('p' is also the in-tree prefix of the other names)
    pre = ''.join('p%d/' % i for i in range(strip - 1)) + ('p/' if strip >= 1 else '')
    if name.startswith('/'):
        full = name   # an absolute name: stripping eats its root
    else:
        full = pre + name
    text = build_patch(kind, pos, full, quoted)
    if strip != 1:
        # the in-tree names of the patch carry the prefix 'p/': adapt them to the strip level
        text = text.replace(b'p/', pre.encode()) if pre else text.replace(b'p/', b'')
    files = {'f': (INTREE, 0o644), 'g0': (b'g\n', 0o644)}
    ws.make_ws(root, files, {'p1.patch': text}, ['p1.patch -p%d' % strip])
    parts = after_strip(full, strip)
    esc = escapes(parts)
    log = os.path.join(d, 'fslog')
    if os.path.exists(log):
        os.unlink(log)

    def outside_snapshot():
        s = ws.snapshot(sentinel, meta=True, skip=())
        return {p: v for p, v in s.items() if not (p + '/').startswith('lvl1/ws/') and p not in ('lvl1/', './')}
    before = outside_snapshot()
    o = ws.run_rq(root, ['-a', '-q'], threads=threads, preload_env=fsmon.env(log))
    after = outside_snapshot()
    out = {'evals': 1, 'violations': [], 'outcomes': {('escaping' if esc else 'in-tree') + ':exit-' + o.cls: 1}, 'nontrivial': 1 if esc else 0}
    tags = wsweep.cls({'name:' + label, kind, 'at:' + pos, '-p%d' % strip, 'threads>1' if threads > 1 else 'threads=1'} | ({'quoted'} if quoted else set()))
    w = lambda extra: dict({'kind': 'cli-sentinel', 'patch': common.b2s(text), 'series': ['p1.patch -p%d' % strip], 'threads': threads, 'name_after_strip': '/'.join(parts), 'escapes': esc}, **extra)
    if o.cls not in ('0', '1'):
        out['violations'].append((tags, o.cls, w({'observed': o.cls, 'stderr': common.b2s(o.err[-300:])})))
        return out
    changed = sorted(p for p in set(before) | set(after) if before.get(p) != after.get(p))
    if changed:
        out['violations'].append((tags, 'file-outside-the-tree-changed', w({'expected': 'sentinel directory unchanged', 'observed': changed[:6]})))
    rootn = os.path.normpath(root)
    sent = os.path.normpath(sentinel)
    touched = []
    for n_, op, p, fault in fsmon.read_log(log, rootn):
        if ' -> ' in p:
            ps = [os.path.normpath(x if x.startswith('/') else os.path.join(rootn, x)) for x in p.split(' -> ')]
        else:
            ps = [os.path.normpath(p)]
        for x in ps:
            if (x + '/').startswith(sent + '/') and not (x + '/').startswith(rootn + '/') and x not in (sent, os.path.dirname(rootn)):
                touched.append('%s %s' % (op, x[len(sent):]))
    if touched and not changed:
        out['violations'].append((tags, 'file-outside-the-tree-accessed', w({'expected': 'no file-system call outside the working directory', 'observed': touched[:6]})))
    if esc and o.cls != '1' and not changed and not touched:
        out['violations'].append((tags, 'escaping-name-not-refused', w({'expected': 'exit 1', 'observed': o.cls})))
    return out


# ---- the name grammar, enumerated: every name of up to N components over a small alphabet, at every strip level

NEST = ('l3', 'l2', 'lvl1')   # the workspace of the grid sits four levels inside the sentinel: names of up to four components cannot get past it
GRID_KINDS = (('create', ('+++', 'both')), ('modify', ('---', '+++', 'both')), ('delete', ('---', 'both')), ('rename-to', ('git',)), ('rename-from', ('git',)), ('git-mode', ('git',)), ('failing', ('---', '+++', 'both')))


def gnu_strip(name, n):
    """what -pN leaves of a name, the way patch(1) documents it: N times "everything up to and including the next run of slashes"; None if the name is used up"""
    i = 0
    for _ in range(n):
        j = name.find('/', i)
        if j < 0:
            return None
        while j < len(name) and name[j] == '/':
            j += 1
        i = j
    return name[i:]


def judge(rest):
    """'absolute' | 'escapes' | 'inside' for what is left of a name"""
    if rest.startswith('/'):
        return 'absolute'
    return 'escapes' if escapes([c for c in rest.split('/') if c not in ('', '.')]) else 'inside'


def grid_names(maxlen, variants):
    import itertools
    out = []
    for n in range(1, maxlen + 1):
        for comps in itertools.product(('a', 'x', '..', '.'), repeat=n):
            out.append('/'.join(comps))
            if variants and n <= 3:
                for k in range(1, n):   # one double slash at each joint
                    out.append('/'.join(comps[:k]) + '//' + '/'.join(comps[k:]))
                out.append('/'.join(comps) + '/')
    return out


def grid_case(task):
    name, strip, prefixed, kind, pos, quoted, threads = task
    d = wsweep.wdir()
    sentinel = os.path.join(d, 'sentinel')
    shutil.rmtree(sentinel, ignore_errors=True)
    root = os.path.join(sentinel, *NEST, 'ws')
    os.makedirs(os.path.dirname(root))
    cur = sentinel
    for lvl in ('',) + NEST:   # decoys at every place a name of the grid can point to
        cur = os.path.join(cur, lvl) if lvl else cur
        os.makedirs(os.path.join(cur, 'a'), exist_ok=True)
        for pth in ('x', 'a/x', 'a/a'):
            if not os.path.isdir(os.path.join(cur, pth)):
                with open(os.path.join(cur, pth), 'wb') as f:
                    f.write(DECOY)
    # prefixed: the name carries `strip` extra leading components, so that the spelled name is what is left; otherwise -pN eats into the spelled name itself
    pre = (''.join('p%d/' % i for i in range(strip - 1)) + ('p/' if strip >= 1 else '')) if prefixed else ''
    full = pre + name
    text = build_patch(kind, pos, full, quoted)
    inpre = ''.join('p%d/' % i for i in range(strip - 1)) + ('p/' if strip >= 1 else '')
    if strip != 1:
        text = text.replace(b'p/', inpre.encode()) if inpre else text.replace(b'p/', b'')
        if not prefixed and inpre:   # the replacement above must not touch the spelled name (it has no 'p/' in it: the alphabet is a, x, .., .)
            pass
    files = {'f': (INTREE, 0o644), 'g0': (b'g\n', 0o644), 'a/x': (DECOY, 0o644), 'x': (DECOY, 0o644)}
    ws.make_ws(root, files, {'p1.patch': text}, ['p1.patch -p%d' % strip])
    rest = gnu_strip(full, strip)
    verdict = 'used-up' if rest is None else judge(rest)
    log = os.path.join(d, 'fslog')
    if os.path.exists(log):
        os.unlink(log)
    inside_rel = os.path.join(*NEST, 'ws') + '/'

    def outside_snapshot():
        s_ = ws.snapshot(sentinel, meta=True, skip=())
        keep = set()
        cur_ = ''
        for lvl in NEST:   # the directories on the way down change their mtime when the workspace is made; they are set up before the first snapshot, so they are compared as well
            cur_ = cur_ + lvl + '/'
            keep.add(cur_)
        return {p_: v for p_, v in s_.items() if not (p_ + '/').startswith(inside_rel) and p_ != './'}
    before = outside_snapshot()
    o = ws.run_rq(root, ['-a', '-q'], threads=threads, preload_env=fsmon.env(log))
    after = outside_snapshot()
    out = {'evals': 1, 'violations': [], 'outcomes': {verdict + ':exit-' + o.cls: 1}, 'nontrivial': 1 if verdict in ('escapes', 'absolute') else 0}
    tags = wsweep.cls({'grid', 'left-after-strip:' + verdict, kind, 'at:' + pos, '-p%d' % strip, 'strip-eats-into-the-name' if not prefixed and strip else 'name-behind-prefix',
                       'threads>1' if threads > 1 else 'threads=1'} | ({'quoted'} if quoted else set()))
    w = lambda extra: dict({'kind': 'cli-sentinel-grid', 'task': list(task), 'patch': common.b2s(text), 'series': ['p1.patch -p%d' % strip], 'threads': threads, 'name_after_strip': rest, 'verdict': verdict}, **extra)
    if o.cls not in ('0', '1'):
        out['violations'].append((tags, o.cls, w({'observed': o.cls, 'stderr': common.b2s(o.err[-300:])})))
        return out
    changed = sorted(p_ for p_ in set(before) | set(after) if before.get(p_) != after.get(p_))
    if changed:
        out['violations'].append((tags, 'file-outside-the-tree-changed', w({'expected': 'sentinel directory unchanged', 'observed': changed[:6]})))
    rootn, sent = os.path.normpath(root), os.path.normpath(sentinel)
    onpath = set()
    cur = rootn
    while cur != os.path.dirname(sent):
        cur = os.path.dirname(cur)
        onpath.add(cur)
    touched = []
    for n_, op, p_, fault in fsmon.read_log(log, rootn):
        ps = [os.path.normpath(x if x.startswith('/') else os.path.join(rootn, x)) for x in p_.split(' -> ')] if ' -> ' in p_ else [os.path.normpath(p_)]
        for x in ps:
            if (x + '/').startswith(sent + '/') and not (x + '/').startswith(rootn + '/') and x not in onpath:
                touched.append('%s %s' % (op, x[len(sent):]))
    if touched and not changed:
        out['violations'].append((tags, 'file-outside-the-tree-accessed', w({'expected': 'no file-system call outside the working directory', 'observed': touched[:6]})))
    if verdict in ('escapes', 'absolute') and o.cls != '1' and not changed and not touched:
        out['violations'].append((tags, 'escaping-name-not-refused', w({'expected': 'exit 1', 'observed': o.cls})))
    return out


LINKS = {'out': '../../abs', 'lnk': '../x', 'dangling': '../created-through-a-link', 'loop': 'loop', 'inside': 'sub', 'inlnk': 'sub/f',
         # a link waiting where the backups of p1.patch for files below sub/ go
         '.pc/p1.patch/sub': '../../../../abs'}


def link_case(task):
    """innocent names, but the tree holds symbolic links: whatever leaves the working directory through one is refused,
    links that stay inside are followed"""
    name, kind, threads, backup = task
    d = wsweep.wdir()
    sentinel = os.path.join(d, 'sentinel')
    shutil.rmtree(sentinel, ignore_errors=True)
    root = os.path.join(sentinel, 'lvl1', 'ws')
    os.makedirs(os.path.join(sentinel, 'abs', 'sub'))
    os.makedirs(os.path.join(sentinel, 'lvl1'), exist_ok=True)
    for p in ('x', 'lvl1/x', 'abs/x', 'abs/sub/x'):
        with open(os.path.join(sentinel, p), 'wb') as f:
            f.write(DECOY)
    files = {'f': (INTREE, 0o644), 'sub/f': (DECOY, 0o644), 'sub/x': (DECOY, 0o644)}
    files.update({k: (v.encode(), 'link') for k, v in LINKS.items()})
    n = name.encode()
    mod_body = b'@@ -1,3 +1,3 @@\n decoy1\n-decoy2\n+CHANGED\n decoy3\n'
    text = {'create': b'--- /dev/null\n+++ b/' + n + b'\n@@ -0,0 +1,2 @@\n+created1\n+created2\n',
            'modify': b'--- a/' + n + b'\n+++ b/' + n + b'\n' + mod_body,
            'delete': b'--- a/' + n + b'\n+++ /dev/null\n@@ -1,3 +0,0 @@\n-decoy1\n-decoy2\n-decoy3\n',
            'failing': b'--- a/' + n + b'\n+++ b/' + n + b'\n@@ -1,3 +1,3 @@\n nope1\n-nope2\n+X\n nope3\n',
            'rename-to': b'diff --git a/sub/x b/' + n + b'\nrename from sub/x\nrename to ' + n + b'\n'}[kind]
    ws.make_ws(root, files, {'p0.patch': b'--- a/f\n+++ b/f\n@@ -1,3 +1,3 @@\n f0\n-f1\n+F1\n f2\n', 'p1.patch': text}, ['p0.patch', 'p1.patch'])
    first = name.split('/')[0]
    stays = first in ('inside', 'inlnk') or first not in LINKS

    def outside_snapshot():
        s_ = ws.snapshot(sentinel, meta=True, skip=())
        return {p: v for p, v in s_.items() if not (p + '/').startswith('lvl1/ws/') and p not in ('lvl1/', './')}
    before, inside_before = outside_snapshot(), ws.snapshot(root)
    o = ws.run_rq(root, ['-a', '-q', '--backup', backup], threads=threads)
    after, inside_after = outside_snapshot(), ws.snapshot(root)
    out = {'evals': 1, 'violations': [], 'outcomes': {('link-stays-inside' if stays else 'link-leads-out') + ':exit-' + o.cls: 1}, 'nontrivial': 1}
    tags = wsweep.cls({'symbolic-link-in-the-tree', 'via:' + first, kind, 'threads>1' if threads > 1 else 'threads=1'})
    w = lambda extra: dict({'kind': 'cli-sentinel-links', 'links': LINKS, 'patch': common.b2s(text), 'series': ['p0.patch', 'p1.patch'], 'threads': threads, 'name': name, 'fpkind': kind, 'backup': backup}, **extra)
    if o.cls not in ('0', '1'):
        out['violations'].append((tags, o.cls, w({'observed': o.cls, 'stderr': common.b2s(o.err[-300:])})))
        return out
    changed = sorted(p for p in set(before) | set(after) if before.get(p) != after.get(p))
    if changed:
        out['violations'].append((tags, 'file-outside-the-tree-changed', w({'expected': 'sentinel directory unchanged', 'observed': changed[:6]})))
    elif not stays:
        if o.cls != '1':
            out['violations'].append((tags, 'name-leading-out-through-a-link-not-refused', w({'expected': 'exit 1', 'observed': o.cls})))
        elif inside_before != inside_after and kind != 'failing':
            ch = sorted(p for p in set(inside_before) | set(inside_after) if inside_before.get(p) != inside_after.get(p))
            out['violations'].append((tags, 'refused-but-the-tree-changed', w({'expected': 'nothing touched', 'observed': ch[:6]})))
    elif name.startswith('sub/') and backup == 'always':
        pass   # the backup would go through the link under .pc: refused or not, nothing outside may change (checked above)
    elif kind in ('modify', 'create', 'delete') and o.cls != '0':
        # a link that stays inside is followed as before
        out['violations'].append((tags, 'link-that-stays-inside-refused', w({'expected': 'exit 0', 'observed': o.cls, 'stderr': common.b2s(o.err[-300:])})))
    return out


def workdir_case(task):
    """the working directory is not one of the directories that go away when they become empty"""
    threads, = task
    d = wsweep.wdir()
    sentinel = os.path.join(d, 'sentinel')
    shutil.rmtree(sentinel, ignore_errors=True)
    root, pdir = os.path.join(sentinel, 'ws'), os.path.join(sentinel, 'elsewhere')
    os.makedirs(root)
    os.makedirs(pdir)
    os.chmod(root, 0o700)
    with open(os.path.join(root, 'series'), 'wb') as f:
        f.write(b'p1.patch\n')
    text = b'--- a/series\n+++ /dev/null\n@@ -1 +0,0 @@\n-p1.patch\n'
    with open(os.path.join(pdir, 'p1.patch'), 'wb') as f:
        f.write(text)
    st0 = os.stat(root)
    o = ws.run_rq(root, ['-a', '-q', '--backup', 'never', '-p', pdir], threads=threads)
    out = {'evals': 1, 'violations': [], 'outcomes': {'workdir:exit-' + o.cls: 1}, 'nontrivial': 1}
    st1 = os.stat(root) if os.path.isdir(root) else None
    if o.cls not in ('0', '1') or st1 is None or (st1.st_ino, st1.st_mode) != (st0.st_ino, st0.st_mode):
        out['violations'].append((wsweep.cls({'working-directory-emptied', 'threads>1' if threads > 1 else 'threads=1'}), o.cls if o.cls not in ('0', '1') else 'working-directory-removed-and-made-again',
                                  {'kind': 'generated', 'how': 'the workspace holds nothing but `series` (directory mode 0700), the patches are elsewhere (-p); the one patch deletes `series`', 'patch': common.b2s(text), 'threads': threads,
                                   'expected': 'the directory is the same one afterwards (inode, mode)', 'observed': None if st1 is None else [st1.st_ino == st0.st_ino, oct(st1.st_mode & 0o7777)]}))
    return out


SPELLINGS = [
    ('dotdot', '../x'), ('dotdot-twice', '../../x'), ('dir-dotdot-dotdot', 'a/../../x'), ('dot-dotdot', './../x'), ('double-slash', 'a//../../x'),
    ('deep', 'a/b/../../../x'), ('absolute', '@ABS@/x'), ('to-itself', 'x/..'), ('sibling-via-parent', '../lvl1/x'), ('harmless', 'a/../x'),
]


def run(tier, seed):
    res = common.Result('model_checking')
    tasks = []
    for label, sp in SPELLINGS:
        for strip in (0, 1, 2, 3):
            for kind, positions in (('create', ('+++', 'both')), ('modify', ('---', '+++', 'both')), ('delete', ('---', 'both')), ('rename-to', ('git',)), ('rename-from', ('git',)),
                                    ('git-mode', ('git',)), ('failing', ('---', '+++', 'both'))):
                for pos in positions:
                    for quoted in (False, True):
                        for threads in (1, 2):
                            if tier == 'quick' and quoted and (strip in (0, 3)):
                                continue
                            tasks.append((label, sp, strip, kind, pos, quoted, threads))
    acc = wsweep.Acc(res)
    for i, r in enumerate(wsweep.pmap(case, tasks)):
        if i % 499 == 0:
            r = dict(r)
            t = tasks[i]
            r['sample'] = {'spelling': t[1], 'strip': t[2], 'kind': t[3], 'position': t[4], 'quoted': t[5], 'threads': t[6], 'outcome': sorted(r['outcomes'])}
        acc.add(r)
    acc.finish('sweep')
    gtasks = []
    maxlen, variants = (3, False) if tier == 'quick' else (4, True)
    for name in grid_names(maxlen, variants):
        ncomp = len([c for c in name.split('/') if c])
        for strip in ((0, 1, 2) if tier == 'quick' else (0, 1, 2, 3)):
            for prefixed in ((True,) if strip == 0 else (True, False)):
                if not prefixed and (tier == 'quick' or strip > 2):
                    continue
                for kind, positions in GRID_KINDS:
                    for pos in positions:
                        for threads in ((1,) if tier == 'quick' else (1, 2)):
                            gtasks.append((name, strip, prefixed, kind, pos, False, threads))
                            if tier != 'quick' and ncomp <= 2 and threads == 1:
                                gtasks.append((name, strip, prefixed, kind, pos, True, threads))
    accg = wsweep.Acc(res)
    for i, r in enumerate(wsweep.pmap(grid_case, gtasks)):
        if i % 4999 == 0:
            r = dict(r)
            r['sample'] = {'task': list(gtasks[i]), 'outcome': sorted(r['outcomes'])}
        accg.add(r)
    accg.finish('name_grid')
    res.coverage['name_grid']['rule'] = ('every name of 1..%d components over {a, x, .., .} (%s) x -p0..-p%d, once behind as many extra leading components as are stripped and once with the strip count eating into the '
                                         'name itself, x the same kinds and header positions as the sweep x threads %s; the workspace sits four levels inside the sentinel, decoys x, a/x, a/a at every level. What -pN leaves is '
                                         'computed by the rule of patch(1) (a component ends with its run of slashes). Same oracle as the sweep; non-trivial = what is left is absolute or climbs out'
                                         % (maxlen, 'also with a doubled slash at each joint and with a trailing slash' if variants else 'single slashes', 2 if tier == 'quick' else 3, '{1}' if tier == 'quick' else '{1,2}; quoted form for names of up to two components'))
    ltasks = []
    for name, kinds in (('out/created', ('create', 'rename-to')), ('out/x', ('modify', 'delete', 'failing')), ('out/sub/x', ('delete', 'modify')), ('out/new/deep/f', ('create',)), ('lnk', ('modify', 'delete', 'failing')),
                        ('dangling', ('create', 'rename-to')), ('loop', ('create', 'modify')), ('inside/f', ('modify', 'delete', 'failing')), ('inside/n', ('create',)), ('inlnk', ('modify',)), ('sub/f', ('modify', 'delete')), ('sub/new', ('create',))):
        for kind in kinds:
            for threads in (1, 2):
                for backup in ('never', 'always'):
                    ltasks.append((name, kind, threads, backup))
    acc2 = wsweep.Acc(res)
    for r in wsweep.pmap(link_case, ltasks):
        acc2.add(r)
    acc2.finish('symbolic_links_in_the_tree')
    acc3 = wsweep.Acc(res)
    for r in wsweep.pmap(workdir_case, [(1,), (2,)]):
        acc3.add(r)
    acc3.finish('working_directory_emptied')
    res.coverage['symbolic_links_in_the_tree']['rule'] = ('the tree holds links %r (a directory outside, a file outside, a dangling one pointing outside, a loop, a directory and a file inside); patches with innocent names that '
                                                          'go through them (create, modify, delete, failing hunk => reject, rename target) x threads {1,2} x backups on/off, behind a patch that applies. Oracle: outside of the '
                                                          'workspace nothing changes (bytes, modes, inodes, mtimes); what leads out is refused with exit 1 and nothing touched; links that stay inside work as before') % (LINKS,)
    cov = res.coverage
    cov['rule'] = ('name spellings %s (absolute path, ".." components in several shapes; quoted C-string form with an octal escape as well) x header position (---, +++, both, diff --git, rename target/source) '
                   'x file-patch kind (create, modify, delete, rename to/from, mode change, failing hunk => reject file) x -p0..-p3 (the name carries as many extra leading components) x threads {1,2}; the '
                   'workspace sits two levels inside a sentinel directory holding decoy files at every target. Oracle: sentinel snapshot outside the workspace identical (bytes, modes, inodes, mtimes); the '
                   'monitor log shows no call - read or write - on a path outside the workspace; exit class 1 whenever the name still escapes after stripping; never a crash. non-trivial = names that escape after stripping') % [s for _, s in SPELLINGS]
    return res
