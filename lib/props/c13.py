"""C13 - reject files hold exactly the failed hunks of the failing patch (CLI level)."""
import common
import toyquilt as tq
import wsprops

NEEDS = ('rq', 'rqmc')


def run(tier, seed):
    res = common.Result('model_checking')
    m0 = tq.initial(with_spacey=True)
    space = tq.c13_space(2 if tier == 'quick' else 3, m0=m0)
    extra = [s for s in tq.enumerate_series(2, 2, allow_after_failure=1) if any(not p.ok() for p in s)]
    # failing patches applied with -R / -p0 / -p2: rejects carry the hunks as written in the patch file, names stripped
    extra += [s for s in tq.with_patch_options([x for x in tq.enumerate_series(2, 1, allow_after_failure=1) if any(not p.ok() for p in x)], 2) if any(p.reverse or p.strip != 1 for p in s)]
    seen, uniq = set(), []
    for s in space + extra + [x for x in tq.special_series(m0) if any(not p.ok() for p in x)]:
        k = tq.describe_series(s)
        if k not in seen:
            seen.add(k)
            uniq.append(s)
    cfgs = [{'threads': t, 'backup': 'never', 'quiet': True} for t in (1, 2, 3)] + [{'threads': 1, 'backup': 'always', 'quiet': False}]
    wsprops.sweep('C13', res, m0, uniq, cfgs, 'sweep')
    import rawcases
    rawcases.run_expect('C13', res)
    cov = res.coverage
    cov['series'] = len(uniq)
    cov['configs'] = len(cfgs)
    cov['rule'] = ('failing patches with 1..%d files and 1..3 hunks per file, every non-empty subset of hunks failing, with/without a plain patch before and after; every failure reason '
                   'of the template menu (no match, partial, missing file, create over existing, delete mismatch, misordered hunks, missing target directory, rename onto existing) alone '
                   'and beside a plain entry; all failing series with <= 2 file patches and <= 2 deviations; x threads {1,2,3 (serial schedule)}. Oracle: set of *.rej == files of the failing '
                   'patch with a failing hunk (directory rule of DESIGN 5/C13), each parsed with the real parser to one file patch naming the file whose hunks equal the failing hunks '
                   '(old/new lines and start lines) in order. non-trivial = every case (each has a failing patch)') % (2 if tier == 'quick' else 3)
    res.assumptions = ['schedules other than the serial one are explored by C06 (whose oracle includes the reject files)']
    return res
