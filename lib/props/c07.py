"""C07 - file names related through any patch are always handled by the same worker.

Explicit-state BFS over the real FilenameDistributor (rqdist), to fixpoint for N names."""
import common

NEEDS = ('rqdist',)


def run(tier, seed):
    n = 5 if tier == 'quick' else 6
    doc = common.run_engine([common.RQDIST, 'bfs', str(n)])
    res = common.Result('model_checking')
    common.merge_engine(res, doc)
    cov = res.coverage
    cov['rule'] = ('BFS over all sequences of FilenameDistributor::add(x, None|y) over 2..%d names (new names introduced '
                   'smallest-first, a symmetry reduction), deduplicated by the exact key (distributor tables + reference partition), '
                   'run to fixpoint; build() evaluated in every state for thread counts 64,2,3,4,5,7,8,16; non-trivial = states '
                   'whose reference partition has a block of >= 2 names') % n
    cov['max_depth'] = doc['max_depth']
    cov['exhaustive'] = bool(doc['fixpoint'])
    cov['fixpoint'] = doc['fixpoint']
    cov['per_names'] = doc['per_names']
    cov['traces_validated_against_impl'] = doc['transitions'] + len(doc['per_names'])
    cov['bad_states'] = doc['counters'].get('bad_states', 0)
    res.assumptions = ['the harness includes /repo/src/rapidquilt/apply/mod.rs via #[path]; FilenameDistributor::verif_state() (cfg hook) exposes its two tables',
                       'the CLI-level consequence (no file loaded by two workers) is monitored by the C06 schedule explorer']
    if doc['states'] < 50:
        res.machinery_errors.append('vacuous: only %d states' % doc['states'])
    return res
