"""C07 - file names related through any patch are always handled by the same worker.

Explicit-state BFS over the real FilenameDistributor (rqdist), to fixpoint for N names."""
import common
import sched
import toyquilt as tq
import wsweep

NEEDS = ('rqdist', 'rq')


def run(tier, seed):
    n = 5 if tier == 'quick' else 6
    doc = common.run_engine([common.RQDIST, 'bfs', str(n)])
    res = common.Result('model_checking')
    common.merge_engine(res, doc)
    cov = res.coverage
    cov['rule'] = ('BFS over all sequences of FilenameDistributor::add(x, None|y) over 2..%d names (new names introduced '
                   'smallest-first, a symmetry reduction), deduplicated by the exact key (distributor tables + reference partition), '
                   'run to fixpoint; build() evaluated in every state for thread counts 64,2,3,4,5,7,8,16; non-trivial = states '
                   'whose reference partition has a block of >= 2 names') % n
    cov['max_depth'] = doc['max_depth']
    cov['exhaustive'] = bool(doc['fixpoint'])
    cov['fixpoint'] = doc['fixpoint']
    cov['per_names'] = doc['per_names']
    cov['traces_validated_against_impl'] = doc['transitions'] + len(doc['per_names'])
    cov['bad_states'] = doc['counters'].get('bad_states', 0)
    res.assumptions = ['the harness includes /repo/src/rapidquilt/apply/mod.rs via #[path]; FilenameDistributor::verif_state() (cfg hook) exposes its two tables',
                       'the CLI-level consequence (no file loaded by two workers) is monitored by the C06 schedule explorer']
    cli_part(tier, res)
    if doc['states'] < 50:
        res.machinery_errors.append('vacuous: only %d states' % doc['states'])
    return res


def cli_case(task):
    m0, series, threads = task
    r = sched.explore(m0, series, {'backup': 'never', 'quiet': True}, threads, 0, max_schedules=40)
    return {'schedules': r['schedules'], 'workers': r['workers'], 'machinery': r['machinery'],
            'violations': [(mode, w) for mode, w in r['violations'] if mode == 'file-handled-by-two-workers'], 'tags': sorted(wsweep.tags_of(series))}


def cli_part(tier, res):
    """the consequence at CLI level: under the real driver no file is loaded or written by two workers. Series in which
    names are related through renames, differing ---/+++ names, names deleted and re-used; serial schedules of N workers."""
    m0 = tq.initial()
    rel = ('rename', 'renameH', 'orig', 'viaold', 'createB', 'renameonto')
    space = tq.enumerate_series(3, 1, allow_after_failure=1) if tier == 'quick' else tq.enumerate_series(3, 2, allow_after_failure=1)
    series = [s for s in space if wsweep.tags_of(s) & set(rel) and len(s) >= 2]
    series = series[::3] if tier == 'quick' else series[::12]   # every 3rd / 12th series of the filtered space (the spaces are 3.6 k / 92 k series)
    # one file under two spellings (a -p0 entry saying ./name): still one name, one worker
    dotted = []
    for s in [x for x in space if len(x) >= 2 and len({f for p in x for fp in p.fps for f in fp.files}) < sum(len(fp.files) for p in x for fp in p.fps)][::(7 if tier == 'quick' else 3)][:200]:
        for i in range(len(s)):
            v = [tq.Patch(p.fps, p.reverse, p.strip, p.empty) for p in s]
            v[i] = tq.Patch(s[i].fps, s[i].reverse, 'dot', s[i].empty)
            dotted.append(v)
    series = series + dotted
    tasks = [(m0, s, n) for s in series for n in ((2, 3) if tier == 'quick' else (2, 3, 4))]
    runs = multi = 0
    for t, r in zip(tasks, wsweep.pmap(cli_case, tasks)):
        runs += r['schedules']
        multi += 1 if r['workers'] >= 2 else 0
        for m in r['machinery']:
            res.machinery_errors.append(m)
        for mode, w in r['violations']:
            res.violation(wsweep.cls(set(r['tags']) | {'N=%d' % t[2]}), mode, w)
    cov = res.coverage
    cov['cli_consequence'] = {'series': len(series), 'explorations': len(tasks), 'runs': runs, 'explorations_with_two_or_more_workers': multi,
                              'rule': 'series with >= 2 patches whose file patches relate names (git renames, .orig-style names, names removed and re-used), every serial order of the N workers '
                                      '(N = 2,3%s) of the real hooked binary; the trace must show every file name loaded, removed or created by one worker only' % ('' if tier == 'quick' else ',4')}
    cov['evaluations'] = cov.get('evaluations', 0) + runs
