"""C01 - a unified diff A->B pushed onto A yields exactly B (and -R yields A).

Lib level: every edit script up to a bound, rendered by the reference differ in rqmc, applied by the
real parser + apply; oracle = B itself, offset 0, fuzz 0.  CLI level (header dialects, -pN, on-disk
create/delete): lib/dialects.py through the real binary."""
import common

NEEDS = ('rqmc', 'rq')


def run(tier, seed):
    res = common.Result('model_checking')
    if tier == 'quick':
        runs = [['2', '6', '3'], ['n', '3', '3']]
    else:
        runs = [['2', '8', '3'], ['n', '4', '3']]
    spaces = []
    for a in runs:
        doc = common.run_engine_parts([common.RQMC, 'c01'] + a)
        common.merge_engine(res, doc)
        spaces.append({'alphabet': doc['alphabet'], 'max_script_len': doc['max_script_len'], 'max_context': doc['max_context'],
                       'evaluations': doc['evaluations'], 'ok': doc['counters'].get('ok', 0), 'wall_s': doc['wall_s']})
    try:
        import dialects
        dialects.run_c01(tier, seed, res)
    except ImportError:
        pass
    cov = res.coverage
    cov['lib_spaces'] = spaces
    cov['rule'] = ('all edit scripts over {keep,del,add} x alphabet up to the stated length, x flags {A/B without final newline, A/B absent} '
                   'x context width 0..3 x {hunks whose contexts abut merged | left separate} x direction (forward on A, -R on B); '
                   'every case is distinct by construction; non-trivial = more than one hunk, or a hunk with an empty side, or a '
                   '"\\ No newline" marker, or an absent side')
    res.assumptions = ['lines are opaque to the code (compared for equality only): small alphabets realise every equality pattern up to the bound',
                       'the reference differ (rqmc/src/c01.rs, ~100 lines) emits GNU-style unified diffs; it is validated by the fact that millions of its diffs apply cleanly']
    if cov.get('evaluations', 0) < 100000:
        res.machinery_errors.append('vacuous: %s evaluations' % cov.get('evaluations'))
    return res
