"""C14 - --mmap, verbosity, colour, statistics and analyses never change the result (CLI level, differential)."""
import itertools
import os

import common
import toyquilt as tq
import ws
import wsweep

NEEDS = ('rq',)

OPTS = [('--mmap',), ('-v',), ('-v', '-v'), ('--color', 'always'), ('--color', 'never'), ('--stats',), ('-A', 'multiapply')]


def option_sets():
    out = []
    for mmap in (False, True):
        for verb in ((), ('-q',), ('-v',), ('-v', '-v')):
            for color in ((), ('--color', 'always'), ('--color', 'never')):
                for stats in (False, True):
                    for ana in (False, True):
                        o = []
                        if mmap:
                            o.append('--mmap')
                        o += verb + color
                        if stats:
                            o.append('--stats')
                        if ana:
                            o += ['-A', 'multiapply']
                        out.append(o)
    return out


def state(o, snap):
    return (o.cls, tuple(sorted(ws.tree_of(snap).items())), tuple(sorted(ws.pc_of(snap).items())), tuple(sorted(ws.rejects_of(snap).items())), tuple(ws.dirs_of(snap)))


def case(task):
    m0, series, threads, sets = task
    d = wsweep.wdir()
    root = os.path.join(d, 'ws')
    names = tq.names_for(series)
    files, patches, lines = tq.workspace_of(m0, series, names)
    base_tags = wsweep.tags_of(series) | {'threads>1' if threads > 1 else 'threads=1'}
    out = {'evals': 0, 'violations': [], 'outcomes': {}, 'nontrivial': 0}
    ws.make_ws(root, files, patches, lines)
    o = ws.run_rq(root, ['-a', '-q'], threads=threads, trace=os.path.join(d, 'trace'))
    ref = state(o, ws.snapshot(root))
    out['evals'] += 1
    for opts in sets:
        ws.make_ws(root, files, patches, lines)
        o = ws.run_rq(root, ['-a'] + opts, threads=threads, trace=os.path.join(d, 'trace'))
        st = state(o, ws.snapshot(root))
        out['evals'] += 1
        out['nontrivial'] += 1
        out['outcomes']['exit-' + o.cls] = out['outcomes'].get('exit-' + o.cls, 0) + 1
        if st != ref:
            diff = [n for n, a, b in zip(('exit', 'tree', '.pc', 'rejects', 'directories'), st, ref) if a != b]
            tags = set(base_tags)
            if '--mmap' in opts:
                tags.add('--mmap')
            if '-q' not in opts:
                tags.add('not-quiet')
            mode = st[0] if st[0] not in ('0', '1') else 'differs-from-quiet-default-run:' + ','.join(diff)
            out['violations'].append((wsweep.cls(tags), mode, wsweep.witness(m0, series, {'goal': ['-a'], 'quiet': False, 'extra': opts, 'threads': threads},
                                                                            {'expected': 'outcome of `push -a -q` (exit %s)' % ref[0], 'observed': 'exit %s; differs in %s' % (st[0], diff), 'stderr': common.b2s(o.err[-300:])}, names)))
    return out


def repetitive_case(task):
    """files with repeated lines (where a hunk's old side occurs several times): the analyses must not change anything"""
    content, i, ctx, threads = task
    d = wsweep.wdir()
    root = os.path.join(d, 'ws')
    lines = [c.encode() for c in content]
    s0, e0 = max(0, i - ctx), min(len(lines), i + 1 + ctx)
    body = b''.join(b' ' + l + b'\n' for l in lines[s0:i]) + b'-' + lines[i] + b'\n+NEW\n' + b''.join(b' ' + l + b'\n' for l in lines[i + 1:e0])
    text = b'--- a/f\n+++ b/f\n@@ -%d,%d +%d,%d @@\n' % (s0 + 1, e0 - s0, s0 + 1, e0 - s0) + body
    files = {'f': (b''.join(l + b'\n' for l in lines), 0o644)}
    out = {'evals': 0, 'violations': [], 'outcomes': {}, 'nontrivial': 0}
    ref = None
    for opts in (['-q'], ['-q', '-A', 'multiapply'], ['-A', 'multiapply'], ['-v', '-A', 'multiapply', '--stats']):
        ws.make_ws(root, files, {'p1.patch': text}, ['p1.patch'])
        o = ws.run_rq(root, ['-a'] + opts, threads=threads, trace=os.path.join(d, 'trace'))
        st = state(o, ws.snapshot(root))
        out['evals'] += 1
        if ref is None:
            ref = st
            continue
        out['nontrivial'] += 1
        out['outcomes']['exit-' + o.cls] = out['outcomes'].get('exit-' + o.cls, 0) + 1
        if st != ref:
            mode = st[0] if st[0] not in ('0', '1') else 'differs-from-quiet-default-run'
            out['violations'].append((wsweep.cls({'repetitive-file', 'analysis:multiapply', 'threads>1' if threads > 1 else 'threads=1'}), mode,
                                      {'kind': 'cli', 'files': {'f': [common.b2s(files['f'][0]), 0o644]}, 'patches': {'p1.patch': common.b2s(text)}, 'series': ['p1.patch'], 'args': ['-a'] + opts, 'threads': threads,
                                       'expected': 'outcome of `push -a -q` (exit %s)' % ref[0], 'observed': 'exit %s' % st[0], 'stderr': common.b2s(o.err[-300:])}))
    return out


def multi_entry_case(task):
    """the failing patch names the file several times, earlier patches of the same push touched it too: the failure report tries
    things out on copies (earlier patches taken back, more fuzz) and must leave the outcome alone whatever those trials run into"""
    prev_line, b_line, a_fails_first, with_prev, threads = task
    d = wsweep.wdir()
    root = os.path.join(d, 'ws')
    L = [b'f%d' % i for i in range(8)]

    def hunk(lines, i, new, wrong=False):
        lo, hi = max(0, i - 1), min(len(lines), i + 2)
        body = b''
        for j in range(lo, hi):
            body += (b'-' + (b'WRONG' if wrong else lines[j]) + b'\n+' + new + b'\n') if j == i else (b' ' + lines[j] + b'\n')
        return b'@@ -%d,%d +%d,%d @@\n' % (lo + 1, hi - lo, lo + 1, hi - lo) + body
    cur = list(L)
    patches, series = {}, []
    if with_prev:
        patches['p0.patch'] = b'--- a/f\n+++ b/f\n' + hunk(cur, prev_line, b'P')
        cur[prev_line] = b'P'
        series.append('p0.patch')
    # entry A: one hunk that goes in (line 1) and one that does not (line 6); entry B: changes one line; B comes behind A (and is
    # written against what A leaves) or in front of it (and A against what B leaves)
    if not a_fails_first:
        first = b'--- a/f\n+++ b/f\n' + hunk(cur, 1, b'A1') + hunk(cur, 6, b'Q', wrong=True)
        mid = list(cur)
        mid[1] = b'A1'
        second = b'--- a/f\n+++ b/f\n' + hunk(mid, b_line, b'B')
    else:
        first = b'--- a/f\n+++ b/f\n' + hunk(cur, b_line, b'B')
        mid = list(cur)
        mid[b_line] = b'B'
        second = b'--- a/f\n+++ b/f\n' + hunk(mid, 1, b'A1') + hunk(mid, 6, b'Q', wrong=True)
    patches['p1.patch'] = first + second
    series.append('p1.patch')
    patches['p2.patch'] = b'--- a/g\n+++ b/g\n@@ -1 +1 @@\n-g\n+G\n'
    series.append('p2.patch')
    files = {'f': (b''.join(l + b'\n' for l in L), 0o644), 'g': (b'g\n', 0o644)}
    out = {'evals': 0, 'violations': [], 'outcomes': {}, 'nontrivial': 0}
    for quiet, louder in ((['-q'], ([], ['-v'])), (['-q', '--fuzz', '2'], (['--fuzz', '2'],))):
        ws.make_ws(root, files, patches, series)
        oq = ws.run_rq(root, ['-a'] + quiet, threads=threads, trace=os.path.join(d, 'trace'))
        ref = state(oq, ws.snapshot(root))
        out['evals'] += 1
        for opts in louder:
            ws.make_ws(root, files, patches, series)
            o = ws.run_rq(root, ['-a'] + opts, threads=threads, trace=os.path.join(d, 'trace'))
            st = state(o, ws.snapshot(root))
            out['evals'] += 1
            out['nontrivial'] += 1
            out['outcomes']['exit-' + o.cls] = out['outcomes'].get('exit-' + o.cls, 0) + 1
            if st != ref:
                mode = st[0] if st[0] not in ('0', '1') else 'differs-from-quiet-run'
                out['violations'].append((wsweep.cls({'failing-patch-names-the-file-twice', 'earlier-patch-touched-it' if with_prev else 'no-earlier-patch', 'not-quiet', 'threads>1' if threads > 1 else 'threads=1'}), mode,
                                          {'kind': 'cli', 'files': {k: [common.b2s(v[0]), v[1]] for k, v in files.items()}, 'patches': {k: common.b2s(v) for k, v in patches.items()}, 'series': series, 'args': ['-a'] + opts, 'threads': threads,
                                           'expected': 'outcome of the same push with %s (exit %s)' % (' '.join(quiet), ref[0]), 'observed': 'exit %s' % st[0], 'stderr': common.b2s(o.err[-300:])}))
    return out


def many_files_case(task):
    """more files than a process may have mappings (vm.max_map_count, 65530 by default; every file and every patch takes one with --mmap)"""
    import hashlib
    import os
    import ws
    n, threads = task
    root = os.path.join(wsweep.wdir(), 'ws')
    out = {'evals': 0, 'nontrivial': 0, 'violations': [], 'outcomes': {}}
    res = {}
    for extra in ([], ['--mmap']):
        ws.make_ws(root, {}, {}, [])
        os.makedirs(os.path.join(root, 's'))
        with open(os.path.join(root, 'series'), 'w') as sf:
            for i in range(n):
                with open('%s/s/%06d' % (root, i), 'w') as f:
                    f.write('a\n')
                with open('%s/patches/%06d.patch' % (root, i), 'w') as f:
                    f.write('--- a/s/%06d\n+++ b/s/%06d\n@@ -1 +1 @@\n-a\n+b\n' % (i, i))
                sf.write('%06d.patch\n' % i)
        o = ws.run_rq(root, ['-a', '-q', '--backup', 'never'] + extra, threads=threads, timeout=120)
        h = hashlib.sha1()
        for i in range(n):
            with open('%s/s/%06d' % (root, i), 'rb') as f:
                h.update(f.read())
        applied = len(ws.applied_of(ws.snapshot(os.path.join(root, '.pc'), skip=())) if False else open(os.path.join(root, '.pc', 'applied-patches')).read().split()) if os.path.exists(os.path.join(root, '.pc', 'applied-patches')) else 0
        res[tuple(extra)] = (o.cls, h.hexdigest(), applied, common.b2s(o.err[-200:]))
        out['evals'] += 1
        out['outcomes']['many-files%s:exit-%s' % (''.join(extra), o.cls)] = 1
    out['nontrivial'] = 1
    a, b = res[()], res[('--mmap',)]
    if a[:3] != b[:3]:
        out['violations'].append(('--mmap+more-files-than-mappings+threads%s1' % ('>' if threads > 1 else '='), b[0] if b[0] not in ('0', '1') else 'differs-from-default-loader',
                                  {'kind': 'generated', 'how': '%d files s/NNNNNN holding "a", one patch per file changing it to "b"; push -a -q --backup never [--mmap]' % n, 'threads': threads,
                                   'expected': 'exit %s, %d patches applied' % (a[0], a[2]), 'observed': 'exit %s, %d patches applied, stderr %r' % (b[0], b[2], b[3])}))
    return out


def run(tier, seed):
    res = common.Result('model_checking')
    m0 = tq.initial(with_empty=True)
    sets = option_sets()
    if tier == 'quick':
        series = tq.with_patch_options(tq.enumerate_series(1, 1, m0=m0), 1)
        two = tq.enumerate_series(2, 1, allow_after_failure=1, m0=m0)
        series += [s for s in two if any(not p.ok() for p in s)][::7]
    else:
        series = tq.with_patch_options(tq.enumerate_series(2, 1, allow_after_failure=1, m0=m0), 1)
    # several entries for one file in the failing patch (the diagnostics re-apply and roll back file patches)
    for steps in ([[(tq.t_mod, 'f'), (tq.t_modfail, 'f')]], [[(tq.t_modfail, 'f'), (tq.t_mod, 'f', 1, 0, 4)]], [[(tq.t_mod, 'f')], [(tq.t_partial, 'f'), (tq.t_mod, 'f', 1, 0, 2)]],
                  [[(tq.t_mod, 'f'), (tq.t_mod, 'f', 1, 0, 4), (tq.t_modfail, 'f')]],
                  # a later entry changes a line inside the context of a hunk the failing entry did apply
                  [[(tq.t_partial, 'f'), (tq.t_mod, 'f', 0, 0, 1)]], [[(tq.t_mod, 'd/g')], [(tq.t_partial, 'f'), (tq.t_mod, 'f', 0, 0, 1), (tq.t_mod, 'd/h')]]):
        s = tq.build_series(m0, steps)
        if s:
            series.append(s)
    # failing hunks in many shapes of mismatch: the failure diagnostics (closest match, hints) run only without -q
    verb_sets = [o for o in sets if '--mmap' not in o and '--stats' not in o and '-A' not in o and '--color' not in o]
    shapes = tq.failing_shapes(m0, 'e/i') + (tq.failing_shapes(m0, 'f') if tier != 'quick' else [])
    shape_series = [[tq.Patch([fp])] for fp in shapes] + [[tq.Patch([tq.t_mod(m0, tq.Fresh(), 'd/g'), fp])] for fp in shapes[::3]]
    tasks = [(m0, s, t, sets) for s in series for t in (1, 2)] + [(m0, s, t, verb_sets) for s in shape_series for t in (1, 2)]
    # hand-written workspaces with symbolic links (the loaders follow them; what they see must not depend on the loader)
    import rawcases
    tasks += [(m0, c, t, sets) for c in rawcases.for_prop('C14') for t in (1, 2)]
    acc = wsweep.Acc(res)
    for i, r in enumerate(wsweep.pmap(case, tasks)):
        if i % 97 == 0:
            r = dict(r)
            r['sample'] = {'series': tq.describe_series(tasks[i][1]), 'threads': tasks[i][2], 'option_sets': len(sets), 'outcomes': r['outcomes']}
        acc.add(r)
    acc.finish('sweep')
    import itertools
    rep_tasks = []
    for n in range(3, 7 if tier == 'quick' else 8):
        for content in itertools.product('ab', repeat=n):
            for i in range(n):
                for ctx in (1, 2):
                    rep_tasks.append((content, i, ctx, 1 + (i + n) % 2))
    acc2 = wsweep.Acc(res)
    for i, r in enumerate(wsweep.pmap(repetitive_case, rep_tasks)):
        if i % 499 == 0:
            r = dict(r)
            r['sample'] = {'file_lines': ''.join(rep_tasks[i][0]), 'changed_line': rep_tasks[i][1], 'context': rep_tasks[i][2], 'outcomes': r['outcomes']}
        acc2.add(r)
    acc2.finish('repetitive_files_with_analyses')
    accm = wsweep.Acc(res)
    mtasks = [(pl, bl, afirst, wp, t) for pl in (0, 1, 3, 6) for bl in (0, 1, 2, 4, 6) for afirst in (False, True) for wp in (True, False) for t in (1, 2) if wp or pl == 0]
    for r in wsweep.pmap(multi_entry_case, mtasks):
        accm.add(r)
    accm.finish('failing_patch_with_several_entries_for_one_file')
    res.coverage['failing_patch_with_several_entries_for_one_file']['rule'] = ('an 8-line file; optionally an earlier patch of the same push changing line 0/1/3/6; the failing patch has an entry with one hunk that goes in '
                                                                               '(line 1) and one that does not, and a second entry for the same file changing line 0/1/2/4/6 of what the first leaves (in either order of the two entries); '
                                                                               'a patch behind it; x threads {1,2}: default verbosity, -v and --fuzz 2 must give what the quiet run gives (exit, tree, .pc, rejects)')
    acc3 = wsweep.Acc(res)
    for r in wsweep.pmap(many_files_case, [(34000, 1), (34000, 2)] if tier == 'quick' else [(34000, 1), (34000, 2), (70000, 1), (70000, 3)]):
        acc3.add(r)
    acc3.finish('more_files_than_mappings')
    res.coverage['more_files_than_mappings']['rule'] = '34000 (thorough: also 70000) one-line files, one patch each: `push -a` with and without --mmap give the same exit status, contents and applied-patches'
    cov = res.coverage
    cov['series'] = len(series)
    cov['failing_hunk_shapes'] = len(shapes)
    cov['option_sets'] = len(sets)
    cov['rule'] = ('workspaces of the C05 alphabet extended with a zero-length source file and zero-length patch files x all %d combinations of --mmap, {none,-q,-v,-vv}, '
                   '--color {unset,always,never}, --stats, -A multiapply x threads {1,2}; plus %d single failing hunks in systematic shapes of mismatch (a wrong / extra / missing line at each position, context past the end or before the start of the file, foreign hunks, far-off line numbers) x verbosity x threads; plus every file over {a,b} with 3..6 lines x every single-line replacement with 1-2 context lines (old side repeated in the file) with and without -A multiapply/--stats. Oracle (differential): exit class, tree, .pc and reject files equal those of the `-q` '
                   'default-loader run of the same workspace. non-trivial = every non-reference run') % (len(sets), len(shapes))
    return res
