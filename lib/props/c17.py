"""C17 - inconsistent quilt state or arguments are refused cleanly, nothing is touched (CLI level)."""
import itertools
import os
import shutil

import common
import toyquilt as tq
import ws
import wsweep

NEEDS = ('rq',)

NAMES = ['p1', 'p2', 'p3']
TARGET = {'p1': 'f', 'p2': 'd/g', 'p3': 'e/i'}


def patch_texts(m0):
    fresh = tq.Fresh()
    return {n: tq.t_mod(m0, fresh, TARGET[n]).text() for n in NAMES}


def seqs(maxlen, dup):
    out = [()]
    for l in range(1, maxlen + 1):
        for s in itertools.product(NAMES, repeat=l):
            if dup or len(set(s)) == len(s):
                out.append(s)
    return out


def entries(series):
    return tuple(x for x in series if x and not x.startswith('#'))


def is_prefix(applied, series):
    series = entries(series)
    return len(applied) <= len(series) and tuple(series[:len(applied)]) == tuple(applied)


def refused_unchanged(o, before, after):
    v = []
    if o.cls != '1':
        v.append('exit-' + o.cls)
    elif not o.err.strip():
        v.append('no-message')
    changed = sorted(p for p in set(before) | set(after) if before.get(p) != after.get(p))
    if changed:
        v.append('workspace-changed')
    return v, changed


def case_state(task):
    """(series, applied) pairs x goals: inconsistent state or bad goal must be refused"""
    m0, texts, series, applied, goals, threads, quiet = task
    d = wsweep.wdir()
    root = os.path.join(d, 'ws')
    out = {'evals': 0, 'violations': [], 'outcomes': {}, 'nontrivial': 0}
    consistent = is_prefix(applied, series)
    for goal in goals:
        files = m0.files()
        ws.make_ws(root, files, {n: texts[n] for n in NAMES}, list(series), applied=None)
        if consistent and applied:
            # a really pushed prefix
            o0 = ws.run_rq(root, [str(len(applied)), '-q', '--backup', 'never'], threads=1)
            if o0.cls != '0':
                continue
        elif applied:
            os.makedirs(os.path.join(root, '.pc'), exist_ok=True)
            open(os.path.join(root, '.pc', 'applied-patches'), 'w').write(''.join(a + '\n' for a in applied))
        if not consistent:
            reason = 'applied-patches-longer-than-series' if (len(applied) > len(entries(series)) and tuple(applied[:len(entries(series))]) == entries(series)) else 'applied-patches-differs-from-series'
        elif goal is not None and goal.split()[-1] in NAMES and goal.split()[-1] in applied:
            reason = 'goal-already-applied' + ('-with-a' if goal.startswith('-a ') else '')   # a goal argument beats -a
        elif goal is not None and (goal.split()[-1] == 'bogus' or (goal.split()[-1] in NAMES and goal.split()[-1] not in entries(series))):
            reason = 'goal-not-in-series' + ('-with-a' if goal.startswith('-a ') else '')
        else:
            reason = None
        gargs = [] if goal is None else (goal.split() if goal.startswith('-a ') else [goal])
        args = gargs + (['-q'] if quiet else []) + ['--backup', 'never']
        before = ws.snapshot(root, meta=True, skip=())
        o = ws.run_rq(root, args, threads=threads, trace=os.path.join(d, 'trace'))
        after = ws.snapshot(root, meta=True, skip=())
        out['evals'] += 1
        w = lambda extra: dict({'kind': 'cli', 'files': {k: [common.b2s(v[0]), v[1]] for k, v in files.items()}, 'patches': {n: common.b2s(texts[n]) for n in NAMES}, 'series': list(series),
                               'applied': list(applied) if not consistent else None, 'before': [{'args': [str(len(applied)), '-q', '--backup', 'never']}] if (consistent and applied) else [],
                               'args': args, 'threads': threads, 'series_desc': 'series=%r applied=%r goal=%r' % (series, applied, goal)}, **extra)
        tags = wsweep.cls({reason or 'consistent', 'threads>1' if threads > 1 else 'threads=1', 'quiet' if quiet else 'not-quiet'})
        if o.cls not in ('0', '1'):
            out['violations'].append((tags, o.cls, w({'expected': 'exit 1 and a message' if reason else 'exit 0 or 1', 'observed': o.cls, 'stderr': common.b2s(o.err[-300:])})))
            continue
        out['outcomes'][reason or 'consistent'] = out['outcomes'].get(reason or 'consistent', 0) + 1
        if reason:
            out['nontrivial'] += 1
            v, changed = refused_unchanged(o, before, after)
            for mode in v:
                out['violations'].append((tags, mode, w({'expected': 'exit 1, a message, nothing changed', 'observed': 'exit %s, stderr %r, changed %r' % (o.cls, common.b2s(o.err[:200]), changed[:5])})))
    return out


BAD = {
    'missing': None,
    'truncated-hunk': b'--- a/f\n+++ b/f\n@@ -1,3 +1,3 @@\n f0\n',
    'bad-hunk-header': b'--- a/f\n+++ b/f\n@@ -x,3 +1,3 @@\n f0\n',
    'git-binary': b'diff --git a/f b/f\nindex 1a..2b 100644\nGIT binary patch\nliteral 0\n',
    'bad-line-in-hunk': b'--- a/f\n+++ b/f\n@@ -1,2 +1,2 @@\n f0\nxf1\n+X\n',
    'is-a-directory': 'DIR',
    # a directory whose size is 0 (every empty directory on btrfs; here: a link to one in sysfs) - not an empty patch
    'is-a-zero-size-directory': 'SYSDIR',
}
ZERO_SIZE_DIR = '/sys/kernel'


# a line that begins like a hunk header but is not one: the patch is refused, the hunk is not quietly skipped
for _i, _h in enumerate([b'@@ -1,3 1,3 @@', b'@@ -1,3 +1,3', b'@@ -1,3+1,3 @@', b'@@ -1,,3 +1,3 @@', b'@@ -1,3 +1,x @@', b'@@ -1,3 +,3 @@', b'@@ -1 3 +1,3 @@', b'@@ -1,3  +1,3 @@', b'@@ -1,3 +1,3@@',
                         b'@@ -,3 +1,3 @@', b'@@ --1,3 +1,3 @@', b'@@ -1,3 + 1,3 @@']):
    BAD['malformed-hunk-header-%d' % _i] = b'--- a/f\n+++ b/f\n' + _h + b'\n f0\n-f1\n+X\n f2\n'
# ... also as the second hunk, behind one that is fine
BAD['malformed-second-hunk-header'] = b'--- a/f\n+++ b/f\n@@ -1,2 +1,2 @@\n-f0\n+X\n f1\n@@ -4,2 4,2 @@\n f3\n-f4\n+Y\n'


def case_badpatch(task):
    """a missing / unparseable / unreadable patch file at position j of the range, everything before it applies"""
    m0, texts, prior, j, kind, threads, quiet = task[:7]
    mmap = len(task) > 7 and task[7]
    d = wsweep.wdir()
    root = os.path.join(d, 'ws')
    series = list(NAMES)
    files = m0.files()
    patches = {n: texts[n] for n in NAMES}
    ws.make_ws(root, files, patches, series)
    if prior:
        o0 = ws.run_rq(root, [str(prior), '-q', '--backup', 'never'], threads=1)
    bad = os.path.join(root, 'patches', series[j])
    os.unlink(bad)
    if BAD[kind] == 'DIR':
        os.mkdir(bad)
    elif BAD[kind] == 'SYSDIR':
        os.symlink(ZERO_SIZE_DIR, bad)
    elif BAD[kind] is not None:
        open(bad, 'wb').write(BAD[kind])
    args = ['-a'] + (['-q'] if quiet else []) + ['--backup', 'always'] + (['--mmap'] if mmap else [])
    before = ws.snapshot(root, meta=True, skip=())
    o = ws.run_rq(root, args, threads=threads, trace=os.path.join(d, 'trace'))
    after = ws.snapshot(root, meta=True, skip=())
    out = {'evals': 1, 'violations': [], 'outcomes': {kind: 1}, 'nontrivial': 1}
    tags = wsweep.cls({'bad-patch-file:' + kind, 'threads>1' if threads > 1 else 'threads=1'} | ({'--mmap'} if mmap else set()))
    w = lambda extra: dict({'kind': 'cli', 'files': {k: [common.b2s(v[0]), v[1]] for k, v in files.items()},
                            'patches': {n: common.b2s(texts[n] if n != series[j] else (BAD[kind] if isinstance(BAD[kind], bytes) else b'')) for n in NAMES}, 'series': series,
                            'before': [{'args': [str(prior), '-q', '--backup', 'never']}] if prior else [], 'args': args, 'threads': threads,
                            'series_desc': 'patch %s is %s, %d applied before' % (series[j], kind, prior)}, **extra)
    if o.cls not in ('0', '1'):
        out['violations'].append((tags, o.cls, w({'expected': 'exit 1', 'observed': o.cls, 'stderr': common.b2s(o.err[-300:])})))
        return out
    v, changed = refused_unchanged(o, before, after)
    for mode in v:
        out['violations'].append((tags, mode, w({'expected': 'exit 1, a message, nothing changed', 'observed': 'exit %s, stderr %r, changed %r' % (o.cls, common.b2s(o.err[:200]), changed[:5])})))
    return out


BAD_APPLIED = {
    'option-words-the-parser-rejects': b'p3 -R -R\n',
    'unknown-name-and-option': b'zzz -x\n',
    'second-line-with-a-bad-strip-count': b'p2\np1 -pX\n',
    'name-that-is-not-utf8': b'p\xff\n',
    'unknown-long-option': b'p2 --bogus\n',
    'is-a-directory': 'DIR',
}


def case_badapplied(task):
    """.pc/applied-patches is there but cannot be read or understood - and is certainly no prefix of the series"""
    m0, texts, kind, goal, threads, quiet = task
    d = wsweep.wdir()
    root = os.path.join(d, 'ws')
    files = m0.files()
    ws.make_ws(root, files, {n: texts[n] for n in NAMES}, list(NAMES))
    os.makedirs(os.path.join(root, '.pc'))
    ap = os.path.join(root, '.pc', 'applied-patches')
    if BAD_APPLIED[kind] == 'DIR':
        os.mkdir(ap)
    else:
        open(ap, 'wb').write(BAD_APPLIED[kind])
    args = ([goal] if goal else []) + (['-q'] if quiet else []) + ['--backup', 'always']
    before = ws.snapshot(root, meta=True, skip=())
    o = ws.run_rq(root, args, threads=threads, trace=os.path.join(d, 'trace'))
    after = ws.snapshot(root, meta=True, skip=())
    out = {'evals': 1, 'violations': [], 'outcomes': {'applied-patches:' + kind: 1}, 'nontrivial': 1}
    tags = wsweep.cls({'applied-patches-unreadable:' + kind, 'threads>1' if threads > 1 else 'threads=1'})
    w = lambda extra: dict({'kind': 'cli', 'files': {k: [common.b2s(v[0]), v[1]] for k, v in files.items()}, 'patches': {n: common.b2s(texts[n]) for n in NAMES}, 'series': list(NAMES),
                            'applied_raw': common.b2s(BAD_APPLIED[kind]) if isinstance(BAD_APPLIED[kind], bytes) else 'a directory', 'args': args, 'threads': threads,
                            'series_desc': '.pc/applied-patches: %s' % kind}, **extra)
    if o.cls not in ('0', '1'):
        out['violations'].append((tags, o.cls, w({'expected': 'exit 1', 'observed': o.cls, 'stderr': common.b2s(o.err[-300:])})))
        return out
    v, changed = refused_unchanged(o, before, after)
    for mode in v:
        out['violations'].append((tags, mode, w({'expected': 'exit 1, a message, nothing changed', 'observed': 'exit %s, stderr %r, changed %r' % (o.cls, common.b2s(o.err[:200]), changed[:5])})))
    return out


def run(tier, seed):
    res = common.Result('model_checking')
    m0 = tq.initial()
    maxlen = 3
    if tier != 'quick' and 'p4' not in NAMES:
        # thorough: a fourth patch, sequences of up to four names
        NAMES.append('p4')
        TARGET['p4'] = 'd/h'
    if tier != 'quick':
        maxlen = 4
    texts = patch_texts(m0)
    series_set = [s for s in seqs(maxlen, False) if s] + [('p1', 'p1'), (), ('# only a comment', '')]
    applied_set = seqs(maxlen, True)
    goals_all = [None, '0', '1', '2', '4', '-a', 'p1', 'p2', 'p3', 'bogus', '-a bogus', '-a p1', '-a p2', '-a 1'] + (['3', '5', 'p4'] if tier != 'quick' else [])
    tasks = []
    for s in series_set:
        for a in applied_set:
            goals = goals_all if is_prefix(a, s) else [None, '-a', 'p1', '2']
            for threads in (1, 2):
                for quiet in (True, False):
                    if tier == 'quick' and not is_prefix(a, s) and threads == 2 and not quiet:
                        continue
                    tasks.append((m0, texts, s, a, goals, threads, quiet))
    acc = wsweep.Acc(res)
    for i, r in enumerate(wsweep.pmap(case_state, tasks)):
        if i % 499 == 0:
            r = dict(r)
            r['sample'] = {'series': tasks[i][2], 'applied': tasks[i][3], 'goals': tasks[i][4], 'threads': tasks[i][5], 'outcomes': r['outcomes']}
        acc.add(r)
    acc.finish('state_and_goal_sweep')
    kinds = [k for k in BAD if BAD[k] != 'SYSDIR' or (os.path.isdir(ZERO_SIZE_DIR) and os.stat(ZERO_SIZE_DIR).st_size == 0)]
    tasks2 = [(m0, texts, prior, j, kind, threads, quiet) for prior in (0, 1, 2) for j in range(prior, 3) for kind in kinds for threads in (1, 2) for quiet in (True, False)]
    # the other loader sees the same bad patch files
    tasks2 += [(m0, texts, prior, j, kind, threads, True, True) for prior in (0, 1) for j in range(prior, 3) for kind in kinds for threads in (1, 2)]
    acc2 = wsweep.Acc(res)
    for i, r in enumerate(wsweep.pmap(case_badpatch, tasks2)):
        if i % 61 == 0:
            r = dict(r)
            r['sample'] = {'prior_applied': tasks2[i][2], 'bad_position': tasks2[i][3], 'kind': tasks2[i][4], 'threads': tasks2[i][5]}
        acc2.add(r)
    acc2.finish('bad_patch_file_sweep')
    acc3 = wsweep.Acc(res)
    for r in wsweep.pmap(case_badapplied, [(m0, texts, kind, goal, threads, quiet) for kind in BAD_APPLIED for goal in (None, '-a', '2', 'p2') for threads in (1, 2) for quiet in (True, False)]):
        acc3.add(r)
    acc3.finish('unreadable_applied_patches_sweep')
    res.coverage['unreadable_applied_patches_sweep']['rule'] = ('.pc/applied-patches that is no prefix of the series because it cannot be read or understood at all (%s) x goal x threads x verbosity: '
                                                               'exit 1, a message, nothing changed') % ', '.join(BAD_APPLIED)
    cov = res.coverage
    cov['rule'] = ('(1) all pairs (series, applied-patches): series = every duplicate-free sequence of 0..3 of the names p1,p2,p3 (thorough: 0..4 of p1..p4) (+ one with a duplicate, + one with only a comment and a blank line), applied-patches = every sequence of '
                   '0..3 (thorough: 0..4) names incl. duplicates (prefix, longer, reordered, edited, duplicated) x goals {none,0,1,2,4,-a,p1,p2,p3,unknown name, and -a combined with an unknown / a known name / a number} (4 goals when the state is inconsistent) x threads {1,2} x '
                   '{-q, default}; consistent prefixes are produced by a real earlier push. (2) a missing / truncated / malformed-header / binary / malformed-body / directory-instead-of-file patch at every position j '
                   'of the range with 0..2 patches applied before, threads {1,2}, both verbosities, --backup always. Oracle whenever the statement\'s precondition holds: exit class 1 (never a crash), '
                   'non-empty stderr, full snapshot (bytes, modes, inodes, mtimes, .pc, patches, series) identical. non-trivial = runs where a refusal is required')
    return res
