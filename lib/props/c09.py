"""C09 - pushes compose: any split into several invocations equals one push.

Invocation-graph BFS on the real binary: nodes are workspace snapshots, edges are invocations
(push, push N, push <name>, push -a, threads 1 and 2); every node must equal the state reached by
the single invocation `push g` from the pristine workspace, g being the furthest goal attempted."""
import os

import common
import toyquilt as tq
import ws
import wsweep

NEEDS = ('rq',)


def state_of(snap):
    """what the statement compares: tree, reject files, applied-patches"""
    return (tuple(sorted(ws.tree_of(snap).items())), tuple(sorted(ws.rejects_of(snap).items())), tuple(ws.applied_of(snap)), tuple(ws.dirs_of(snap)))


def materialise(root, base_files, patches, lines, snap):
    files = {p: (v[1], v[2]) for p, v in snap.items() if v[0] == 'F'}
    files.update({p: (v[1].encode(), 'link') for p, v in snap.items() if v[0] == 'L'})
    ws.make_ws(root, files, patches, lines)
    for p, v in snap.items():
        if v[0] == 'D':
            os.makedirs(os.path.join(root, p), exist_ok=True)


def graph(task):
    m0, series = task
    raw = isinstance(series, tq.Raw)
    names = series.names if raw else tq.names_for(series)
    n = len(names)
    files, patches, lines = tq.workspace_of(m0, series, names)
    root = os.path.join(wsweep.wdir(), 'ws')
    tr = os.path.join(wsweep.wdir(), 'trace')
    out = {'evals': 0, 'violations': [], 'outcomes': {}, 'nontrivial': 0}
    tags = wsweep.cls(wsweep.tags_of(series))
    first_fail = series.first_fail if raw else next((i for i, p in enumerate(series) if not p.ok()), None)
    # a hand-written case may ask for default verbosity (the failure report runs, and what it tries out must not show in the outcome)
    qopt = [] if (raw and getattr(series, 'loud', False)) else ['-q']

    def wit(extra):
        return wsweep.witness(m0, series, {'quiet': True, 'backup': 'never', 'goal': []}, extra, names)
    # reference: one invocation `push g` from the pristine workspace
    ref = {}
    for g in range(n + 1):
        ws.make_ws(root, files, patches, lines)
        o = ws.run_rq(root, [str(g)] + qopt + ['--backup', 'never'], threads=1)
        out['evals'] += 1
        if o.cls not in ('0', '1'):
            out['violations'].append((tags, o.cls, wit({'args': [str(g), '-q'], 'observed': o.cls, 'stderr': common.b2s(o.err[-300:])})))
            return out
        ref[g] = state_of(ws.snapshot(root))
    ws.make_ws(root, files, patches, lines)
    pristine = ws.snapshot(root)
    # (a count beyond the number of patches, up to the largest number there is, means "all the remaining ones"; a name that is
    # not valid UTF-8 cannot be given as an argument - the option parser insists on UTF-8 - and is reached by counts only)
    invs = [([], None)] + [([str(m)], m) for m in range(n + 1)] + [([nm], ('name', i)) for i, nm in enumerate(names) if nm.isprintable()] + [(['-a'], 'all'), (['18446744073709551615'], 'all'), (['4294967296'], 'all')]
    seen = {(state_of(pristine), 0): (pristine, [])}
    queue = [(state_of(pristine), 0)]
    states, transitions = 1, 0
    while queue:
        key = queue.pop(0)
        snap, hist = seen[key]
        st, g = key
        a = len(st[2])
        for args, kind in invs:
            for threads in (1, 2):
                if kind is None:
                    t = a + 1
                elif kind == 'all':
                    t = n
                elif isinstance(kind, tuple):
                    t = kind[1] + 1
                else:
                    t = a + kind
                t = min(t, n)
                materialise(root, files, patches, lines, snap)
                before = ws.snapshot(root, meta=True)
                o = ws.run_rq(root, args + qopt + ['--backup', 'never'], threads=threads, trace=tr)
                after_meta = ws.snapshot(root, meta=True)
                after = {p: v[:3] if v[0] == 'F' else v[:2] for p, v in after_meta.items()}
                out['evals'] += 1
                transitions += 1
                h2 = hist + [{'args': args, 'threads': threads}]
                w = lambda extra: wit(dict({'before': hist, 'args': args + qopt + ['--backup', 'never'], 'threads': threads}, **extra))
                if o.cls not in ('0', '1'):
                    out['violations'].append((tags, o.cls, w({'observed': o.cls, 'stderr': common.b2s(o.err[-300:])})))
                    continue
                ns = state_of(after)
                already = isinstance(kind, tuple) and kind[1] < a
                if t <= a or already:
                    # nothing (more) requested: must change nothing at all, metadata included
                    changed = sorted(p for p in set(before) | set(after_meta) if before.get(p) != after_meta.get(p))
                    out['outcomes']['nothing-to-do'] = out['outcomes'].get('nothing-to-do', 0) + 1
                    if changed:
                        out['violations'].append((tags, 'push-with-nothing-to-do-changes-something', w({'expected': 'identical snapshot', 'observed': changed[:6]})))
                    continue
                g2 = max(g, t)
                stuck = first_fail is not None and a == first_fail
                out['outcomes']['stuck-at-failing-patch' if stuck else 'advance'] = out['outcomes'].get('stuck-at-failing-patch' if stuck else 'advance', 0) + 1
                out['nontrivial'] += 1
                if ns != ref[g2]:
                    d = [nm for nm, x, y in zip(('tree', 'rejects', 'applied-patches', 'directories'), ns, ref[g2]) if x != y]
                    out['violations'].append((tags, 'state-differs-from-single-push:' + ','.join(d), w({'expected': 'state of `push %d` from the pristine workspace' % g2, 'observed': 'differs in ' + ','.join(d),
                                                                                                           'applied': list(ns[2]), 'expected_applied': list(ref[g2][2])})))
                    continue
                want_ok = first_fail is None or t <= first_fail
                if (o.cls == '0') != want_ok:
                    out['violations'].append((tags, 'exit-status', w({'expected': '0' if want_ok else '1', 'observed': o.cls})))
                k2 = (ns, g2)
                if k2 not in seen:
                    seen[k2] = (after, h2)
                    queue.append(k2)
                    states += 1
    out['states'] = states
    out['transitions'] = transitions
    return out


def run(tier, seed):
    res = common.Result('model_checking')
    m0 = tq.initial()
    if tier == 'quick':
        allser = tq.enumerate_series(3, 1, allow_after_failure=1, plain_files={'f', 'd/g', 'n'})
        series = [s for s in allser if len(s) == 3 and all(len(p.fps) == 1 for p in s)]
        series = series[::4]
    else:
        allser = tq.enumerate_series(3, 1, allow_after_failure=1) + tq.enumerate_series(4, 1, allow_after_failure=1, plain_files={'f'})
        series = [s for s in allser if len(s) >= 3]
    # names whose existence changes during the push: the result must not depend on where the push is cut
    for steps in ([[(tq.t_delete, 'f', False)], [(tq.t_viaold, 'f', 'd/h')], [(tq.t_mod, 'e/i')]], [[(tq.t_rename, 'f', 'n', False)], [(tq.t_viaold, 'f', 'e/i')], [(tq.t_mod, 'n')]],
                  [[(tq.t_mod, 'f')], [(tq.t_rename, 'f', 'n', True)], [(tq.t_mod, 'n', 1, 0, 4)]], [[(tq.t_create, 'n', False)], [(tq.t_mod, 'n', 1, 0, 0)], [(tq.t_delete, 'n', False)]],
                  [[(tq.t_delete, 'd/g', False)], [(tq.t_create, 'd/g', True)], [(tq.t_mod, 'd/g', 1, 0, 0)]], [[(tq.t_delete, 'f', True)], [(tq.t_fill, 'f')], [(tq.t_mod, 'f', 1, 0, 0)]],
                  # a file created earlier in the run and created again / prepended to; a file re-created after its deletion
                  [[(tq.t_create, 'n', False)], [(tq.t_create_over, 'n')], [(tq.t_mod, 'f')]], [[(tq.t_create, 'n', True)], [(tq.t_prepend, 'n')], [(tq.t_mod, 'n', 1, 0, 0)]],
                  [[(tq.t_mode, 'e/i', False)], [(tq.t_delete, 'e/i', False)], [(tq.t_create, 'e/i', False)]], [[(tq.t_create, 'x/y/n', False)], [(tq.t_create_over, 'x/y/n')], [(tq.t_mod, 'f')]]):
        s_ = tq.build_series(m0, steps)
        if s_:
            series.append(s_)
    series += tq.special_series(m0)
    # -p0 entries whose names are spelled ./name next to entries spelled plainly
    for s_ in tq.special_series(m0)[:8] + series[:40:5]:
        for i in range(len(s_)):
            v = [tq.Patch(p.fps, p.reverse, p.strip, p.empty) for p in s_]
            v[i] = tq.Patch(s_[i].fps, s_[i].reverse, 'dot', s_[i].empty)
            series.append(v)
    import rawcases
    series += rawcases.for_prop('C09')
    # an unpatchable target (I/O error) is not a patch failure: such pushes are refused as a whole (C17's subject)
    series = [s for s in series if isinstance(s, tq.Raw) or not any(fp.error for p in s for fp in p.fps)]
    acc = wsweep.Acc(res)
    results = wsweep.pmap(graph, [(m0, s) for s in series])
    states = transitions = 0
    for i, r in enumerate(results):
        states += r.get('states', 0)
        transitions += r.get('transitions', 0)
        if i % 97 == 0:
            r = dict(r)
            r['sample'] = {'series': tq.describe_series(series[i]), 'graph_states': r.get('states'), 'graph_transitions': r.get('transitions')}
        acc.add(r)
    acc.finish('invocation_graphs')
    cov = res.coverage
    cov['states'] = states
    cov['transitions'] = transitions
    cov['traces_validated_against_impl'] = transitions
    cov['series'] = len(series)
    cov['rule'] = ('for every series of %s patches from the template alphabet (<= 1 deviation, incl. one failing at each position): BFS from the pristine workspace over the invocations '
                   'push | push m (m=0..n) | push <name> (every name) | push -a, each with --threads 1 and 2, nodes deduplicated by (tree, rejects, applied-patches, furthest goal attempted), until '
                   'no new node appears. Oracle: every node equals the state of the single invocation `push g` from pristine; an invocation with nothing left to do leaves the snapshot '
                   'identical (inodes and mtimes included). non-trivial = transitions that apply or re-attempt a patch') % ('3' if tier == 'quick' else '3-4')
    res.assumptions = ['backups are excluded as the statement says (--backup never); -q everywhere']
    return res
