"""C06 - parallel push equals single-threaded push under every thread schedule.

Stateless model checking of the real `rapidquilt push --threads N` under the cooperative scheduler (cfg hooks):
all schedules with a bounded number of preemptions, each compared with the --threads 1 outcome."""
import common
import sched
import toyquilt as tq
import wsweep

NEEDS = ('rq',)


def _series(m0, steps):
    """steps: list of patches, each a list of (template function, args...) instantiated against the evolving model"""
    m = m0.clone()
    fresh = tq.Fresh()
    out = []
    for patch in steps:
        fps = []
        for st in patch:
            fn, args = st[0], st[1:]
            t = fn(m, fresh, *args)
            if t is None:
                return None
            if t.ok:
                t.apply(m)
            fps.append(t)
        out.append(tq.Patch(fps))
    return out


def workloads(tier):
    m0 = tq.initial()
    W = []

    def add(label, steps, cfgs=({'backup': 'never'},)):
        s = _series(m0, steps)
        if s is not None:
            for cfg in cfgs:
                W.append((label + ('' if cfg.get('backup') == 'never' else ' [backup %s%s]' % (cfg.get('backup'), '' if cfg.get('backup_count') is None else ' count %s' % cfg['backup_count'])), s, dict(cfg, quiet=True)))
    fails = [(tq.t_modfail,), (tq.t_partial,), (tq.t_delete_mismatch,)]
    laters = [(tq.t_mod,), (tq.t_delete, False), (tq.t_delete, True), (tq.t_mode, True), (tq.t_mod_ins_del,)]
    both = ({'backup': 'never'}, {'backup': 'always'})
    # a failure on one worker while another worker holds later changes (it may run ahead and must undo them)
    for fi, fl in enumerate(fails):
        for li, lt in enumerate(laters):
            if tier == 'quick' and (fi + li) % 3 != 0:
                continue
            add('fail(%s d/g) then %s(d/h)' % (fl[0].__name__, lt[0].__name__), [[(tq.t_mod, 'f')], [fl + ('d/g',) if len(fl) == 1 else fl], [(lt[0], 'd/h') + lt[1:]]])
    for g in ('n', 'x/y/n'):
        add('fail then rename d/h->%s' % g, [[(tq.t_mod, 'f')], [(tq.t_modfail, 'd/g')], [(tq.t_rename, 'd/h', g, True)]], both)
    add('fail then rename without hunk', [[(tq.t_modfail, 'd/g')], [(tq.t_rename, 'f', 'n', False)]])
    add('fail then create', [[(tq.t_modfail, 'd/g')], [(tq.t_create, 'd/n', False)], [(tq.t_create, 'x/y/n', True)]], both)
    add('fail then create then modify it', [[(tq.t_modfail, 'd/g')], [(tq.t_create, 'n', False)], [(tq.t_mod, 'n', 1, 0, 0)]])
    # failures on two workers at different indices; failing patch spanning two workers
    add('two failures', [[(tq.t_mod, 'f')], [(tq.t_modfail, 'd/g')], [(tq.t_modfail, 'f')]])
    add('two failures, later one first in queue', [[(tq.t_mod, 'f'), (tq.t_mod, 'd/g')], [(tq.t_mod, 'f')], [(tq.t_modfail, 'f')], [(tq.t_modfail, 'd/g')]])
    add('failing patch spans two workers', [[(tq.t_mod, 'f')], [(tq.t_modfail, 'd/g'), (tq.t_partial, 'f')], [(tq.t_mod, 'd/h')]], both)
    # backup window counted back from the failing patch (the window must be the same in every worker)
    add('failure after three patches, --backup-count 1', [[(tq.t_mod, 'f')], [(tq.t_mod, 'd/g')], [(tq.t_mod, 'f', 1, 0, 4), (tq.t_mod, 'd/h')], [(tq.t_modfail, 'd/g')], [(tq.t_mod, 'f', 1, 0, 0)]],
        ({'backup': 'always', 'backup_count': 1}, {'backup': 'onfail', 'backup_count': 2}))
    add('failing patch: one file fails, sibling succeeds', [[(tq.t_partial, 'd/g'), (tq.t_mod, 'f'), (tq.t_mod, 'd/h')]])
    # directories shared between workers: one empties a directory, another creates/modifies in it
    add('delete d/g || modify d/h', [[(tq.t_delete, 'd/g', False), (tq.t_mod, 'd/h')]], both)
    add('delete d/g || delete d/h', [[(tq.t_delete, 'd/g', False), (tq.t_delete, 'd/h', False)]])
    add('delete d/g, d/h || create d/n', [[(tq.t_delete, 'd/g', False)], [(tq.t_delete, 'd/h', False)], [(tq.t_create, 'd/n', False)]])
    add('delete e/i || create x/y/n || modify f', [[(tq.t_delete, 'e/i', False), (tq.t_create, 'x/y/n', False), (tq.t_mod, 'f')]])
    add('rename d/g -> x/y/n || delete d/h', [[(tq.t_rename, 'd/g', 'x/y/n', True), (tq.t_delete, 'd/h', False)]], both)
    # names related through chains of renames across patches (they must all end up on one worker)
    add('rename chain util->helpers->support, core->helpers', [[(tq.t_mod, 'f')], [(tq.t_rename, 'd/g', 'n', True)], [(tq.t_rename, 'n', 'd/n', True)], [(tq.t_rename, 'f', 'n', True)]], both)
    add('rename chain joining two groups late', [[(tq.t_rename, 'd/g', 'n', False)], [(tq.t_rename, 'd/h', 'd/n', True)], [(tq.t_rename, 'n', 'x/y/n', True)], [(tq.t_rename, 'd/n', 'n', True)], [(tq.t_mod, 'n', 1, 0, 1)]])
    # names related without a rename: .orig-style headers, a name removed by one patch and used as old name by a later one
    add('orig-style names between patches on one file', [[(tq.t_mod, 'f'), (tq.t_mod, 'd/g')], [(tq.t_orig, 'f')], [(tq.t_mod, 'f', 1, 0, 0), (tq.t_mod, 'd/h')]], both)
    add('old name removed earlier', [[(tq.t_delete, 'f', False), (tq.t_mod, 'd/g')], [(tq.t_viaold, 'f', 'd/h')], [(tq.t_mod, 'd/h', 1, 0, 0)]])
    add('modify, rename, modify renamed', [[(tq.t_mod, 'f'), (tq.t_mod, 'd/g')], [(tq.t_rename, 'f', 'n', True)], [(tq.t_mod, 'n', 1, 0, 4), (tq.t_mod, 'd/g', 1, 0, 0)]])
    # a reject that belongs into a directory created by another worker during the same push
    add('two creates in one new directory, then a failing patch there', [[(tq.t_create, 'x/y/n', False), (tq.t_create, 'x/y/m', False), (tq.t_mod, 'f')], [(tq.t_create_over, 'x/y/n'), (tq.t_mod, 'd/g')]], both)
    add('directory emptied by one worker, failing patch of another in it', [[(tq.t_delete, 'd/g', False)], [(tq.t_delete, 'd/h', False), (tq.t_mod, 'f')], [(tq.t_missing, 'd/n'), (tq.t_mod, 'e/i')]])
    # all-success with backups (save order between workers)
    add('fail then rename onto an empty file', [[(tq.t_mod, 'e/i')], [(tq.t_modfail, 'd/g')], [(tq.t_rename_onto_empty, 'f', 'z', False)]], both)
    add('fail then rename of a missing file', [[(tq.t_modfail, 'd/g')], [(tq.t_rename_missing, 'q', 'n')]])
    add('success, three workers', [[(tq.t_mod, 'f'), (tq.t_mod, 'd/g')], [(tq.t_mod, 'd/h'), (tq.t_mode, 'f', True)]], ({'backup': 'always'},))
    # one file under two spellings (./f in a -p0 entry, f elsewhere): one worker, one copy
    twice = [w for w in W if len({f for p in w[1] for fp in p.fps for f in fp.files}) < sum(len(fp.files) for p in w[1] for fp in p.fps)]
    for label, s, cfg in list(W[:3]) + twice[:8]:
        for i in range(len(s)):
            v = [tq.Patch(p.fps, p.reverse, p.strip, p.empty) for p in s]
            v[i] = tq.Patch(s[i].fps, s[i].reverse, 'dot', s[i].empty)
            W.append((label + ' [patch %d spelled ./name]' % i, v, cfg))
    # hand-written workspaces: links, patches that cannot be loaded behind/before the failing one, .pc unusable
    import rawcases
    for c in rawcases.for_prop('C06'):
        W.append((c.label, c, {'backup': 'always' if 'pc-is-a-file' in c.tags else 'never', 'quiet': True}))
    return m0, W


def case(task):
    m0, label, series, cfg, threads, bound, cap = task
    r = sched.explore(m0, series, cfg, threads, bound, max_schedules=cap)
    r['label'] = label
    r['threads'] = threads
    r['tags'] = sorted(wsweep.tags_of(series))
    return r


def run(tier, seed):
    res = common.Result('model_checking')
    m0, W = workloads(tier)
    if tier == 'quick':
        bound, ns, cap = 1, (2, 3), 5000
    else:
        bound, ns, cap = 3, (2, 3, 4), 6000
    tasks = [(m0, label, s, cfg, n, bound, cap) for (label, s, cfg) in W for n in ns]
    generic = []
    if tier != 'quick':
        # every 8th series of the general alphabet (<= 3 file patches, <= 1 deviation) that spreads over >= 2 files and has >= 2 patches:
        # N = 2, <= 1 preemption
        for s in tq.enumerate_series(3, 1, allow_after_failure=1):
            files = {f for p in s for fp in p.fps for f in fp.files}
            if len(s) >= 2 and len(files) >= 2:
                generic.append(s)
        generic = generic[::8]   # every 8th of ~10 k series: the full set took more than 45 minutes
        tasks += [(m0, 'generic: ' + tq.describe_series(s), s, {'backup': 'onfail', 'quiet': True}, 2, 1, 600) for s in generic]
    # sanity of the thread-count argument: N = 16 on the default schedules
    tasks += [(m0, label, s, cfg, 16, 0, 200) for (label, s, cfg) in W[:: (4 if tier == 'quick' else 1)]]
    results = wsweep.pmap(case, tasks)
    cov = res.coverage
    tot = {'schedules': 0, 'traces': 0, 'preempted': 0, 'ran_ahead': 0}
    per, outcomes_multi, active = [], 0, 0
    completed = []
    for r in results:
        for m in r['machinery']:
            res.machinery_errors.append('%s (N=%d): %s' % (r['label'], r['threads'], m))
        tot['schedules'] += r['schedules']
        tot['traces'] += r['traces']
        tot['preempted'] += r['preempted']
        tot['ran_ahead'] += r['ran_ahead']
        if r['workers'] >= 2:
            active += 1
        if len(r['outcomes']) > 1:
            outcomes_multi += 1
        if r['capped'] and r['threads'] != 16:
            cov['exhaustive'] = False
        if r['capped'] and r['threads'] == 16:
            # the N = 16 runs are a sanity check of the thread-count argument on the serial schedules only; with many
            # active workers there are k! serial orders per phase and only the first 200 are run
            cov['n16_sanity_explorations_capped'] = cov.get('n16_sanity_explorations_capped', 0) + 1
        per.append({'workload': r['label'], 'threads': r['threads'], 'schedules': r['schedules'], 'distinct_traces': r['traces'], 'distinct_outcomes': len(r['outcomes']),
                    'max_decisions': r['max_decisions'], 'active_workers': r['workers'], 'capped': r['capped'], 'preemption_bound_completed': r.get('bound_completed')})
        if r['threads'] != 16:
            completed.append(r.get('bound_completed', bound))
        for mode, w in r['violations']:
            res.violation(wsweep.cls(set(r['tags']) | {'N=%d' % r['threads']}), mode, w)
    cov['evaluations'] = tot['schedules']
    cov['distinct_nontrivial'] = tot['traces']
    cov['states'] = tot['traces']          # distinct schedule traces (each is one complete interleaving)
    cov['transitions'] = sum(p['max_decisions'] for p in per)  # scheduling decisions along the longest run of each workload (lower bound)
    cov['traces_validated_against_impl'] = tot['schedules']
    # the bound up to which *every* exploration ran all schedules (explorations that hit their budget of runs completed a lower one)
    cov['preemption_bound_completed'] = min(completed) if completed else None
    cov['preemption_bound_attempted'] = bound
    cov['schedules_with_preemption'] = tot['preempted']
    cov['schedules_where_a_worker_ran_ahead_of_the_failing_patch'] = tot['ran_ahead']
    cov['workloads'] = len(W)
    cov['generic_workloads'] = len(generic)
    cov['explorations_with_two_or_more_active_workers'] = active
    cov['explorations_with_more_than_one_outcome'] = outcomes_multi
    cov['per_exploration'] = per if len(per) <= 400 else per[:200] + [{'note': '%d more explorations of generic workloads omitted' % (len(per) - 200)}]
    cov['samples'] = [{'workload': p['workload'], 'threads': p['threads'], 'schedules': p['schedules'], 'distinct_outcomes': p['distinct_outcomes']} for p in per[:6]]
    cov['rule'] = ('for each workload (failure on one worker while others hold later renames/creates/deletes/mode changes; failures on several workers; directory emptied by one worker '
                   'and used by another; backups on/off) and each thread count N in %s: every schedule of the worker threads with at most %d preemptions at the scheduling points '
                   '(worker begin/end, load and fetch_min of the shared failure index, remove_file, create_dir_all, create, read_dir, remove_dir, reject and backup creation), plus N=16 '
                   'on the default schedules. Oracle: exit class, tree, .pc and reject files equal the --threads 1 run on a fresh copy; no file handled by two workers; replays identical. '
                   'distinct_nontrivial/states = distinct schedule traces') % (list(ns), bound)
    res.assumptions = ['sequentially consistent interleavings at the hooked points; relaxed behaviours of the one atomic are not modelled',
                       'worker queues are identified by their buffer address before the fan-out']
    if tot['ran_ahead'] < 20:
        res.machinery_errors.append('vacuous: a worker ran ahead of the failing patch in only %d schedules' % tot['ran_ahead'])
    if active < len(tasks) // 2:
        res.machinery_errors.append('vacuous: only %d of %d explorations had two active workers' % (active, len(tasks)))
    return res
