"""C10 - --dry-run writes nothing and predicts the real outcome (CLI level, under the file-system monitor)."""
import os

import common
import fsmon
import toyquilt as tq
import ws
import wsweep

NEEDS = ('rq', 'shim')


def case(task):
    m0, series, cfg = task
    d = wsweep.wdir()
    root, log = os.path.join(d, 'ws'), os.path.join(d, 'fslog')
    names = tq.names_for(series)
    files, patches, lines = tq.workspace_of(m0, series, names)
    tags = wsweep.cls(wsweep.tags_of(series) | {'threads>1' if cfg['threads'] > 1 else 'threads=1'})
    out = {'evals': 1, 'violations': [], 'outcomes': {}}
    # the real run on a copy
    ws.make_ws(root, files, patches, lines)
    pol = {'RQ_VERIF_POLICY': cfg['policy']} if cfg.get('policy') else None
    real = ws.run_rq(root, wsweep.cfg_args(cfg), threads=cfg['threads'], trace=os.path.join(d, 'trace'), preload_env=pol)
    # the dry run
    ws.make_ws(root, files, patches, lines)
    before = ws.snapshot(root, meta=True, skip=())
    if os.path.exists(log):
        os.unlink(log)
    dcfg = dict(cfg, dry=True)
    dry = ws.run_rq(root, wsweep.cfg_args(dcfg), threads=cfg['threads'], preload_env=dict(fsmon.env(log), **(pol or {})))  # no scheduler trace file: it would show up in the monitor log
    after = ws.snapshot(root, meta=True, skip=())
    w = lambda extra: wsweep.witness(m0, series, dcfg, extra, names)
    out['outcomes']['exit-' + dry.cls] = 1
    out['nontrivial'] = 1 if (real.cls == '1' or len(series) > 1) else 0
    if dry.cls not in ('0', '1'):
        out['violations'].append((tags, dry.cls, w({'observed': dry.cls, 'stderr': common.b2s(dry.err[-300:])})))
        return out
    changed = sorted(p for p in set(before) | set(after) if before.get(p) != after.get(p))
    if changed:
        out['violations'].append((tags, 'dry-run-changed-the-workspace', w({'expected': 'identical snapshot (inodes, mtimes)', 'observed': changed[:6]})))
    mut = fsmon.mutating(fsmon.read_log(log, root))
    if mut:
        out['violations'].append((tags, 'dry-run-issued-mutating-calls', w({'expected': 'no mutating file-system call', 'observed': ['%s %s' % (e[1], e[2]) for e in mut[:6]]})))
    if dry.cls != real.cls:
        out['violations'].append((tags, 'dry-run-exit-status-differs', w({'expected': real.cls, 'observed': dry.cls})))
    elif ws.failed_patch_name(dry.err) != ws.failed_patch_name(real.err):
        out['violations'].append((tags, 'dry-run-names-another-failing-patch', w({'expected': ws.failed_patch_name(real.err), 'observed': ws.failed_patch_name(dry.err)})))
    return out


def run(tier, seed):
    res = common.Result('model_checking')
    m0 = tq.initial()
    if tier == 'quick':
        series = tq.with_patch_options(tq.enumerate_series(2, 1, allow_after_failure=1), 1)
        cfgs = [{'threads': t, 'backup': b, 'quiet': True} for t in (1, 2, 3) for b in ('always', None)]
    else:
        series = tq.with_patch_options(tq.enumerate_series(3, 1, allow_after_failure=1), 1) + tq.enumerate_series(2, 2, allow_after_failure=1)
        cfgs = [{'threads': t, 'backup': b, 'quiet': q} for t in (1, 2, 3) for b in ('always', 'never', None) for q in (True, False)]
    tasks = [(m0, s, c) for s in series for c in cfgs]
    # series with several failing patches / several deviations, with the parallel driver under both serial worker orders
    import props.c06 as c06
    # (a workspace whose real run ends with an output error - .pc unusable - predicts nothing about patches)
    multi = tq.special_series(m0) + [w[1] for w in c06.workloads(tier)[1] if 'pc-is-a-file' not in getattr(w[1], 'tags', ())]
    tasks += [(m0, s, {'threads': t, 'backup': b, 'quiet': True, 'policy': pol}) for s in multi for t in (1, 2, 3) for b in ('always', None) for pol in ((None,) if t == 1 else (None, 'high'))]
    acc = wsweep.Acc(res)
    for i, r in enumerate(wsweep.pmap(case, tasks)):
        if i % 1999 == 0:
            r = dict(r)
            r['sample'] = {'series': tq.describe_series(tasks[i][1]), 'args': wsweep.cfg_args(dict(tasks[i][2], dry=True)), 'threads': tasks[i][2]['threads'], 'outcome': sorted(r['outcomes'])}
        acc.add(r)
    acc.finish('sweep')
    cov = res.coverage
    cov['series'] = len(series)
    cov['configs'] = len(cfgs)
    cov['rule'] = ('every workspace of the C05 sweep (incl. failing series) x threads {1,2,3} x backup settings, run with --dry-run under the LD_PRELOAD monitor. Oracle: recursive snapshot '
                   '(bytes, mode, inode, nlink, mtime of every file and directory, patches and series included) identical before/after; the monitor log contains no mutating call at all; '
                   'exit class and the name in "Patch ... FAILED" equal those of the real run on a fresh copy. non-trivial = failing or multi-patch series')
    res.assumptions = ['the monitor sees libc calls of the dynamically linked binary; raw syscalls would bypass it (the snapshot comparison remains)']
    return res
