"""C03 - an applied file patch changes exactly the lines its hunks mark, nothing else (lib level)."""
import common

NEEDS = ('rqmc',)


def run(tier, seed):
    res = common.Result('model_checking')
    args = ['4', '2', '1', '1'] if tier == 'quick' else ['5', '2', '2', '1']
    doc = common.run_engine_parts([common.RQMC, 'c03'] + args)
    common.merge_engine(res, doc)
    cov = res.coverage
    cov['bounds'] = {k: doc[k] for k in ('max_file_len', 'max_context', 'max_fuzz_limit', 'triples', 'files')}
    cov['outcomes'] = doc['counters']
    cov['rule'] = ('canonical files over <= 3 letters up to max_file_len lines x ordered pairs (and triples from a reduced menu) of hunks derived from file positions '
                   '(position, context 0..2 each side, core = delete 1 | delete 2+insert | replace 1 | insert 1, added line fresh or existing, stated line off by -1/0/+1, '
                   'optionally one corrupted context line) x fuzz limit x direction; the second hunk ranges over all positions at or after the first one\'s start, so '
                   'every overlap relation occurs. Oracle: reconstruction from the original content and the per-hunk reports. '
                   'non-trivial = at least two hunks applied, or a partially applied patch')
    res.assumptions = ['hunk reports use the tool\'s convention: `line` is where the (fuzz-trimmed) old side was found in the original file']
    if doc['counters'].get('overlapping-context', 0) < 1000:
        res.machinery_errors.append('vacuous: too few overlapping cases')
    return res
