"""C02 - hunk placement obeys the documented rules for offset, anchoring and fuzz (lib level)."""
import common

NEEDS = ('rqmc', 'rq')


def run(tier, seed):
    res = common.Result('model_checking')
    args = ['5', '2', '3', '6', '9', '9'] if tier == 'quick' else ['7', '3', '3', '7', '9', '11']
    doc = common.run_engine_parts([common.RQMC, 'c02'] + args)
    common.merge_engine(res, doc)
    cov = res.coverage
    cov['bounds'] = {k: doc[k] for k in ('max_file_len', 'max_context', 'max_fuzz_limit', 'hunk_shapes', 'two_hunk_files', 'two_hunk_long_files', 'two_hunk_long_file_len')}
    cov['outcomes'] = doc['counters']
    cov['rule'] = ('all files over {a,b} up to max_file_len lines x all hunk shapes (prefix/suffix context <= max_context, <= 2 removed, <= 2 added lines) '
                   'x stated line 1..n+3 x fuzz limit 0..3 x direction; plus two-hunk patches (first hunk derived from a file position with stated line '
                   'off by -2..2, second hunk general) for "expected line = stated + previous offset", and the same on all files of two_hunk_long_file_len lines with a context-free first hunk stated where it is (room for a match of the second hunk before the first one that is nearer than the one behind: patch never looks before the lines it has written, so only the ones behind count and "misordered" is no answer when one of them is there). Oracle: clause-wise check against the brute-force '
                   'set of matching positions (nearest match, forward wins ties, start/end anchoring, lowest fuzz level, failure only when nothing matches); '
                   'ambiguous readings (position of a prefix-trimmed block, order conflicts with the previous hunk) are accepted either way. '
                   'non-trivial = the hunk applied with >= 2 matching positions at the level used, or with fuzz > 0')
    import wsprops
    wsprops.run_c02_cli(tier, seed, res)
    cov['cli_rule'] = ('CLI level: series whose second patch has a hunk with one wrong outermost context line (context width 1-3, first or last line) x --fuzz {unset,0,1,2,3} x threads {1,2} on the real '
                       'binary: it must apply exactly when the limit reaches the level at which the documented rule trims the wrong line (unset means 0), and then change only the marked line')
    res.assumptions = ['old/new header line numbers are kept mutually consistent as in any real diff',
                       'a second hunk whose candidate positions touch the first hunk\'s block is only checked for clause 1 (the statement does not define hunk-order conflicts)']
    if doc['counters'].get('applied-with-fuzz', 0) < 1000 or doc['counters'].get('second-hunk-placement-depends-on-previous-offset', 0) < 10:
        res.machinery_errors.append('vacuous: too few fuzzy/offset-sensitive cases: %r' % doc['counters'])
    return res
