"""Hand-written workspaces for behaviour the toy-quilt alphabet cannot spell: symbolic links, patches that cannot be
loaded, names that are not UTF-8, a name that is a file for one patch and a directory for another, files without a
final newline. Each is a toyquilt.Raw (usable by the differential engines: schedule explorer, invocation graphs) and,
where a property needs it, carries the expected outcome of `push -a`."""
import os

import common
import toyquilt as tq
import ws
import wsweep


def lines(prefix, n=6):
    return b''.join(b'%s%d\n' % (prefix, i) for i in range(n))


def mod(path, prefix, i, new, a='a/', b='b/', n=6, bad=False):
    """a one-hunk patch replacing line i of the file made by lines(prefix), one line of context on each side;
    bad: the line to be replaced is spelled wrongly (the hunk cannot apply)"""
    lo, hi = max(0, i - 1), min(n, i + 2)
    body = b''
    for j in range(lo, hi):
        if j == i:
            body += b'-' + (b'WRONG\n' if bad else b'%s%d\n' % (prefix, j)) + b'+' + new + b'\n'
        else:
            body += b' %s%d\n' % (prefix, j)
    return b'--- ' + a.encode() + path + b'\n+++ ' + b.encode() + path + b'\n@@ -%d,%d +%d,%d @@\n' % (lo + 1, hi - lo, lo + 1, hi - lo) + body


def _apply(prefix, i, new, n=6):
    return b''.join((new + b'\n') if j == i else b'%s%d\n' % (prefix, j) for j in range(n))


def create(path, content_lines):
    return b'--- /dev/null\n+++ b/' + path + b'\n@@ -0,0 +1,%d @@\n' % len(content_lines) + b''.join(b'+' + l + b'\n' for l in content_lines)


def delete(path, content_lines):
    return b'--- a/' + path + b'\n+++ /dev/null\n@@ -1,%d +0,0 @@\n' % len(content_lines) + b''.join(b'-' + l + b'\n' for l in content_lines)


class Case(tq.Raw):
    def __init__(self, label, files, patches, series_lines, tags, names=None, first_fail=None, expect=None, props=()):
        super().__init__(label, files, patches, series_lines, tags)
        self.names = names if names is not None else [l.split()[0] for l in series_lines]
        self.first_fail = first_fail
        self.expect = expect        # {'exit': '0'|'1', 'applied': [...], 'tree': {path: (bytes, mode|'link')}, 'rejects': [paths]}
        self.props = tuple(props)   # properties whose checks use the case
        self.loud = False           # run without -q (the failure report is part of what is exercised)


def cases():
    F = {'f': (lines(b'f'), 0o644), 'g': (lines(b'g'), 0o755), 'keep': (b'k\n', 0o644)}
    out = []

    # ---- symbolic links: a file that no applied patch changes is not written (a link would become a regular file)
    fs = dict(F, real=(lines(b'r'), 0o644), link=(b'real', 'link'))
    out.append(Case('symbolic link named by the failing patch', fs, {'p0.patch': mod(b'g', b'g', 2, b'G2'), 'p1.patch': mod(b'link', b'r', 2, b'X', bad=True)}, ['p0.patch', 'p1.patch'],
                    ['symlink', 'failing-patch'], first_fail=1, props=('C05', 'C06', 'C09'),
                    expect={'exit': '1', 'applied': ['p0.patch'], 'tree': dict(fs, g=(_apply(b'g', 2, b'G2'), 0o755)), 'rejects': ['link.rej']}))
    out.append(Case('symbolic link named by a patch behind the failing one', fs, {'p0.patch': mod(b'g', b'g', 2, b'X', bad=True), 'p1.patch': mod(b'link', b'r', 2, b'R2')}, ['p0.patch', 'p1.patch'],
                    ['symlink', 'patch-behind-the-failing-one'], first_fail=0, props=('C05', 'C06'),
                    expect={'exit': '1', 'applied': [], 'tree': fs, 'rejects': ['g.rej']}))

    # ---- links that stay inside, as seen by the two loaders (--mmap or not)
    out.append(Case('target is a symbolic link to a file of the tree', fs, {'p0.patch': mod(b'link', b'r', 2, b'R2'), 'p1.patch': mod(b'g', b'g', 2, b'G2')}, ['p0.patch', 'p1.patch'],
                    ['symlink', 'target-is-a-link-that-stays-inside'], first_fail=None, props=('C14', 'C09', 'C06')))
    out.append(Case('patch file is a symbolic link', dict(F, **{'shared/p0.patch': (mod(b'f', b'f', 2, b'F2'), 0o644), 'patches/p0.patch': (b'../shared/p0.patch', 'link')}),
                    {'p1.patch': mod(b'g', b'g', 2, b'G2')}, ['p0.patch', 'p1.patch'], ['symlink', 'patch-file-is-a-link'], first_fail=None, props=('C14', 'C06')))
    out.append(Case('failing hunk on a symbolic link to a file of the tree', fs, {'p0.patch': mod(b'link', b'r', 2, b'X', bad=True)}, ['p0.patch'],
                    ['symlink', 'target-is-a-link-that-stays-inside', 'failing-patch'], first_fail=0, props=('C14',)))

    # ---- a directory reached through a link that stays inside: emptying it must not stop the push
    fl = dict(F, **{'real/only': (b'x\ny\n', 0o644), 'd': (b'real', 'link')})
    out.append(Case('last file of a directory reached through a symbolic link deleted', fl, {'p0.patch': delete(b'd/only', [b'x', b'y']), 'p1.patch': mod(b'g', b'g', 2, b'G2')}, ['p0.patch', 'p1.patch'],
                    ['symlink', 'directory-emptied-through-a-link'], first_fail=None, props=('C05', 'C06', 'C09'),
                    expect={'exit': '0', 'applied': ['p0.patch', 'p1.patch'], 'tree': {'f': F['f'], 'keep': F['keep'], 'g': (_apply(b'g', 2, b'G2'), 0o755), 'd': (b'real', 'link')}, 'rejects': []}))

    # ---- a name that cannot be the name of a file: refused like any other unusable name, before anything is written
    for what, nm in (('ending in a slash', b'newdir/'), ('ending in /.', b'newdir/.'), ('of an existing file with a slash behind it', b'f/')):
        bad = b'--- /dev/null\n+++ b/' + nm + b'\n@@ -0,0 +1 @@\n+x\n'
        out.append(Case('patch creating a name %s' % what, F, {'p0.patch': mod(b'g', b'g', 2, b'G2'), 'p1.patch': bad}, ['p0.patch', 'p1.patch'], ['name-that-is-no-file-name'], first_fail=None,
                        props=('C05', 'C06'), expect={'exit': '1', 'applied': [], 'tree': F, 'rejects': []}))
    out.append(Case('git rename onto a name ending in a slash', F, {'p0.patch': b'diff --git a/f b/h/\nrename from f\nrename to h/\n'}, ['p0.patch'], ['name-that-is-no-file-name'], first_fail=None,
                    props=('C05', 'C06'), expect={'exit': '1', 'applied': [], 'tree': F, 'rejects': []}))

    # ---- a link that leads out of the working directory: refused, by the dry run as well
    fo = dict(F, out=(b'../no-such-place-outside', 'link'))
    out.append(Case('patch naming a file through a link that leads out of the tree', fo, {'p0.patch': mod(b'g', b'g', 2, b'G2'), 'p1.patch': create(b'out/n', [b'n1'])}, ['p0.patch', 'p1.patch'],
                    ['symlink', 'link-leading-out'], first_fail=None, props=('C05', 'C06'), expect={'exit': '1', 'applied': [], 'tree': fo, 'rejects': []}))

    # ---- something is wrong with a patch behind the failing one: the push ends at the failing patch all the same
    bad_later = {
        'missing patch file': None,
        'unparseable patch': b'--- a/f\n+++ b/f\n@@ -1,2 +1,2 @@\n f0\n*garbage*\n',
        'patch naming a file outside of the tree': mod(b'../outside', b'o', 1, b'X'),
        'patch whose target lies below a regular file': mod(b'keep/sub', b's', 1, b'X'),
    }
    for what, text in bad_later.items():
        patches = {'p0.patch': mod(b'g', b'g', 2, b'G2'), 'p1.patch': mod(b'f', b'f', 2, b'X', bad=True)}
        if text is not None:
            patches['p2.patch'] = text
        out.append(Case('%s behind a failing patch' % what, F, patches, ['p0.patch', 'p1.patch', 'p2.patch'], ['error-behind-the-failing-patch', what.replace(' ', '-')], first_fail=1,
                        props=('C05', 'C06'), expect={'exit': '1', 'applied': ['p0.patch'], 'tree': dict(F, g=(_apply(b'g', 2, b'G2'), 0o755)), 'rejects': ['f.rej']}))
        # the same trouble in the failing patch's place or before it is an error: nothing is touched (C17 has the full matrix)
        patches2 = {'p0.patch': mod(b'g', b'g', 2, b'G2'), 'p2.patch': mod(b'f', b'f', 2, b'X', bad=True)}
        if text is not None:
            patches2['p1.patch'] = text
        out.append(Case('%s before a failing patch' % what, F, patches2, ['p0.patch', 'p1.patch', 'p2.patch'], ['error-before-the-failing-patch', what.replace(' ', '-')], first_fail=None,
                        props=('C05', 'C06'), expect={'exit': '1', 'applied': [], 'tree': F, 'rejects': []}))

    # ---- .pc cannot be written: both drivers leave the same behind
    out.append(Case('.pc/p0.patch is a regular file (no backup can be written), the second patch fails', dict(F, **{'.pc/p0.patch': (b'not a directory\n', 0o644)}),
                    {'p0.patch': mod(b'g', b'g', 2, b'G2'), 'p1.patch': mod(b'f', b'f', 2, b'X', bad=True)}, ['p0.patch', 'p1.patch'], ['pc-is-a-file'], first_fail=1, props=('C06',)))

    # ---- a name that is not valid UTF-8
    odd = os.fsdecode(b'f.\xff')
    out.append(Case('failing hunk on a file whose extension is not valid UTF-8', dict(F, **{odd: (lines(b'o'), 0o644)}), {'p0.patch': mod(b'f.\xff', b'o', 2, b'X', bad=True)}, ['p0.patch'],
                    ['non-utf8-name'], first_fail=0, props=('C13', 'C05'),
                    expect={'exit': '1', 'applied': [], 'tree': dict(F, **{odd: (lines(b'o'), 0o644)}), 'rejects': [odd + '.rej']}))

    # ---- a patch whose name starts with '#' (a series line with a blank in front of it, as in quilt)
    out.append(Case("patch named '#x.patch'", F, {'#x.patch': mod(b'f', b'f', 1, b'F1'), 'y.patch': mod(b'g', b'g', 2, b'G2'), 'z.patch': mod(b'f', b'f', 4, b'F4')}, [' #x.patch', 'y.patch', 'z.patch'],
                    ['patch-name-starting-with-hash'], names=['#x.patch', 'y.patch', 'z.patch'], first_fail=None, props=('C09',)))
    # ---- a directory that is empty before the push: a file created in it and deleted again
    out.append(Case('file created in an empty directory and deleted by a later patch', dict(F, d=(b'', 'dir')), {'p0.patch': create(b'd/n', [b'n1', b'n2']), 'p1.patch': delete(b'd/n', [b'n1', b'n2']), 'p2.patch': mod(b'f', b'f', 1, b'F1')},
                    ['p0.patch', 'p1.patch', 'p2.patch'], ['file-created-and-deleted-in-a-directory-that-was-empty'], first_fail=None, props=('C09', 'C06')))

    out.append(Case('file created two levels below an empty directory and deleted by a later patch', dict(F, d=(b'', 'dir')), {'p0.patch': create(b'd/e/n', [b'n1', b'n2']), 'p1.patch': delete(b'd/e/n', [b'n1', b'n2']), 'p2.patch': mod(b'f', b'f', 1, b'F1')},
                    ['p0.patch', 'p1.patch', 'p2.patch'], ['file-created-and-deleted-in-a-directory-that-was-empty', 'new-directory-in-between'], first_fail=None, props=('C09', 'C06')))

    # ---- a patch whose name is not valid UTF-8 (the series file is bytes)
    latin = os.fsdecode(b'caf\xe9.patch')
    out.append(Case('patch with a Latin-1 name', F, {latin: mod(b'f', b'f', 1, b'F1'), 'y.patch': mod(b'g', b'g', 2, b'G2'), 'z.patch': mod(b'f', b'f', 4, b'F4')}, [latin, 'y.patch', 'z.patch'],
                    ['patch-name-that-is-not-utf8'], first_fail=None, props=('C09',)))
    # ---- an entry without hunks for a file that is not there is a no-op: it leaves the empty directories alone
    fe = dict(F, **{'empty/dir': (b'', 'dir')})
    out.append(Case('mode change for a file that does not exist, below empty directories', fe, {'p0.patch': b'diff --git a/empty/dir/ghost b/empty/dir/ghost\nold mode 100644\nnew mode 100755\n', 'p1.patch': mod(b'g', b'g', 2, b'G2')},
                    ['p0.patch', 'p1.patch'], ['hunkless-entry-for-a-missing-file'], first_fail=None, props=('C05', 'C09'),
                    expect={'exit': '0', 'applied': ['p0.patch', 'p1.patch'], 'tree': dict(F, g=(_apply(b'g', 2, b'G2'), 0o755)), 'rejects': [], 'dirs': ['empty/', 'empty/dir/']}))

    # ---- ... also when a later patch creates that file and is rolled back: what a patch that failed (or a worker that ran ahead)
    # did in memory leaves no trace, not even "this file was there once"
    ghost = b'diff --git a/empty/dir/ghost b/empty/dir/ghost\nold mode 100644\nnew mode 100755\n'
    out.append(Case('mode change for a missing file below empty directories, then a failing patch that creates the file first', fe,
                    {'p0.patch': ghost, 'p1.patch': create(b'empty/dir/ghost', [b'n1', b'n2']) + mod(b'g', b'g', 2, b'X', bad=True)}, ['p0.patch', 'p1.patch'],
                    ['hunkless-entry-for-a-missing-file', 'file-created-by-the-failing-patch'], first_fail=1, props=('C05', 'C06', 'C09'),
                    expect={'exit': '1', 'applied': ['p0.patch'], 'tree': dict(F), 'rejects': ['g.rej'], 'dirs': ['empty/', 'empty/dir/']}))
    out.append(Case('mode change for a missing file below empty directories, a failing patch, then a patch that creates the file', fe,
                    {'p0.patch': ghost, 'p1.patch': mod(b'g', b'g', 2, b'X', bad=True), 'p2.patch': create(b'empty/dir/ghost', [b'n1', b'n2'])}, ['p0.patch', 'p1.patch', 'p2.patch'],
                    ['hunkless-entry-for-a-missing-file', 'file-created-behind-the-failing-patch'], first_fail=1, props=('C05', 'C06', 'C09'),
                    expect={'exit': '1', 'applied': ['p0.patch'], 'tree': dict(F), 'rejects': ['g.rej'], 'dirs': ['empty/', 'empty/dir/']}))
    out.append(Case('mode change for a missing file below empty directories, then a failing patch that renames a file onto it', fe,
                    {'p0.patch': ghost, 'p1.patch': b'diff --git a/keep b/empty/dir/ghost\nrename from keep\nrename to empty/dir/ghost\n' + mod(b'g', b'g', 2, b'X', bad=True)}, ['p0.patch', 'p1.patch'],
                    ['hunkless-entry-for-a-missing-file', 'file-renamed-onto-it-by-the-failing-patch'], first_fail=1, props=('C05', 'C06', 'C09'),
                    expect={'exit': '1', 'applied': ['p0.patch'], 'tree': dict(F), 'rejects': ['g.rej'], 'dirs': ['empty/', 'empty/dir/']}))

    # ---- default verbosity: the failing patch names a file twice and an earlier patch of the same push touched it - the failure
    # report takes earlier patches back on a copy to see what would help, and that trial may not go through
    L8 = [b'f%d' % i for i in range(8)]

    def h8(cur, i, new_, wrong=False):
        lo, hi = max(0, i - 1), min(8, i + 2)
        body = b''.join((b'-' + (b'WRONG' if wrong else cur[j]) + b'\n+' + new_ + b'\n') if j == i else (b' ' + cur[j] + b'\n') for j in range(lo, hi))
        return b'@@ -%d,%d +%d,%d @@\n' % (lo + 1, hi - lo, lo + 1, hi - lo) + body
    for prev_line, b_line in ((3, 1), (1, 1), (0, 2)):
        cur = list(L8)
        p0 = b'--- a/f8\n+++ b/f8\n' + h8(cur, prev_line, b'P')
        cur[prev_line] = b'P'
        ea = b'--- a/f8\n+++ b/f8\n' + h8(cur, 1, b'A1') + h8(cur, 6, b'Q', wrong=True)
        mid = list(cur)
        mid[1] = b'A1'
        eb = b'--- a/f8\n+++ b/f8\n' + h8(mid, b_line, b'B')
        c = Case('failing patch names a file twice (line %d after line 1), an earlier patch changed line %d; default verbosity' % (b_line, prev_line), dict(F, f8=(b''.join(l + b'\n' for l in L8), 0o644)),
                 {'p0.patch': p0, 'p1.patch': ea + eb, 'p2.patch': mod(b'g', b'g', 2, b'G2')}, ['p0.patch', 'p1.patch', 'p2.patch'],
                 ['failing-patch-names-the-file-twice', 'default-verbosity'], first_fail=1, props=('C09',))
        c.loud = True
        out.append(c)

    # ---- a directory that comes and goes within the push, and a file of its name behind that: the cleaning of emptied directories
    # meets a file where it expects a directory (no clash when saving: a/f is never written)
    out.append(Case('a/f created, a/f deleted, then file a created', F, {'p0.patch': create(b'a/f', [b'n1', b'n2']), 'p1.patch': delete(b'a/f', [b'n1', b'n2']), 'p2.patch': create(b'a', [b'x1'])},
                    ['p0.patch', 'p1.patch', 'p2.patch'], ['directory-came-and-went-then-a-file-of-its-name'], first_fail=None, props=('C05', 'C06'),   # (not C09: cut between p0 and p1 this is the recorded KF-03 - the directory is on disk when `a` is loaded)
                    expect={'exit': '0', 'applied': ['p0.patch', 'p1.patch', 'p2.patch'], 'tree': dict(F, a=(b'x1\n', 0o644)), 'rejects': []}))

    # ---- known limitation (KF-03): a name that is a file for one patch and a directory for another, within one push
    out.append(Case('file a deleted, then a/b created', dict(F, a=(b'x\ny\n', 0o644)), {'p0.patch': delete(b'a', [b'x', b'y']), 'p1.patch': create(b'a/b', [b'n1', b'n2'])}, ['p0.patch', 'p1.patch'],
                    ['name-is-file-and-directory-within-one-push'], first_fail=None, props=('C09',)))
    out.append(Case('d/only deleted (d goes away), then file d created', dict(F, **{'d/only': (b'x\ny\n', 0o644)}), {'p0.patch': delete(b'd/only', [b'x', b'y']), 'p1.patch': create(b'd', [b'n1'])},
                    ['p0.patch', 'p1.patch'], ['name-is-file-and-directory-within-one-push'], first_fail=None, props=('C09',)))

    # ---- known limitation (KF-04): lines are kept as they were split when the file was loaded; a line without terminator that
    # ends up in the middle of the file is glued to its successor only when the file is written and read again
    out.append(Case('line appended behind a last line without newline, then the glued line patched', dict(F, nn=(b'a\nb', 0o644)),
                    {'p0.patch': b'--- a/nn\n+++ b/nn\n@@ -2,0 +3 @@\n+c\n', 'p1.patch': b'--- a/nn\n+++ b/nn\n@@ -1,2 +1,2 @@\n a\n-bc\n+X\n'}, ['p0.patch', 'p1.patch'],
                    ['unterminated-line-ends-up-inside-the-file'], first_fail=None, props=('C09',)))
    return out


def for_prop(prop):
    return [c for c in cases() if prop in c.props]


def expect_case(task):
    """run `push -a` on a case and compare with its stated outcome"""
    c, threads, policy, extra_args = task
    root = os.path.join(wsweep.wdir(), 'ws')
    ws.make_ws(root, c.files, c.patches, c.lines)
    env = {'RQ_VERIF_POLICY': 'high'} if policy == 'high' else None
    o = ws.run_rq(root, ['-a', '-q'] + list(extra_args), threads=threads, preload_env=env)
    snap = ws.snapshot(root)
    out = {'evals': 1, 'nontrivial': 1, 'violations': [], 'outcomes': {'raw:exit-' + o.cls: 1}}
    e = c.expect
    tags = set(c.tags) | {'threads>1' if threads > 1 else 'threads=1'}
    cl = wsweep.cls(tags)

    def wit(extra):
        return wsweep.witness(None, c, {'goal': ['-a'], 'quiet': True, 'extra': list(extra_args), 'threads': threads}, dict({'case': c.label, 'policy': policy}, **extra))
    if o.cls not in ('0', '1'):
        out['violations'].append((cl, o.cls, wit({'expected': 'exit 0 or 1', 'stderr': common.b2s(o.err[-400:])})))
        return out
    if o.cls != e['exit']:
        out['violations'].append((cl, 'exit-status', wit({'expected': e['exit'], 'observed': o.cls, 'stderr': common.b2s(o.err[-400:])})))
    if ws.applied_of(snap) != e['applied']:
        out['violations'].append((cl, 'applied-patches', wit({'expected': e['applied'], 'observed': ws.applied_of(snap)})))
    tree = ws.tree_of(snap)
    want = {p: (v[0], v[1]) for p, v in e['tree'].items() if not p.startswith('.pc')}
    if tree != want:
        d = sorted(p for p in set(tree) | set(want) if tree.get(p) != want.get(p))
        out['violations'].append((cl, 'tree', wit({'expected': 'see case', 'observed': 'differs at %r' % d, 'detail': {p: [repr(tree.get(p)), repr(want.get(p))] for p in d[:3]}})))
    if 'dirs' in e and sorted(ws.dirs_of(snap)) != sorted(e['dirs']):
        out['violations'].append((cl, 'directories', wit({'expected': sorted(e['dirs']), 'observed': sorted(ws.dirs_of(snap))})))
    rej = sorted(ws.rejects_of(snap))
    if rej != sorted(e['rejects']):
        out['violations'].append((cl, 'reject-set', wit({'expected': sorted(e['rejects']), 'observed': rej, 'stderr': common.b2s(o.err[-400:])})))
    return out


def run_expect(prop, res, key='handwritten_cases', extra_args=('--backup', 'never'), threads=(1, 2, 3)):
    cs = [c for c in for_prop(prop) if c.expect]
    tasks = [(c, t, pol, extra_args) for c in cs for t in threads for pol in ((None,) if t == 1 else (None, 'high'))]
    acc = wsweep.Acc(res)
    for r in wsweep.pmap(expect_case, tasks):
        acc.add(r)
    acc.finish(key)
    res.coverage[key]['cases'] = [c.label for c in cs]
    res.coverage[key]['rule'] = ('hand-written workspaces (symbolic links; a patch behind or before the failing one that is missing, unparseable, names a file outside of the tree or a target '
                                 'below a regular file; a name that is not UTF-8) x threads %s, parallel driver under both serial worker orders: exit status, applied-patches, tree '
                                 '(links stay links) and the set of rejects as stated with the case') % (list(threads),)
    return len(tasks)
