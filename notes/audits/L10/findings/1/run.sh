#!/bin/bash
# C10: --dry-run predicts exit 0, the real run with the same options exits 1
# (after it has already rewritten the tree), because the refusal to follow a
# symbolic link below .pc out of the working directory is checked only when
# the backups are written (save_backup_file), never in a dry run.
BIN=${1:?usage: run.sh <path-to-rapidquilt>}
BIN=$(readlink -f "$BIN")
T=$(mktemp -d) || exit 2
trap 'rm -rf "$T"' EXIT
bad=0
for threads in 1 2; do
    W=$T/ws$threads; O=$T/outside$threads
    mkdir -p "$W/patches" "$O"
    ln -s "$O" "$W/.pc"                 # .pc kept elsewhere, a link leads there
    printf 'a\n' > "$W/f"
    printf -- '--- a/f\n+++ b/f\n@@ -1 +1 @@\n-a\n+b\n' > "$W/patches/p.patch"
    echo p.patch > "$W/series"

    "$BIN" push -a -d "$W" --threads $threads --backup always --dry-run >"$T/dry.out" 2>"$T/dry.err"; ds=$?
    "$BIN" push -a -d "$W" --threads $threads --backup always           >"$T/real.out" 2>"$T/real.err"; rs=$?
    echo "threads=$threads: dry-run exit $ds, real run exit $rs; f now: $(cat "$W/f")"
    if [ "$ds" != "$rs" ]; then
        echo "VIOLATION: exit status of --dry-run ($ds) differs from the real run ($rs)"
        sed 's/^/    real: /' "$T/real.err"
        bad=1
    fi
done
exit $bad
