#!/bin/bash
# C12: the written form of a `diff -N` style entry (absent side carries a real
# name dated to the epoch) loses that marker; read back it is a different file patch.
# usage: run.sh <path-to-rapidquilt-binary>
BIN=$(readlink -f "$1")
[ -x "$BIN" ] || { echo "usage: $0 <rapidquilt binary>"; exit 2; }
T=$(mktemp -d)
trap 'rm -rf "$T"' EXIT
bad=0
EPOCH=$'\t1970-01-01 00:00:00.000000000 +0000'
STAMP=$'\t2020-01-01 00:00:00.000000000 +0000'

ws() { mkdir -p "$T/$1/patches"; }
push() { ( cd "$T/$1" && "$BIN" push -a -d . -q --threads 1 >out.txt 2>&1; echo $? >rc ); }

#### A: deletion, "+++ b/f <epoch>"
printf -- '--- a/f%s\n+++ b/f%s\n@@ -1,2 +0,0 @@\n-a\n-b\n' "$STAMP" "$EPOCH" > "$T/del.patch"
# 1. get the written form of the entry: let it fail, the reject is the entry written out
ws A0; printf 'x\n' > "$T/A0/f"; cp "$T/del.patch" "$T/A0/patches/p.patch"; echo "p.patch -p1" > "$T/A0/series"; push A0
[ -f "$T/A0/f.rej" ] || { echo "setup: no reject"; exit 2; }
echo "--- written form (f.rej) of the deletion entry:"; cat "$T/A0/f.rej"
# 2. apply the original and the written form to the same tree
ws A1; printf 'a\nb\n' > "$T/A1/f"; cp "$T/del.patch" "$T/A1/patches/p.patch"; echo "p.patch -p1" > "$T/A1/series"; push A1
ws A2; printf 'a\nb\n' > "$T/A2/f"; cp "$T/A0/f.rej" "$T/A2/patches/p.patch"; echo "p.patch -p0" > "$T/A2/series"; push A2
a1=$([ -e "$T/A1/f" ] && echo "exists($(stat -c %s "$T/A1/f") bytes)" || echo "removed")
a2=$([ -e "$T/A2/f" ] && echo "exists($(stat -c %s "$T/A2/f") bytes)" || echo "removed")
echo "deletion: original patch rc=$(cat $T/A1/rc) f $a1; written form rc=$(cat $T/A2/rc) f $a2"
[ "$a1" = "$a2" ] || { echo "VIOLATION: written form does not describe the same deletion"; bad=1; }

#### B: creation, "--- a/f <epoch>" on a tree where f exists
printf -- '--- a/f%s\n+++ b/f%s\n@@ -0,0 +1,2 @@\n+a\n+b\n' "$EPOCH" "$STAMP" > "$T/new.patch"
ws B1; printf 'x\n' > "$T/B1/f"; cp "$T/new.patch" "$T/B1/patches/p.patch"; echo "p.patch -p1" > "$T/B1/series"; push B1
[ -f "$T/B1/f.rej" ] || { echo "setup: no reject for creation"; exit 2; }
echo "--- written form (f.rej) of the creation entry:"; cat "$T/B1/f.rej"
ws B2; printf 'x\n' > "$T/B2/f"; cp "$T/B1/f.rej" "$T/B2/patches/p.patch"; echo "p.patch -p0" > "$T/B2/series"; push B2
echo "creation over existing f: original patch rc=$(cat $T/B1/rc), f=$(tr '\n' '|' < $T/B1/f); written form rc=$(cat $T/B2/rc), f=$(tr '\n' '|' < $T/B2/f)"
if [ "$(cat $T/B1/rc)" != "$(cat $T/B2/rc)" ] || ! cmp -s "$T/B1/f" "$T/B2/f"; then
  echo "VIOLATION: original is refused (creating a file that exists), its written form applies as an ordinary hunk"; bad=1
fi
# the reject of the written form, if any, must be the written form again
if [ -f "$T/B2/f.rej" ]; then cmp -s "$T/B1/f.rej" "$T/B2/f.rej" || { echo "VIOLATION: not a fixed point"; bad=1; }; fi
exit $bad
