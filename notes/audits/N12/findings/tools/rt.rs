// Round trip harness: rt <file>...  or rt --fuzz <seed> <iterations>
use libpatch::patch::unified::parser::parse_patch;
use libpatch::patch::unified::writer::UnifiedPatchWriter;
use libpatch::patch::*;

fn describe(p: &TextPatch, with_ctx: bool) -> String {
    let mut s = String::new();
    s += &format!("header={:?}\n", String::from_utf8_lossy(p.header));
    for fp in &p.file_patches {
        s += &format!("FP kind={:?} old={:?} new={:?} rename={} operm={:?} nperm={:?} ohash={:?} nhash={:?}\n",
            fp.kind(), fp.old_filename(), fp.new_filename(), fp.is_rename(), fp.old_permissions(), fp.new_permissions(),
            fp.old_hash().map(|h| String::from_utf8_lossy(h).to_string()), fp.new_hash().map(|h| String::from_utf8_lossy(h).to_string()));
        if with_ctx {
            let d = format!("{:?}", fp);
            let k = d.find("absent_side_is_named").unwrap();
            s += &format!("  {}\n", &d[k..k+30]);
        }
        for h in fp.hunks() {
            s += &format!("  H rem@{} add@{} fn={:?}", h.remove.target_line, h.add.target_line, String::from_utf8_lossy(h.function));
            if with_ctx { s += &format!(" pc={} sc={}", h.prefix_context, h.suffix_context); }
            s += "\n";
            for l in &h.remove.content { s += &format!("    - {:?}\n", String::from_utf8_lossy(l)); }
            for l in &h.add.content { s += &format!("    + {:?}\n", String::from_utf8_lossy(l)); }
        }
    }
    s
}

fn check(data: &[u8], strip: usize, verbose: bool) -> Result<bool, String> {
    let p1 = match parse_patch(data, strip, true) { Ok(p) => p, Err(e) => { if verbose { println!("parse error: {}", e); } return Ok(false); } };
    let mut w1 = Vec::new();
    p1.write_to(&mut w1).unwrap();
    if verbose { println!("--- parsed:\n{}--- written:\n{}", describe(&p1, true), String::from_utf8_lossy(&w1)); }
    let p2 = match parse_patch(&w1, 0, true) { Ok(p) => p, Err(e) => return Err(format!("written form rejected: {}\nwritten:\n{}", e, String::from_utf8_lossy(&w1))) };
    let d1 = describe(&p1, false);
    let d2 = describe(&p2, false);
    if d1 != d2 { return Err(format!("differs after re-parse:\n{}\nvs\n{}\nwritten:\n{}", d1, d2, String::from_utf8_lossy(&w1))); }
    let mut w2 = Vec::new();
    p2.write_to(&mut w2).unwrap();
    if w1 != w2 { return Err(format!("not a fixed point:\n{}\nvs\n{}", String::from_utf8_lossy(&w1), String::from_utf8_lossy(&w2))); }
    unsafe { for fp in &p1.file_patches { STATS[match fp.kind() { FilePatchKind::Modify => 0, FilePatchKind::Create => 1, FilePatchKind::Delete => 2 }] += 1; if fp.hunks().is_empty() { STATS[3] += 1; } if fp.is_rename() { STATS[4] += 1; } STATS[5] += fp.hunks().len(); } }
    let e1 = describe(&p1, true);
    let e2 = describe(&p2, true);
    if e1 != e2 && verbose { println!("NOTE: extended description differs:\n{}\nvs\n{}", e1, e2); }
    Ok(true)
}

static mut STATS: [usize; 6] = [0; 6];
struct Rng(u64);
impl Rng {
    fn next(&mut self) -> u64 { self.0 ^= self.0 << 13; self.0 ^= self.0 >> 7; self.0 ^= self.0 << 17; self.0 }
    fn below(&mut self, n: usize) -> usize { (self.next() % n as u64) as usize }
    fn pick<T: Copy>(&mut self, v: &[T]) -> T { v[self.below(v.len())] }
}

static mut TOOL: bool = false;
fn gen_name(r: &mut Rng) -> Vec<u8> {
    if unsafe { TOOL } {
        let names: &[&[u8]] = &[b"a/f", b"b/f", b"a/f", b"b/f", b"a/g", b"b/g", b"/dev/null", b"\"a/x y\"", b"a/x y", b"a/d/h", b"b/d/h", b"a/f.orig", b"a/e", b"b/e"];
        return r.pick(names).to_vec();
    }
    let names: &[&[u8]] = &[b"a/f", b"b/f", b"f", b"a/g", b"/dev/null", b"/dev//null", b"\"a/f\"", b"\"a/x y\"", b"\"a/\\303\\251\"", b"a/x y", b"\"q", b"a/\xc3\xa9", b"./f", b"a/./f", b"\"\"", b"\"/dev/null\"", b"a//f", b"a/f/", b"\"a\\\\b\"", b"a\\b", b"\"a\\\"b\"", b"dev/null", b"a/x\x7fy", b"\"a\\tb\"", b"\"a\\nb\"", b"a/f.orig"];
    r.pick(names).to_vec()
}

fn gen_stamp(r: &mut Rng) -> Vec<u8> {
    let stamps: &[&[u8]] = &[b"", b"", b"\t1970-01-01 00:00:00.000000000 +0000", b"\t1970-01-01 01:00:00.000000000 +0100", b"\t2020-01-01 00:00:00.000000000 +0000", b"\t", b" ", b"\t(revision 3)", b" 1970-01-01 00:00:00", b"\tx y"];
    r.pick(stamps).to_vec()
}

fn gen_line(r: &mut Rng) -> Vec<u8> {
    let lines: &[&[u8]] = &[b"a", b"b", b"c", b"", b"a", b"\\", b"\\ x", b"@@ -1 +1 @@", b"--- a", b"+++ b", b"diff --git a b", b" ", b"\t", b"-", b"+", b"a\r", b"\xff"];
    r.pick(lines).to_vec()
}

fn gen_hunk(r: &mut Rng, out: &mut Vec<u8>) {
    // build list of ops
    let n = r.below(6);
    let mut ops: Vec<(u8, Vec<u8>, bool)> = Vec::new();
    for _ in 0..n {
        let t = r.pick(&[b' ', b'-', b'+', b' ', b'-', b'+', b'\t', b'\n']);
        let l = gen_line(r);
        let nonl = r.below(5) == 0;
        ops.push((t, l, nonl));
    }
    let rc = ops.iter().filter(|o| o.0 != b'+').count();
    let ac = ops.iter().filter(|o| o.0 != b'-').count();
    let rl = r.pick(&[0usize, 0, 1, 1, 2, 5, 100]);
    let al = r.pick(&[0usize, 0, 1, 1, 2, 5, 100]);
    out.extend_from_slice(b"@@ -");
    if rc == 1 && r.below(2) == 0 { out.extend_from_slice(format!("{}", rl).as_bytes()); } else { out.extend_from_slice(format!("{},{}", rl, rc).as_bytes()); }
    out.extend_from_slice(b" +");
    if ac == 1 && r.below(2) == 0 { out.extend_from_slice(format!("{}", al).as_bytes()); } else { out.extend_from_slice(format!("{},{}", al, ac).as_bytes()); }
    out.extend_from_slice(r.pick(&[&b" @@"[..], b" @@", b" @", b" @@ fn", b" @@  x ", b" @@ ", b" @@x", b" @@ @@ -1 +1 @@"]));
    out.push(b'\n');
    for (t, l, nonl) in ops {
        match t {
            b'\t' => { out.push(b'\t'); out.extend_from_slice(&l); }
            b'\n' => {}
            c => { out.push(c); out.extend_from_slice(&l); }
        }
        out.push(b'\n');
        if nonl { out.extend_from_slice(r.pick(&[&b"\\ No newline at end of file\n"[..], b"\\\n", b"\\ Kein Zeilenumbruch\n"])); }
    }
}

fn gen_patch(r: &mut Rng) -> Vec<u8> {
    let mut out = Vec::new();
    let garbage: &[&[u8]] = &[b"garbage\n", b"\n", b"Index: f\n", b"===\n", b"--- \n", b"+++ \n", b"--- x\n", b"+++ y\n", b"index 12..34\n", b"old mode 100644\n", b"@@ -1 +1 @@\n", b"-a\n", b"+b\n", b"rename from a\n", b"diff --git\n", b"diff --git a\n", b"\\ No newline\n", b"new file mode 100644\n"];
    let nfp = 1 + r.below(3);
    for _ in 0..nfp {
        for _ in 0..r.below(3) { out.extend_from_slice(r.pick(garbage)); }
        let git = r.below(2) == 0;
        if git {
            out.extend_from_slice(b"diff --git ");
            out.extend_from_slice(&gen_name(r)); out.push(b' '); out.extend_from_slice(&gen_name(r)); out.push(b'\n');
            for _ in 0..r.below(4) {
                let md: &[&[u8]] = &[b"old mode 100644\n", b"new mode 100755\n", b"new file mode 100644\n", b"deleted file mode 100644\n", b"index 1a2b..3c4d\n", b"index 1a2b..3c4d 100644\n", b"index 0000000..e69de29\n", b"rename from x\n", b"rename to y\n", b"similarity index 100%\n", b"copy from a\n", b"copy to b\n", b"new mode 000000\n", b"old mode 777777\n", b"index ABCDEF..abcdef\n", b"garbage\n", b"new file mode 120000\n"];
                out.extend_from_slice(r.pick(md));
            }
        }
        let k = r.below(8);
        if !git || k > 1 {
            if k != 2 { out.extend_from_slice(b"--- "); out.extend_from_slice(&gen_name(r)); out.extend_from_slice(&gen_stamp(r)); out.push(b'\n'); }
            if k != 3 { out.extend_from_slice(b"+++ "); out.extend_from_slice(&gen_name(r)); out.extend_from_slice(&gen_stamp(r)); out.push(b'\n'); }
        }
        let nh = if git { r.below(3) } else { 1 + r.below(2) };
        for _ in 0..nh { gen_hunk(r, &mut out); }
    }
    for _ in 0..r.below(2) { out.extend_from_slice(r.pick(garbage)); }
    out
}

fn mutate_patch(r: &mut Rng, p: &mut Vec<u8>) {
    let dict: &[&[u8]] = &[b"\\", b"\"", b"\t", b" ", b"\n", b"/dev/null", b"@@", b"--- ", b"+++ ", b"diff --git ", b"\\ No newline at end of file\n", b"0", b",", b"1970-01-01 00:00:00", b"\r", b"/", b"./", b"../", b"\x0c", b"\x0b", b"\\001", b"\\377", b"\\400"];
    for _ in 0..(1 + r.below(4)) {
        if p.is_empty() { return; }
        match r.below(6) {
            0 => { let i = r.below(p.len()); p.remove(i); }
            1 => { let i = r.below(p.len() + 1); let t = r.pick(dict); for (k, b) in t.iter().enumerate() { p.insert(i + k, *b); } }
            2 | 3 => {
                // line ops
                let mut lines: Vec<Vec<u8>> = p.split(|&c| c == b'\n').map(|l| l.to_vec()).collect();
                let i = r.below(lines.len());
                if r.below(2) == 0 { lines.remove(i); } else { let j = r.below(lines.len()); lines.swap(i, j); }
                *p = lines.join(&b'\n');
            }
            4 => { let i = r.below(p.len()); let l = p[i..].iter().position(|&c| c == b'\n').map(|x| x + 1).unwrap_or(p.len() - i); let dup = p[i..i + l].to_vec(); for (k, b) in dup.iter().enumerate() { p.insert(i + k, *b); } }
            _ => { let i = r.below(p.len()); p[i] = r.pick(&[b' ', b'\t', b'"', b'\\', b'0', b'-', b'+', b'@', b'\n', b'/']); }
        }
    }
}

fn main() {
    let args: Vec<String> = std::env::args().collect();
    if args.len() >= 2 && args[1] == "--fuzz" {
        let seed: u64 = args[2].parse().unwrap();
        let iters: usize = args[3].parse().unwrap();
        let mutate = args.len() > 4;
        let mut r = Rng(seed * 2654435761 + 88172645463325252);
        let mut ok = 0; let mut bad = 0;
        for i in 0..iters {
            let mut p = gen_patch(&mut r);
            if mutate { mutate_patch(&mut r, &mut p); }
            let strip = r.below(3);
            match check(&p, strip, false) {
                Ok(true) => ok += 1,
                Ok(false) => {}
                Err(e) => { bad += 1; if bad <= 5 { println!("=== VIOLATION iter {} strip {}\ninput:\n{}\n{}", i, strip, String::from_utf8_lossy(&p), e);
                    std::fs::write(format!("/tmp/wt/N12/fuzzfail-{}-{}.patch", seed, i), &p).unwrap(); } }
            }
        }
        println!("parsed ok {} of {}, violations {}; stats modify/create/delete/hunkless/rename/hunks {:?}", ok, iters, bad, unsafe { STATS });
        return;
    }
    if args.len() >= 2 && args[1] == "--gen" {
        unsafe { TOOL = true; }
        let seed: u64 = args[2].parse().unwrap();
        let mut r = Rng(seed * 2654435761 + 88172645463325252);
        for _ in 0..5 { r.next(); }
        let p = gen_patch(&mut r);
        use std::io::Write;
        std::io::stdout().write_all(&p).unwrap();
        return;
    }
    let mut strip = 0;
    for a in &args[1..] {
        if a.starts_with("-p") { strip = a[2..].parse().unwrap(); continue; }
        let data = std::fs::read(a).unwrap();
        match check(&data, strip, true) { Ok(_) => println!("{}: ok", a), Err(e) => println!("{}: VIOLATION {}", a, e) }
    }
}
