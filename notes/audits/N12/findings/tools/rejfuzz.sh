#!/bin/bash
# usage: rejfuzz.sh from to
BIN=/tmp/wt/N12/target/debug/rapidquilt
RT=/tmp/wt/N12/target/debug/examples/rt
W=/tmp/wt/N12/t/rf
mktree() { rm -rf "$1"; mkdir -p "$1/patches" "$1/d"; printf 'zzz\n' > "$1/f"; : > "$1/x y"; printf 'a\nb\nc\n' > "$1/d/h"; printf 'q' > "$1/e"; }
for seed in $(seq $1 $2); do
  mktree $W.1
  $RT --gen $seed > $W.1/patches/p.patch
  echo "p.patch -p1" > $W.1/series
  ( cd $W.1 && timeout 20 $BIN push -a -d . -q --threads 1 >out.txt 2>&1; echo $? > rc )
  rc1=$(cat $W.1/rc)
  if [ "$rc1" != 0 ] && [ "$rc1" != 1 ]; then echo "seed $seed: rc $rc1"; head -5 $W.1/out.txt; continue; fi
  # collect rejects
  ( cd $W.1 && find . -name '*.rej' | sort ) > $W.rejs
  [ -s $W.rejs ] || continue
  mktree $W.2
  : > $W.2/series
  n=0
  # one patch made of all the rejects, in order of the list -> compare each reject
  while read -r r; do n=$((n+1)); cp "$W.1/$r" "$W.2/patches/r$n.patch"; done < $W.rejs
  # apply each reject alone in a fresh tree
  n=0
  while read -r r; do
    n=$((n+1))
    mktree $W.3
    cp "$W.1/$r" "$W.3/patches/r.patch"; echo "r.patch -p0" > $W.3/series
    ( cd $W.3 && timeout 20 $BIN push -a -d . -q --threads 1 >out.txt 2>&1; echo $? > rc )
    if [ -f "$W.3/$r" ]; then
      cmp -s "$W.1/$r" "$W.3/$r" || { echo "seed $seed: $r differs on second round"; }
    else
      echo "seed $seed: $r: no reject on second round (rc $(cat $W.3/rc))"
    fi
  done < $W.rejs
done
