#!/bin/bash
# C12: the written form of a parsed patch is not a fixed point and does not
# describe the same file patch when a file name contains text that looks like
# an epoch time stamp: has_epoch_timestamp() scans the whole "---"/"+++" line,
# name included. The original hides the blank as \040, so its name is not
# taken for a date; the writer emits the blank literally, so the re-parsed
# patch counts as "dated to the epoch" (absent_side_is_named flips).
# usage: run.sh <path-to-rapidquilt>
BIN=${1:?usage: run.sh path-to-rapidquilt}
BIN=$(readlink -f "$BIN")
W=$(mktemp -d) || exit 2
cd "$W" || exit 2
bad=0

mkws() { # dir, content of y, patch file
    mkdir -p "$1/patches" && printf "$2" > "$1/y" && cp "$3" "$1/patches/p.patch" && echo "p.patch -p$4" > "$1/series"
}

# the original patch: takes line "old" out of y; new name is  x<blank>1970-01-01 00:00:00
printf -- '--- a/y\n+++ "b/x\\0401970-01-01 00:00:00"\n@@ -1 +0,0 @@\n-old\n' > orig.patch

# 1. make it fail, so that its written form comes out as the reject W1
mkws A 'other\n' orig.patch 1
"$BIN" push -a -q -d A >/dev/null 2>&1
cp A/y.rej W1.patch || { echo "no reject written"; exit 2; }

# 2. the written form must be accepted and, written again, reproduce itself
mkws B 'other\n' W1.patch 0
"$BIN" push -a -q -d B >/dev/null 2>&1
cp B/y.rej W2.patch || { echo "no second reject written"; exit 2; }
if ! cmp -s W1.patch W2.patch; then
    echo "VIOLATION (fixed point): writing the re-parsed patch differs from the written form"
    diff -u W1.patch W2.patch
    bad=1
fi

# 3. same file patch? the original removes "old" from  first/old ; its written form must do the same
mkws C 'first\nold\n' orig.patch 1
"$BIN" push -a -q -d C >/dev/null 2>&1; rc_orig=$?
mkws D 'first\nold\n' W1.patch 0
"$BIN" push -a -q -d D >/dev/null 2>&1; rc_w1=$?
if [ $rc_orig -ne $rc_w1 ] || ! cmp -s C/y D/y; then
    echo "VIOLATION (same file patch): original exit=$rc_orig y=$(tr '\n' '|' < C/y)  written form exit=$rc_w1 y=$(tr '\n' '|' < D/y)"
    bad=1
fi

[ $bad -eq 0 ] && echo "no violation"
rm -rf "$W"
exit $bad
