#!/bin/bash
# C19 finding 2: the patched name itself is a symbolic link that leaves the
# working tree.
#  a) dangling link l -> ../ext/created, patch creates "l": File::create()
#     follows the link and creates ../ext/created outside the working tree.
#  b) link l -> ../ext/secret, patch modifies "l": the file outside is read and
#     used as the patch target; its content ends up in the tree (l becomes a
#     regular file with the patched outside content, .pc/p.patch/l gets a copy
#     of the outside file), push exits 0.
# GNU patch 2.7.6: "File l is not a regular file -- refusing to patch", exit 1.
# usage: run.sh <path-to-rapidquilt-binary>      exit 1 = violation shown
BIN=$(readlink -f "${1:?usage: run.sh <rapidquilt binary>}")
T=$(mktemp -d) || exit 2
trap 'rm -rf "$T"' EXIT
bad=0
mk() {
    rm -rf "$T/w" "$T/ext"
    mkdir -p "$T/w/patches" "$T/ext"
    echo inside > "$T/w/inside"
    echo p.patch > "$T/w/series"
}

for threads in 1 3; do
# a) creation through a dangling link
mk; ln -s ../ext/created "$T/w/l"
printf -- '--- /dev/null\n+++ b/l\n@@ -0,0 +1 @@\n+HACKED\n' > "$T/w/patches/p.patch"
( cd "$T/w" && "$BIN" push -a -q --threads $threads >"$T/log" 2>&1 ); rc=$?
if [ -e "$T/ext/created" ]; then
    echo "VIOLATION (a, threads $threads): push (exit $rc) created $T/ext/created outside the working tree: $(cat "$T/ext/created")"
    bad=1
else
    echo "ok (a, threads $threads): nothing created outside, exit $rc"
fi

# b) file outside used as patch target
mk; echo top-secret > "$T/ext/secret"; ln -s ../ext/secret "$T/w/l"
printf -- '--- a/l\n+++ b/l\n@@ -1 +1,2 @@\n top-secret\n+appended\n' > "$T/w/patches/p.patch"
( cd "$T/w" && "$BIN" push -a -q --backup always --threads $threads >"$T/log" 2>&1 ); rc=$?
if [ $rc -eq 0 ] || grep -qs top-secret "$T/w/.pc/p.patch/l" || { [ ! -L "$T/w/l" ] && grep -qs top-secret "$T/w/l"; }; then
    echo "VIOLATION (b, threads $threads): file outside the tree was used as patch target (exit $rc);"
    echo "    l is now: $(ls -l "$T/w/l" | cut -c1-10) with content: $(tr '\n' '|' < "$T/w/l")"
    echo "    .pc/p.patch/l: $(tr '\n' '|' < "$T/w/.pc/p.patch/l" 2>/dev/null)"
    bad=1
else
    echo "ok (b, threads $threads): refused, exit $rc"
fi
done
exit $bad
