#!/bin/bash
# C19 finding 1: a patch file name that passes through a symlinked directory of
# the working tree (out -> ../ext) lets the push create, modify and delete files
# outside the working tree, remove a directory there, and drop a .rej there.
# GNU patch 2.7.6 refuses each of these ("Invalid file name out/created --
# skipping patch" / "can't find file to patch").
# usage: run.sh <path-to-rapidquilt-binary>      exit 1 = violation shown
BIN=$(readlink -f "${1:?usage: run.sh <rapidquilt binary>}")
T=$(mktemp -d) || exit 2
trap 'rm -rf "$T"' EXIT
bad=0

mk() {   # fresh workspace $T/w next to the foreign directory $T/ext
    rm -rf "$T/w" "$T/ext"
    mkdir -p "$T/w/patches" "$T/ext/sub"
    echo outside > "$T/ext/victim"
    echo outside > "$T/ext/sub/f"
    echo inside  > "$T/w/inside"
    ln -s ../ext "$T/w/out"
    echo p.patch > "$T/w/series"
    ( cd "$T/ext" && find . -type f -exec sha1sum {} + | sort -k2; find . | sort ) > "$T/before"
}
check() { # $1 = label
    ( cd "$T/ext" && find . -type f -exec sha1sum {} + | sort -k2; find . | sort ) > "$T/after"
    if ! diff -u "$T/before" "$T/after" > "$T/diff"; then
        echo "VIOLATION ($1): tree outside the working directory changed (exit status of push: $rc):"
        sed 's/^/    /' "$T/diff"
        bad=1
    else
        echo "ok ($1): outside untouched, push exit $rc"
    fi
}
push() { ( cd "$T/w" && "$BIN" push -a -q "$@" >"$T/log" 2>&1 ); rc=$?; }

for threads in 1 3; do
mk; printf -- '--- /dev/null\n+++ b/out/created\n@@ -0,0 +1 @@\n+HACKED\n' > "$T/w/patches/p.patch"
push --threads $threads; check "create out/created, threads $threads"

mk; printf -- '--- a/out/victim\n+++ b/out/victim\n@@ -1 +1 @@\n-outside\n+HACKED\n' > "$T/w/patches/p.patch"
push --threads $threads; check "modify out/victim, threads $threads"

mk; printf -- '--- a/out/sub/f\n+++ /dev/null\n@@ -1 +0,0 @@\n-outside\n' > "$T/w/patches/p.patch"
push --threads $threads; check "delete out/sub/f (+ rmdir out/sub), threads $threads"

mk; printf -- '--- a/out/victim\n+++ b/out/victim\n@@ -1 +1 @@\n-nomatch\n+HACKED\n' > "$T/w/patches/p.patch"
push --threads $threads; check "failing hunk -> out/victim.rej, threads $threads"
done
exit $bad
