#!/bin/bash
# C09: a directory that was empty before the push and under which one patch
# creates a file (in a new sub-directory) that a later patch deletes again is
# removed when the patches are pushed one by one, but stays when they are pushed
# together; a reject that belongs into it is written in one case and bypassed in
# the other.
BIN=${1:?usage: run.sh <path-to-rapidquilt>}
BIN=$(readlink -f "$BIN")
T=$(mktemp -d) || exit 2
trap 'rm -rf "$T"' EXIT

mk() {
    mkdir -p "$1/patches" "$1/d1"          # d1 is an empty directory of the tree
    cat > "$1/patches/p1.patch" <<'P'
--- /dev/null
+++ b/d1/d2/f
@@ -0,0 +1 @@
+hello
P
    cat > "$1/patches/p2.patch" <<'P'
--- a/d1/d2/f
+++ /dev/null
@@ -1 +0,0 @@
-hello
P
    cat > "$1/patches/p3.patch" <<'P'
--- a/d1/g
+++ b/d1/g
@@ -1 +1 @@
-x
+y
P
    printf 'p1.patch\np2.patch\np3.patch\n' > "$1/series"
}
snap() { (cd "$1" && find . -path ./.pc -prune -o -print | LC_ALL=C sort; cat .pc/applied-patches); }

rc=0
for threads in 1 3; do
    for goal in 2 3; do
        rm -rf "$T/one" "$T/split"; mk "$T/one"; mk "$T/split"
        "$BIN" push $goal -d "$T/one" --threads $threads >/dev/null 2>&1; s1=$?
        s2=0
        for i in $(seq $goal); do "$BIN" push -d "$T/split" --threads $threads >/dev/null 2>&1; s2=$?; done
        if [ "$s1" != "$s2" ] || ! diff <(snap "$T/one") <(snap "$T/split") >"$T/diff"; then
            echo "VIOLATION (threads=$threads): 'push $goal' (exit $s1) and $goal x 'push' (exit $s2) differ:"
            sed 's/^</  one push only: /; s/^>/  split only:    /' "$T/diff" | grep -v '^[0-9]'
            rc=1
        fi
    done
done
[ $rc = 0 ] && echo "no difference"
exit $rc
