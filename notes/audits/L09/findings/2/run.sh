#!/bin/bash
# C09 (borderline, same family as "a patch that writes into .pc"):
# "a push after a failed push stops at the same patch with the same result".
# The tree tracks both "a" and a file called "a.rej"; the failing patch has an
# entry for each. The first push rejects the hunk for "a" and overwrites the
# tracked "a.rej" with the reject. The repeated push then also fails on "a.rej"
# and leaves an additional "a.rej.rej"; the content of "a.rej" changes as well.
BIN=${1:?usage: run.sh <path-to-rapidquilt>}
BIN=$(readlink -f "$BIN")
T=$(mktemp -d) || exit 2
trap 'rm -rf "$T"' EXIT
W=$T/w
mkdir -p "$W/patches"
printf 'one\ntwo\nthree\n' > "$W/a"
printf 'note 1\nnote 2\n' > "$W/a.rej"
cat > "$W/patches/p1.patch" <<'P'
--- a/a
+++ b/a
@@ -1,3 +1,3 @@
 one
-TWO
+2
 three
--- a/a.rej
+++ b/a.rej
@@ -1,2 +1,2 @@
 note 1
-note 2
+note two
P
echo p1.patch > "$W/series"
snap() { (cd "$W" && find . -path ./.pc -prune -o -type f -print | LC_ALL=C sort | while read f; do echo "$f $(md5sum < "$f")"; done; cat .pc/applied-patches 2>/dev/null); }

"$BIN" push -a -d "$W" --threads 1 >/dev/null 2>&1; s1=$?
snap > "$T/first"
"$BIN" push -a -d "$W" --threads 1 >/dev/null 2>&1; s2=$?
snap > "$T/second"
if [ "$s1" != "$s2" ] || ! diff "$T/first" "$T/second" > "$T/diff"; then
    echo "VIOLATION: the repeated push (exit $s2) does not leave what the failed push (exit $s1) left:"
    cat "$T/diff"
    exit 1
fi
echo "no difference"
exit 0
