#!/bin/bash
# C09 (borderline, same family as "a patch that writes into .pc"):
# the patches directory and the series file live inside the working directory,
# so a patch can name them. p1 edits patches/p2.patch. One push of both uses
# p2 as it was when the push began (modified files are only written at the
# end), two pushes use p2 as p1 left it: the tree differs.
BIN=${1:?usage: run.sh <path-to-rapidquilt>}
BIN=$(readlink -f "$BIN")
T=$(mktemp -d) || exit 2
trap 'rm -rf "$T"' EXIT
mk() {
    mkdir -p "$1/patches"
    printf 'one\n' > "$1/f"
    cat > "$1/patches/p1.patch" <<'P'
--- a/patches/p2.patch
+++ b/patches/p2.patch
@@ -2,4 +2,4 @@
 +++ b/f
 @@ -1 +1 @@
 -one
-+two
++three
P
    cat > "$1/patches/p2.patch" <<'P'
--- a/f
+++ b/f
@@ -1 +1 @@
-one
+two
P
    printf 'p1.patch\np2.patch\n' > "$1/series"
}
rc=0
for threads in 1 2; do
    rm -rf "$T/one" "$T/split"; mk "$T/one"; mk "$T/split"
    "$BIN" push -a -d "$T/one" --threads $threads >/dev/null 2>&1; s1=$?
    "$BIN" push -d "$T/split" --threads $threads >/dev/null 2>&1
    "$BIN" push -d "$T/split" --threads $threads >/dev/null 2>&1; s2=$?
    if [ "$s1" != "$s2" ] || ! cmp -s "$T/one/f" "$T/split/f"; then
        echo "VIOLATION (threads=$threads): 'push -a' (exit $s1) leaves f='$(cat "$T/one/f")', 'push; push' (exit $s2) leaves f='$(cat "$T/split/f")'"
        rc=1
    fi
done
[ $rc = 0 ] && echo "no difference"
exit $rc
