#!/bin/bash
# C06 finding 1: a worker that ran ahead of the failing patch leaves the
# "ever_present" mark on a file whose creation it has rolled back; the empty
# directory of that file is removed by the parallel run, kept by the
# single-threaded run.
#
# usage: run.sh <path-to-rapidquilt>      exit 1 = violation shown, 0 = not shown
BIN=${1:?usage: run.sh <path-to-binary>}
BIN=$(readlink -f "$BIN")
W=$(mktemp -d)
trap 'rm -rf "$W"' EXIT

mk() {
  local d=$1 i
  mkdir -p "$d/patches" "$d/d"          # d/ is an empty directory of the tree
  seq 1 200000 > "$d/g"                 # big file: its worker is the slow one
  : > "$d/series"
  # p0: entry without hunks for d/f, which does not exist (applies as a no-op)
  printf 'diff --git a/d/f b/d/f\nold mode 100644\nnew mode 100755\n' > "$d/patches/p0.patch"
  echo p0.patch >> "$d/series"
  # g1..g30: good patches for g (keep the worker of g busy)
  for i in $(seq 1 30); do
    printf -- '--- a/g\n+++ b/g\n@@ -%d,1 +%d,1 @@\n-%d\n+x%d\n' $((i*10)) $((i*10)) $((i*10)) $((i*10)) > "$d/patches/g$i.patch"
    echo g$i.patch >> "$d/series"
  done
  # fail: does not apply to g -> the push ends here
  printf -- '--- a/g\n+++ b/g\n@@ -5,1 +5,1 @@\n-nope\n+yes\n' > "$d/patches/fail.patch"
  echo fail.patch >> "$d/series"
  # create: behind the failing patch; creates d/f. Never applied by the
  # single-threaded run; applied and rolled back by a worker that is ahead.
  printf -- '--- /dev/null\n+++ b/d/f\n@@ -0,0 +1 @@\n+hello\n' > "$d/patches/create.patch"
  echo create.patch >> "$d/series"
}

listing() { (cd "$1" && find . -path ./patches -prune -o -printf '%y %m %p\n' | sort); }

mk "$W/seq"
"$BIN" push -a -d "$W/seq" --threads 1 -q >/dev/null 2>&1; rc_seq=$?
listing "$W/seq" > "$W/seq.list"

shown=0
for attempt in 1 2 3 4 5 6; do
  for t in 2 3 4; do
    rm -rf "$W/par"; mk "$W/par"
    "$BIN" push -a -d "$W/par" --threads $t -q >/dev/null 2>&1; rc_par=$?
    listing "$W/par" > "$W/par.list"
    if [ $rc_seq != $rc_par ] || ! cmp -s "$W/seq.list" "$W/par.list" || ! diff -r "$W/seq" "$W/par" >/dev/null; then
      echo "VIOLATION (attempt $attempt, --threads $t): exit $rc_seq vs $rc_par; single-threaded vs parallel tree:"
      diff "$W/seq.list" "$W/par.list"
      shown=1
      break 2
    fi
  done
done
[ $shown = 1 ] && exit 1
echo "no difference seen"
exit 0
