#!/bin/bash
# C05: a patch that is rolled back (the failing one, or - with --threads N - one
# behind it) removes an empty directory of the starting tree.
# usage: run.sh <path-to-rapidquilt>
RQ=$(readlink -f "${1:?usage: run.sh <path-to-rapidquilt>}")
W=$(mktemp -d) || exit 2
trap 'rm -rf "$W"' EXIT
cd "$W" || exit 2
bad=0

mk() { # $1 = directory
    mkdir -p "$1/patches" "$1/d/e"        # d/e is an empty directory of the tree
    printf 'l1\nl2\nl3\n' > "$1/y"
    # p1: applies, changes nothing: a mode change for a file that is not there
    cat > "$1/patches/p1.patch" <<'P'
diff --git a/d/e/x b/d/e/x
old mode 100644
new mode 100755
P
}
listing() { ( cd "$1" && find . -path ./.pc -prune -o -path ./patches -prune -o -print | LC_ALL=C sort ); }

# --- variant A, any thread count: the failing patch itself creates d/e/x
mk A
cat > A/patches/p2.patch <<'P'
--- /dev/null
+++ b/d/e/x
@@ -0,0 +1 @@
+new
--- a/y
+++ b/y
@@ -1,3 +1,3 @@
 l1
-WRONG
+l2x
 l3
P
printf 'p1.patch\np2.patch\n' > A/series
cp -a A A1
listing A > A.before
"$RQ" push -a -d A --threads 1 -q >/dev/null 2>&1; rcA=$?
listing A | grep -v '\.rej$' > A.after
# reference: the same two patches pushed one by one
"$RQ" push -d A1 -q >/dev/null 2>&1; "$RQ" push -d A1 -q >/dev/null 2>&1
listing A1 | grep -v '\.rej$' > A1.after
echo "variant A: exit $rcA, applied: $(tr '\n' ' ' < A/.pc/applied-patches)"
if ! diff A.before A.after; then
    echo "VIOLATION (A): the failing patch p2 changed the tree (k=1, p1 changes nothing)"; bad=1
fi
if ! diff A1.after A.after >/dev/null; then
    echo "VIOLATION (A): one push of p1,p2 and two pushes leave different trees"; bad=1
fi

# --- variant B, parallel only: a patch BEHIND the failing one creates d/e/x
mk B
cat > B/patches/p2.patch <<'P'
--- a/y
+++ b/y
@@ -1,3 +1,3 @@
 l1
-WRONG
+l2x
 l3
P
cat > B/patches/p3.patch <<'P'
--- /dev/null
+++ b/d/e/x
@@ -0,0 +1 @@
+new
P
printf 'p1.patch\np2.patch\np3.patch\n' > B/series
listing B > B.before
for t in 1 2 3 4; do
    rm -rf Bt; cp -a B Bt
    "$RQ" push -a -d Bt --threads $t -q >/dev/null 2>&1
    listing Bt | grep -v '\.rej$' > Bt.after
    if ! diff B.before Bt.after >/dev/null; then
        echo "VIOLATION (B): --threads $t: patch p3, behind the failing p2, changed the tree:"; diff B.before Bt.after; bad=1
    else
        echo "variant B: --threads $t leaves the tree alone"
    fi
done

# --- variant C, any thread count: the failing patch brings d/e/x in by a rename
# (the other place where "was there at some time" is set: ModifiedFile::move_in)
mk C
printf 'z1\n' > C/z
cat > C/patches/p2.patch <<'P'
diff --git a/z b/d/e/x
rename from z
rename to d/e/x
diff --git a/y b/y
--- a/y
+++ b/y
@@ -1,3 +1,3 @@
 l1
-WRONG
+l2x
 l3
P
printf 'p1.patch\np2.patch\n' > C/series
listing C > C.before
"$RQ" push -a -d C --threads 1 -q >/dev/null 2>&1
listing C | grep -v '\.rej$' > C.after
if ! diff C.before C.after; then
    echo "VIOLATION (C): the failing patch p2 (rename) changed the tree"; bad=1
fi
exit $bad
