#!/bin/bash
# C13 finding 2: a failing patch that renames a file which does not exist leaves behind an empty
# target file, a directory that did not exist, and a reject file inside that new directory.
BIN=${1:?usage: run.sh <path-to-rapidquilt>}
BIN=$(readlink -f "$BIN")
rc=0
for T in 1 2; do
W=$(mktemp -d); cd "$W" || exit 2; mkdir patches
printf 'l1\nl2\nl3\n' > x
cat > patches/p.patch <<'P'
diff --git a/old b/nd/new
rename from old
rename to nd/new
--- a/old
+++ b/nd/new
@@ -1,3 +1,3 @@
 l1
-l2
+lY
 l3
P
echo p.patch > series
find . | sort > before.txt
"$BIN" push -a -d . -q --threads $T >out.txt 2>err.txt; st=$?
echo "threads=$T exit=$st"; cat out.txt err.txt
[ $st -eq 1 ] || { echo "unexpected exit status"; rc=2; }
echo "--- tree after failed push:"; find . -path ./patches -prune -o -print | sort
[ -e nd ] && { echo "VIOLATION: directory nd was created by a push that failed (threads=$T)"; rc=1; }
[ -e nd/new ] && { echo "VIOLATION: file nd/new ($(stat -c %s nd/new) bytes) was created by a push that failed"; rc=1; }
[ -e nd/new.rej ] && { echo "VIOLATION: reject nd/new.rej written into a directory that did not exist"; rc=1; }
cd /; rm -rf "$W"
done
exit $rc
