#!/bin/bash
# C13 finding 5: the reject of a file whose extension is not valid UTF-8 gets a mangled name
# (extension replaced by U+FFFD), so <file>.rej does not exist.
BIN=${1:?usage: run.sh <path-to-rapidquilt>}
BIN=$(readlink -f "$BIN")
rc=0
W=$(mktemp -d); cd "$W" || exit 2; mkdir patches
N=$(printf 'f.\377')
printf 'l1\nl2\nl3\n' > "$N"
printf -- '--- a/f.\377\n+++ b/f.\377\n@@ -1,3 +1,3 @@\n l1\n-lX\n+lY\n l3\n' > patches/p.patch
echo p.patch > series
"$BIN" push -a -d . -q --threads 1 >out.txt 2>err.txt; st=$?
echo "exit=$st"; ls --quoting-style=c
[ $st -eq 1 ] || { echo "unexpected exit status"; rc=2; }
[ -f "$N.rej" ] || { echo "VIOLATION: reject file 'f.\\377.rej' does not exist"; rc=1; }
BAD=$(printf 'f.\357\277\275.rej')
[ -f "$BAD" ] && { echo "VIOLATION: reject was written to 'f.\\357\\277\\275.rej' instead"; rc=1; }
cd /; rm -rf "$W"
exit $rc
