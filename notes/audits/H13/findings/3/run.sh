#!/bin/bash
# C13 finding 3: a patch that renames a file onto an existing file (with a hunk) makes the push
# stop at that patch, but no reject file is written at all and no file is reported as failed.
BIN=${1:?usage: run.sh <path-to-rapidquilt>}
BIN=$(readlink -f "$BIN")
rc=0
for T in 1 2; do
W=$(mktemp -d); cd "$W" || exit 2; mkdir patches
printf 'l1\nl2\nl3\n' > old
printf 'x\n' > new
cat > patches/p.patch <<'P'
diff --git a/old b/new
rename from old
rename to new
--- a/old
+++ b/new
@@ -1,3 +1,3 @@
 l1
-l2
+lY
 l3
P
echo p.patch > series
"$BIN" push -a -d . -q --threads $T >out.txt 2>err.txt; st=$?
echo "threads=$T exit=$st"; cat out.txt err.txt
echo "--- tree:"; find . -path ./patches -prune -o -type f -print | sort
if [ $st -eq 1 ] && grep -q 'p.patch FAILED' err.txt; then
  n=$(find . -name '*.rej' | wc -l)
  [ "$n" -eq 0 ] && { echo "VIOLATION: push stopped at p.patch (hunk @@ -1,3 of old->new not applied) but there is no .rej (threads=$T)"; rc=1; }
fi
cd /; rm -rf "$W"
done
exit $rc
