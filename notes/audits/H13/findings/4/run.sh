#!/bin/bash
# C13 finding 4: when one reject file cannot be written (here: its name is taken by a directory;
# the same happens with a read-only directory for a non-root user), the remaining reject files
# are not written either; in addition the patches before P stay applied on disk while
# .pc/applied-patches and the backups are never written.
BIN=${1:?usage: run.sh <path-to-rapidquilt>}
BIN=$(readlink -f "$BIN")
rc=0
for T in 1 2; do
W=$(mktemp -d); cd "$W" || exit 2; mkdir patches
printf 'l1\nl2\nl3\n' > x
printf 'l1\nl2\nl3\n' > y
printf 'l1\nl2\nl3\n' > z
mkdir y.rej
cat > patches/p0.patch <<'P'
--- a/z
+++ b/z
@@ -1,3 +1,3 @@
 l1
-l2
+lY
 l3
P
cat > patches/p1.patch <<'P'
--- a/x
+++ b/x
@@ -1,3 +1,3 @@
 l1
-lX
+lY
 l3
--- a/y
+++ b/y
@@ -1,3 +1,3 @@
 l1
-lX
+lY
 l3
P
printf 'p0.patch\np1.patch\n' > series
"$BIN" push -a -d . -q --threads $T >out.txt 2>err.txt; st=$?
echo "threads=$T exit=$st"; cat out.txt err.txt
echo "--- tree:"; find . -path ./patches -prune -o -print | sort
[ -f x.rej ] || { echo "VIOLATION: x has a failing hunk, its directory exists, but x.rej was not written (threads=$T)"; rc=1; }
if grep -q lY z && ! grep -q p0.patch .pc/applied-patches 2>/dev/null; then
  echo "NOTE: p0.patch is applied to z on disk but not recorded in .pc/applied-patches (backup of z: $([ -e .pc/p0.patch/z ] && echo present || echo missing))"
fi
cd /; rm -rf "$W"
done
exit $rc
