#!/bin/bash
# C13 finding 1: a failing patch that names the same file in two sections, each with a failing
# hunk, leaves a .rej that holds only the hunks of the FIRST section (the later one is overwritten).
BIN=${1:?usage: run.sh <path-to-rapidquilt>}
BIN=$(readlink -f "$BIN")
rc=0
for T in 1 3; do
W=$(mktemp -d); cd "$W" || exit 2; mkdir patches
printf 'l1\nl2\nl3\nl4\nl5\nl6\nl7\nl8\nl9\nl10\n' > f
cat > patches/p.patch <<'P'
--- a/f
+++ b/f
@@ -1,3 +1,3 @@
 l1
-lX
+lY
 l3
--- a/f
+++ b/f
@@ -8,3 +8,3 @@
 l8
-lZ
+lW
 l10
P
echo p.patch > series
"$BIN" push -a -d . -q --threads $T >out.txt 2>err.txt; st=$?
echo "threads=$T exit=$st"; cat err.txt
[ $st -eq 1 ] || { echo "unexpected exit status"; rc=2; }
echo "--- f.rej:"; cat f.rej
grep -q '^@@ -1,3 +1,3 @@' f.rej || { echo "VIOLATION: failed hunk @@ -1,3 missing from f.rej"; rc=1; }
grep -q '^@@ -8,3 +8,3 @@' f.rej || { echo "VIOLATION: failed hunk @@ -8,3 missing from f.rej (threads=$T)"; rc=1; }
cd /; rm -rf "$W"
done
exit $rc
