#!/bin/bash
# C13 finding 7 (minor): a failed hunk whose header says line 0 with a non-zero count
# ("@@ -0,3 +0,3 @@", accepted by the parser and by GNU patch) is written to the reject with
# line number 1, i.e. not with its original line numbers.
BIN=${1:?usage: run.sh <path-to-rapidquilt>}
BIN=$(readlink -f "$BIN")
rc=0
W=$(mktemp -d); cd "$W" || exit 2; mkdir patches
printf 'l1\nl2\nl3\n' > x
cat > patches/p.patch <<'P'
--- a/x
+++ b/x
@@ -0,3 +0,3 @@
 l1
-lX
+lY
 l3
P
echo p.patch > series
"$BIN" push -a -d . -q --threads 1 >out.txt 2>err.txt; st=$?
echo "exit=$st"; cat x.rej
grep -q '^@@ -0,3 +0,3 @@' x.rej || { echo "VIOLATION: hunk header in x.rej is '$(grep '^@@' x.rej)', original was '@@ -0,3 +0,3 @@'"; rc=1; }
cd /; rm -rf "$W"
exit $rc
