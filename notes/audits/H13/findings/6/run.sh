#!/bin/bash
# C13 finding 6: with --threads >= 2 the outcome of a push whose first patch fails depends on
# scheduling if a LATER patch (never reached sequentially) hits a load error: sometimes p0's
# reject is written (as with --threads 1), sometimes the whole push aborts with an error and
# there is no reject. Two runs on identical input disagree.
BIN=${1:?usage: run.sh <path-to-rapidquilt>}
BIN=$(readlink -f "$BIN")
mk() {
  W=$(mktemp -d); cd "$W" || exit 2; mkdir patches
  printf 'l1\nl2\nl3\n' > x
  printf 'i am a file\n' > d
  cat > patches/p0.patch <<'P'
--- a/x
+++ b/x
@@ -1,3 +1,3 @@
 l1
-lX
+lY
 l3
P
  # d is a regular file, so d/y can not be opened (ENOTDIR)
  cat > patches/p1.patch <<'P'
--- a/d/y
+++ b/d/y
@@ -1,3 +1,3 @@
 l1
-lX
+lY
 l3
P
  printf 'p0.patch\np1.patch\n' > series
}
mk; "$BIN" push -a -d . -q --threads 1 >out.txt 2>err.txt; echo "threads=1 exit=$? rej=$(ls *.rej 2>/dev/null)"; cat err.txt; cd /; rm -rf "$W"
with=0; without=0
for i in $(seq 1 300); do
  mk; "$BIN" push -a -d . -q --threads 2 >out.txt 2>err.txt
  if [ -f x.rej ]; then with=$((with+1)); else without=$((without+1)); [ $without -eq 1 ] && { echo "--- a run without reject:"; cat err.txt; }; fi
  cd /; rm -rf "$W"
  [ $with -gt 0 ] && [ $without -gt 0 ] && [ $i -ge 20 ] && break
done
echo "threads=2: runs with x.rej: $with, runs without x.rej: $without"
if [ $without -gt 0 ]; then echo "VIOLATION: push that stops at p0.patch (x has a failing hunk) left no x.rej in $without run(s)"; exit 1; fi
exit 0
