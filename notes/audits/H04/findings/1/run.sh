#!/bin/bash
# C04 finding 1: the set-user-ID / set-group-ID bits of a file are lost when
# rapidquilt writes the file back and when it writes the quilt backup of the
# state the rollback produced (the mode is set *before* the content is
# written; for an unprivileged user the write() then clears the bits).
#
# usage: run.sh <path-to-rapidquilt-binary>
# exit 1 = violation shown, 0 = not shown (or could not run unprivileged)
set -u
BIN=$(readlink -f "$1")
W=$(mktemp -d)
trap 'chmod -R u+rwx "$W" 2>/dev/null; rm -rf "$W"' EXIT
chmod 755 "$W"
mkdir -p "$W/ws/patches"
cd "$W/ws"
printf 'a\nb\nc\n' > f
printf 'x\n' > c
cat > patches/p1.patch <<'EOF'
--- a/f
+++ b/f
@@ -1,3 +1,3 @@
 a
-b
+B
 c
EOF
# p2 changes f again and then fails on c: the change to f is rolled back
cat > patches/p2.patch <<'EOF'
--- a/f
+++ b/f
@@ -1,3 +1,3 @@
 a
-B
+BB
 c
--- a/c
+++ b/c
@@ -1 +1 @@
-nomatch
+z
EOF
printf 'p1.patch\np2.patch\n' > series

RUN=()
if [ "$(id -u)" = 0 ]; then
    # root keeps the bits (CAP_FSETID); the defect shows for ordinary users
    if command -v setpriv >/dev/null; then
        RUN=(setpriv --reuid=65534 --regid=65534 --clear-groups)
    elif command -v runuser >/dev/null; then
        RUN=(runuser -u nobody --)
    else
        echo "SKIP: running as root and no way to drop privileges"; exit 0
    fi
    chown -R 65534:65534 "$W"
    if ! "${RUN[@]}" "$BIN" --version >/dev/null 2>&1; then
        echo "SKIP: the binary is not reachable for the unprivileged user"; exit 0
    fi
fi
chmod 4755 f            # -rwsr-xr-x

"${RUN[@]}" "$BIN" push -a -d . --threads 1 --backup always --backup-count all -q >/dev/null 2>&1
rc=$?

want=4755
m_file=$(stat -c %a f)
m_backup=$(stat -c %a .pc/p1.patch/f 2>/dev/null)
echo "exit status $rc (1 expected: p2 fails)"
echo "f after the rolled-back p2:      mode $m_file, content $(tr '\n' ' ' < f) (wanted mode $want, content 'a B c')"
echo ".pc/p1.patch/f (state before p1): mode $m_backup, content $(tr '\n' ' ' < .pc/p1.patch/f) (wanted mode $want, content 'a b c')"
bad=0
[ "$m_file" = "$want" ] || bad=1
[ "$m_backup" = "$want" ] || bad=1
if [ $bad = 1 ]; then echo "VIOLATION: permissions not restored exactly"; exit 1; fi
echo "ok"
exit 0
