#!/bin/bash
# Finding 2: a hunk-less entry (mode change / rename / deletion of an empty file)
# for a file that does not exist applies as a no-op - but the push then removes
# the (empty) directory the missing file would live in, and its empty parents.
# The patch changes no file, so the tree after the push must equal the tree before.
RQ=${1:?usage: run.sh <path-to-rapidquilt>}
bad=0
for T in 1 2; do
    W=$(mktemp -d) || exit 2
    cd "$W" || exit 2
    mkdir -p patches empty/dir
    echo k > keep
    cat > patches/p1.patch <<'EOP'
diff --git a/empty/dir/ghost b/empty/dir/ghost
old mode 100644
new mode 100755
EOP
    echo p1.patch > series
    before=$(find . -path ./.pc -prune -o -print | sort)
    "$RQ" push -d . -a -q --threads $T; rc=$?
    after=$(find . -path ./.pc -prune -o -print | sort)
    if [ "$before" != "$after" ]; then
        echo "VIOLATION (threads $T, exit $rc): a patch that changes nothing removed:"
        diff <(echo "$before") <(echo "$after") | sed 's/^/    /'
        bad=1
    fi
done
exit $bad
