#!/bin/bash
# Finding 1: a patch whose name is not valid UTF-8 (e.g. Latin-1) is recorded in
# .pc/applied-patches under a different name (U+FFFD in place of the byte), so
# the next push of the same series refuses to go on: the rest of the requested
# range has no failing hunk, yet nothing is applied and the exit status is 1.
RQ=${1:?usage: run.sh <path-to-rapidquilt>}
W=$(mktemp -d) || exit 2
cd "$W" || exit 2
mkdir patches
printf 'a\nb\nc\n' > f
NAME=$(printf 'caf\xe9.patch')
printf -- '--- a/f\n+++ b/f\n@@ -1,3 +1,3 @@\n a\n-b\n+B\n c\n' > "patches/$NAME"
printf -- '--- a/f\n+++ b/f\n@@ -1,3 +1,3 @@\n a\n B\n-c\n+C\n' > patches/p2.patch
printf '%s\np2.patch\n' "$NAME" > series

"$RQ" push -d . -q --threads 1 1; rc1=$?
"$RQ" push -d . -q --threads 1 -a; rc2=$?
bad=0
if ! printf '%s\n' "$NAME" | cmp -s - <(head -n 1 .pc/applied-patches); then
    echo "VIOLATION: first push (exit $rc1) recorded a name that is not the name of the patch:"
    head -n 1 .pc/applied-patches | od -c | head -n 2
    bad=1
fi
if [ $rc2 -ne 0 ] || [ "$(cat f)" != "$(printf 'a\nB\nC')" ]; then
    echo "VIOLATION: second push exits $rc2 and leaves p2.patch unapplied although it has no failing hunk"
    bad=1
fi
exit $bad
