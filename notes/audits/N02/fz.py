#!/usr/bin/env python3
# differential fuzz: rapidquilt vs GNU patch on repetitive files
import os, random, shutil, subprocess, sys, tempfile

RQ = "/tmp/wt/N02/target/debug/rapidquilt"
BASE = "/tmp/wt/N02/scratch/w"

def gen_case(rnd):
    alpha = [b"a\n", b"b\n", b"c\n"][: rnd.choice([1, 2, 2, 3])]
    n = rnd.choice([0, 1, 2, 3, 5, 8, 12, 20, 30])
    lines = [rnd.choice(alpha) for _ in range(n)]
    if rnd.random() < 0.3:
        # sprinkle unique lines
        for _ in range(rnd.randint(1, 3)):
            if lines:
                lines[rnd.randrange(len(lines))] = b"u%d\n" % rnd.randint(0, 5)
    nh = rnd.choice([1, 1, 1, 2, 2, 3])
    if os.environ.get('NH'): nh = int(os.environ['NH'])
    hunks = []
    pos = 0
    delta = 0
    for h in range(nh):
        if pos > len(lines):
            break
        start = rnd.randint(pos, max(pos, min(len(lines), pos + 8)))
        pre = rnd.randint(0, 3)
        suf = rnd.randint(0, 3)
        nrem = rnd.randint(0, 2)
        nadd = rnd.randint(0, 2)
        if nrem == 0 and nadd == 0:
            nadd = 1
        s = max(0, start - pre)
        pre = start - s
        # body from the file
        old_pre = lines[s:start]
        old_rem = lines[start:start + nrem]
        nrem = len(old_rem)
        old_suf = lines[start + nrem:start + nrem + suf]
        suf = len(old_suf)
        if nrem == 0 and nadd == 0:
            nadd = 1
        adds = [rnd.choice(alpha + [b"N\n"]) for _ in range(nadd)]
        # perturb context to force fuzz
        old_pre = list(old_pre); old_suf = list(old_suf); old_rem = list(old_rem)
        r = rnd.random()
        if r < 0.25 and old_pre:
            k = rnd.randrange(len(old_pre)); old_pre[k] = rnd.choice(alpha + [b"x\n"])
        elif r < 0.5 and old_suf:
            k = rnd.randrange(len(old_suf)); old_suf[k] = rnd.choice(alpha + [b"x\n"])
        elif r < 0.55 and old_rem:
            k = rnd.randrange(len(old_rem)); old_rem[k] = rnd.choice(alpha + [b"x\n"])
        elif r < 0.6:
            if old_pre: old_pre[0] = b"x\n"
            if old_suf: old_suf[-1] = b"x\n"
        oldcount = pre + nrem + suf
        newcount = pre + nadd + suf
        # stated line
        stated = s + 1 if oldcount else s
        r = rnd.random()
        if r < 0.3:
            stated += rnd.randint(-6, 6)
        elif r < 0.35:
            stated = 0
        elif r < 0.4:
            stated = 1
        elif r < 0.45:
            stated = len(lines) + rnd.randint(0, 50)
        elif r < 0.47:
            stated = 10**9
        if os.environ.get('WILD') and rnd.random() < 0.6: stated = rnd.choice([1, 2, 3, len(lines), len(lines)+1, len(lines)+2, rnd.randint(0, 80), s + 1 + rnd.randint(-40, 40)])
        stated = max(0, stated)
        if oldcount and stated == 0: stated = 1
        newstated = max(0, stated + delta)
        if oldcount == 0 and newcount > 0: newstated = stated + delta + 1
        if newcount == 0 and oldcount > 0: newstated = max(0, stated + delta - 1)
        newstated = max(0, newstated)
        if newcount and newstated == 0: newstated = 1
        body = b"".join(b" " + l for l in old_pre) + b"".join(b"-" + l for l in old_rem) + \
               b"".join(b"+" + l for l in adds) + b"".join(b" " + l for l in old_suf)
        hunks.append((stated, oldcount, newstated, newcount, body))
        delta += nadd - nrem
        pos = start + nrem + suf + rnd.choice([0, 0, 1, 2, 5])
    fuzz = rnd.choice([0, 0, 1, 2, 3])
    if os.environ.get('FZ'): fuzz = int(os.environ['FZ'])
    return lines, hunks, fuzz

def render(hunks):
    out = b"--- a/f\n+++ b/f\n"
    for (st, oc, ns, nc, body) in hunks:
        out += b"@@ -%d,%d +%d,%d @@\n" % (st, oc, ns, nc) + body
    return out

def reverse_patch(hunks):
    res = []
    for (st, oc, ns, nc, body) in hunks:
        ls = body.splitlines(keepends=True)
        # swap +/-; keep order: need '-' before '+': collect
        pre = []; rem = []; add = []; suf = []
        state = 0
        for l in ls:
            if l[:1] == b" ":
                if state == 0: pre.append(l)
                else: suf.append(l)
            elif l[:1] == b"-":
                state = 1; rem.append(l)
            else:
                state = 1; add.append(l)
        nb = b"".join(pre) + b"".join(b"-" + l[1:] for l in add) + b"".join(b"+" + l[1:] for l in rem) + b"".join(suf)
        res.append((ns, nc, st, oc, nb))
    return res

def is_special(hunks):
    # avoid creation/deletion-looking patches
    if len(hunks) == 1:
        st, oc, ns, nc, body = hunks[0]
        if oc == 0 or nc == 0:
            return True
    return False

def run_case(seed, keep=False, verbose=False):
    rnd = random.Random(seed)
    lines, hunks, fuzz = gen_case(rnd)
    if not hunks or (is_special(hunks) != bool(os.environ.get("SPECIAL"))):
        return None
    rev = rnd.random() < 0.3
    d = os.path.join(BASE, "c%d" % seed)
    shutil.rmtree(d, ignore_errors=True)
    os.makedirs(d + "/g"); os.makedirs(d + "/r/patches")
    content = b"".join(lines)
    if rnd.random() < 0.1 and content.endswith(b"\n"):
        pass
    open(d + "/g/f", "wb").write(content)
    open(d + "/r/f", "wb").write(content)
    ptxt = render(hunks)
    if rev:
        # the series says -R, and the patch file holds the reversed patch
        ptxt_file = render(reverse_patch(hunks))
    else:
        ptxt_file = ptxt
    open(d + "/p.patch", "wb").write(ptxt_file)
    open(d + "/r/patches/p.patch", "wb").write(ptxt_file)
    open(d + "/r/series", "w").write("p.patch -p1%s\n" % (" -R" if rev else ""))
    gargs = ["patch", "-p1", "-f", "-F%d" % fuzz, "--no-backup-if-mismatch", "-i", "../p.patch"]
    if rev: gargs.insert(1, "-R")
    g = subprocess.run(gargs, cwd=d + "/g", capture_output=True)
    threads = rnd.choice([1, 1, 2])
    rargs = [RQ, "push", "-a", "-d", d + "/r", "--fuzz", str(fuzz), "--threads", str(threads), "--backup", "always"]
    if rnd.random() < 0.5: rargs.append("-q")
    r = subprocess.run(rargs, capture_output=True)
    gf = open(d + "/g/f", "rb").read() if os.path.exists(d + "/g/f") else None
    rf = open(d + "/r/f", "rb").read() if os.path.exists(d + "/r/f") else None
    grej = os.path.exists(d + "/g/f.rej")
    rrej = os.path.exists(d + "/r/f.rej")
    bad = None
    if r.returncode not in (0, 1):
        bad = "rq exit %d" % r.returncode
    elif b"panicked" in r.stderr:
        bad = "panic"
    elif (g.returncode == 0) != (r.returncode == 0):
        bad = "status g=%d r=%d" % (g.returncode, r.returncode)
    elif g.returncode == 0 and gf != rf:
        bad = "content differs"
    elif g.returncode != 0:
        if rf != content:
            bad = "rq failed but file changed"
        # compare rejected hunk count
        gcount = open(d + "/g/f.rej", "rb").read().count(b"\n@@ ") if grej else 0
        rcount = open(d + "/r/f.rej", "rb").read().count(b"\n@@ ") if rrej else 0
        if gcount != rcount and not bad:
            bad = "rej count g=%d r=%d" % (gcount, rcount)
    if r.returncode == 0 and not bad:
        bk = d + "/r/.pc/p.patch/f"
        if not os.path.exists(bk) or open(bk, "rb").read() != content:
            bad = "backup wrong"
    if bad and b"Misordered" in (r.stdout + r.stderr) and "--all" not in sys.argv:
        bad = None
        return ""
    if bad:
        print("seed", seed, bad, "fuzz", fuzz, "rev", rev, "threads", threads)
        if verbose:
            print(ptxt_file.decode()); print("FILE:", content); print(g.stdout.decode()); print(r.stdout.decode(), r.stderr.decode())
        return bad
    if not keep:
        shutil.rmtree(d, ignore_errors=True)
    return ""

if __name__ == "__main__":
    a = int(sys.argv[1]); b = int(sys.argv[2])
    v = len(sys.argv) > 3
    nb = 0; n = 0
    for s in range(a, b):
        x = run_case(s, verbose=v)
        if x is None: continue
        n += 1
        if x: nb += 1
    print("ran", n, "bad", nb)
