#!/bin/sh
# C02: "the lowest fuzz level admitting a position is the one used".
# Hunk #2 of the patch matches the file exactly (fuzz 0) at lines 9-10, behind
# the line that hunk #1 changes.  Its stated line (4) is nearer to another
# exact match at lines 1-2, which lies before hunk #1 ("misordered").  Instead
# of taking the admissible exact match (as GNU patch does) - or refusing the
# hunk, as it does with --fuzz 0 - rapidquilt raises the fuzz, drops all the
# context and puts the new line between two lines that have nothing to do
# with the hunk, and reports success.
RQ=${1:?usage: run.sh <path-to-rapidquilt>}
RQ=$(readlink -f "$RQ")
W=$(mktemp -d) || exit 2
trap 'rm -rf "$W"' EXIT
mkdir -p "$W/ws/patches"
cd "$W/ws" || exit 2
printf 'c\nc\nx\na\nb\na\nb\na\nc\nc\n' > f
cat > patches/p.patch <<'P'
--- a/f
+++ b/f
@@ -3,1 +3,1 @@
-x
+y
@@ -4,2 +4,3 @@
 c
+N
 c
P
echo 'p.patch -p1' > series

# what the rules give (and what GNU patch 2.7.6 produces: hunk #2 at line 9, fuzz 0)
printf 'c\nc\ny\na\nb\na\nb\na\nc\nN\nc\n' > "$W/expected"

"$RQ" push -a -d "$W/ws" --fuzz 1 --threads 1 -A multiapply > "$W/out" 2>&1
status=$?
cat "$W/out"
echo "exit status: $status; resulting file: $(tr '\n' ' ' < f)"
if [ $status -ne 0 ]; then
    echo "hunk refused (the known 'misordered' refusal) - no violation"
    exit 0
fi
if cmp -s f "$W/expected"; then
    echo "hunk #2 placed at its exact match - no violation"
    exit 0
fi
echo "VIOLATION: push succeeded, hunk #2 went in with fuzz although an exact match exists:"
echo "  expected: $(tr '\n' ' ' < "$W/expected")"
echo "  got:      $(tr '\n' ' ' < f)"
exit 1
