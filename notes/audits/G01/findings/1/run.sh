#!/bin/sh
# C01 / -pN: "-pN" is applied to the path after "." components inside the name
# were normalised away (Path::components()), not to the slashes as patch does.
# "b/./d/f" with -p2 becomes "f" instead of "d/f".
#  (a) a creation lands in the wrong place, exit status 0
#  (b) the diff A->B of d/f is not applied ("Can not find file to patch"), and
#      -R fails likewise
# usage: run.sh <path-to-rapidquilt>
BIN=${1:?usage: run.sh <path-to-rapidquilt>}
T=$(mktemp -d) || exit 2
bad=0

# (a) creation, A absent, B = "x\n" at d/f
mkdir -p "$T/a/patches"
printf -- '--- /dev/null\n+++ b/./d/f\n@@ -0,0 +1 @@\n+x\n' > "$T/a/patches/p.patch"
echo 'p.patch -p2' > "$T/a/series"
"$BIN" push -a -d "$T/a" -q; rc=$?
echo "(a) exit status $rc; files:"; (cd "$T/a" && find . -type f | grep -v -e patches -e series -e .pc)
if [ $rc -ne 0 ] || [ ! -f "$T/a/d/f" ] || [ -e "$T/a/f" ]; then
    echo "(a) VIOLATION: expected d/f to be created (GNU patch -p2 does), got the above"; bad=1
fi

# (b) modification, A = "a\n", B = "x\n" at d/f
mkdir -p "$T/b/patches" "$T/b/d"
printf 'a\n' > "$T/b/d/f"
printf -- '--- a/./d/f\n+++ b/./d/f\n@@ -1 +1 @@\n-a\n+x\n' > "$T/b/patches/p.patch"
echo 'p.patch -p2' > "$T/b/series"
"$BIN" push -a -d "$T/b" -q; rc=$?
echo "(b) exit status $rc; d/f holds: $(cat "$T/b/d/f")"
if [ $rc -ne 0 ] || [ "$(cat "$T/b/d/f")" != x ]; then
    echo "(b) VIOLATION: diff A->B pushed onto A did not give B"; bad=1
fi

# reference: what patch does with the same input (informational)
if command -v patch >/dev/null 2>&1; then
    mkdir -p "$T/g" && (cd "$T/g" && patch -s -p2 -i "$T/a/patches/p.patch" && echo "GNU patch -p2 creates: $(find . -type f)")
fi
rm -rf "$T"
exit $bad
