#!/bin/bash
# C20 finding 1: a fuzz limit >= 2^64 is silently read as fuzz 0, so a push
# that succeeds with --fuzz 1 fails with the larger limit 18446744073709551616.
# usage: run.sh <path-to-rapidquilt-binary>     exit 1 = violation shown
BIN=${1:?usage: run.sh <path-to-binary>}
T=$(mktemp -d) || exit 2
mk() { rm -rf "$1"; mkdir -p "$1/patches"
  printf 'a\nb\nc\nd\ne\nf\ng\n' > "$1/f"
  cat > "$1/patches/p.patch" <<'P'
--- a/f
+++ b/f
@@ -1,7 +1,7 @@
 a
 b
 c
-d
+D
 e
 f
 Z
P
  echo "p.patch -p1" > "$1/series"; }
snap() { (cd "$1" && find . -type f | sort | xargs md5sum); }

mk "$T/lo"; "$BIN" push -a -d "$T/lo" -q --fuzz 1 >/dev/null 2>&1; rc_lo=$?
mk "$T/hi"; "$BIN" push -a -d "$T/hi" -q --fuzz 18446744073709551616 >/dev/null 2>&1; rc_hi=$?
echo "--fuzz 1                    : exit $rc_lo, f = $(tr '\n' ' ' < "$T/lo/f")"
echo "--fuzz 18446744073709551616 : exit $rc_hi, f = $(tr '\n' ' ' < "$T/hi/f"), rej: $(cd "$T/hi" && ls *.rej 2>/dev/null)"
status=0
if [ $rc_lo -eq 0 ] && { [ $rc_hi -ne 0 ] || [ "$(snap "$T/lo")" != "$(snap "$T/hi")" ]; }; then
  echo "VIOLATION: push succeeded with fuzz limit 1 but not (identically) with the larger limit 2^64"
  status=1
fi
rm -rf "$T"
exit $status
