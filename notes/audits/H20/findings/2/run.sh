#!/bin/bash
# C20 finding 2: the "--fuzz N" warning is printed to stdout unconditionally
# (even with -q) before anything is done. With an unwritable stdout
# (/dev/full, closed pipe) a quiet push that succeeds with --fuzz 0 panics
# (exit 101, nothing applied) with any --fuzz > 0.
# usage: run.sh <path-to-rapidquilt-binary>     exit 1 = violation shown
BIN=${1:?usage: run.sh <path-to-binary>}
[ -w /dev/full ] || { echo "no /dev/full here"; exit 2; }
T=$(mktemp -d) || exit 2
mk() { rm -rf "$1"; mkdir -p "$1/patches"
  printf 'a\nb\nc\nd\ne\nf\ng\n' > "$1/f"
  cat > "$1/patches/p.patch" <<'P'
--- a/f
+++ b/f
@@ -1,7 +1,7 @@
 a
 b
 c
-d
+D
 e
 f
 g
P
  echo "p.patch -p1" > "$1/series"; }
snap() { (cd "$1" && find . -type f | sort | xargs md5sum); }

mk "$T/lo"; "$BIN" push -a -d "$T/lo" -q --fuzz 0 >/dev/full 2>"$T/err0"; rc_lo=$?
mk "$T/hi"; "$BIN" push -a -d "$T/hi" -q --fuzz 1 >/dev/full 2>"$T/err1"; rc_hi=$?
echo "-q --fuzz 0 >/dev/full : exit $rc_lo, f = $(tr '\n' ' ' < "$T/lo/f"), applied: $(cat "$T/lo/.pc/applied-patches" 2>/dev/null)"
echo "-q --fuzz 1 >/dev/full : exit $rc_hi, f = $(tr '\n' ' ' < "$T/hi/f"), applied: $(cat "$T/hi/.pc/applied-patches" 2>/dev/null)"
grep -m1 -i 'panicked\|failed printing' "$T/err1"
status=0
if [ $rc_lo -eq 0 ] && { [ $rc_hi -ne 0 ] || [ "$(snap "$T/lo")" != "$(snap "$T/hi")" ]; }; then
  echo "VIOLATION: a push that applies with fuzz 0 breaks with --fuzz 1 (the patch needs no fuzz at all)"
  status=1
fi
rm -rf "$T"
exit $status
