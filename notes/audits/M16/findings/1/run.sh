#!/bin/bash
# A series entry whose name is not valid UTF-8 (e.g. Latin-1 "caf\xe9.patch") is
# read from "series" byte for byte and applied, but its name is written to
# .pc/applied-patches through Path::display(), i.e. with U+FFFD in place of the
# byte. The next push compares that with the series and gives up, so pushing
# the series in two steps does not give what "push -a" gives.
RQ=${1:?usage: run.sh <path-to-rapidquilt>}
RQ=$(readlink -f "$RQ")
T=$(mktemp -d) || exit 2
trap 'rm -rf "$T"' EXIT

mk() {
    mkdir -p "$1/patches"
    printf 'one\ntwo\n' > "$1/f"
    printf 'x\n' > "$1/g"
    printf -- '--- a/f\n+++ b/f\n@@ -1,2 +1,2 @@\n one\n-two\n+TWO\n' > "$1/patches/$(printf 'caf\xe9.patch')"
    printf -- '--- a/g\n+++ b/g\n@@ -1 +1 @@\n-x\n+y\n' > "$1/patches/b.patch"
    printf 'caf\xe9.patch\nb.patch\n' > "$1/series"
}

mk "$T/all"; mk "$T/split"
"$RQ" push -a -q -d "$T/all" --threads 1;  rc_all=$?
"$RQ" push 1 -q -d "$T/split" --threads 1; rc_1=$?
"$RQ" push 1 -q -d "$T/split" --threads 1; rc_2=$?

echo "push -a: rc=$rc_all g=$(cat "$T/all/g")"
echo "push 1; push 1: rc=$rc_1,$rc_2 g=$(cat "$T/split/g")"
echo "applied-patches after the first step:"; od -c "$T/split/.pc/applied-patches" | head -3

bad=0
[ "$rc_all" = 0 ] && [ "$rc_1" = 0 ] || { echo "unexpected: setup did not apply"; exit 2; }
if [ "$rc_2" != 0 ] || ! cmp -s "$T/all/g" "$T/split/g"; then
    echo "VIOLATION: the split push stops at the second patch (series/applied-patches mismatch)"; bad=1
fi
if ! printf 'caf\xe9.patch\nb.patch\n' | cmp -s - "$T/all/.pc/applied-patches"; then
    echo "VIOLATION: .pc/applied-patches does not hold the name of the series entry"; bad=1
fi
exit $bad
