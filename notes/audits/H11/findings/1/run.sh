#!/bin/bash
# Finding 1: a hunk with a huge (but accepted) line number that applies near the top of
# the file leaves a hugely negative offset; the next hunk's forward search then iterates
# over ~2^61 negative line numbers -> the push never finishes.
# usage: run.sh <path-to-rapidquilt>
BIN=${1:?usage: run.sh <path-to-binary>}
BIN=$(readlink -f "$BIN")
W=$(mktemp -d) || exit 2
trap 'rm -rf "$W"' EXIT
cd "$W" || exit 2
mkdir patches
printf 'a\nb\nc\nd\ne\nf\ng\nh\n' > f.txt
cat > patches/p.patch <<'P'
--- a/f.txt
+++ b/f.txt
@@ -2305843009213693951,1 +2305843009213693951,1 @@
-a
+A
@@ -5,1 +5,1 @@
-e
+E
P
echo p.patch > series

# control: the same patch with a modest wrong line number is done at once
sed 's/2305843009213693951/1000/g' patches/p.patch > patches/c.patch
echo c.patch > series
timeout 20 "$BIN" push -a -d . --threads 1 -q >/dev/null 2>&1
rc=$?
if [ "$rc" != 0 ]; then echo "control run: unexpected exit $rc"; exit 2; fi
printf 'a\nb\nc\nd\ne\nf\ng\nh\n' > f.txt; rm -rf .pc

echo p.patch > series
fail=0
for opts in "--threads 1 -q" "--threads 2" "--threads 1 --dry-run"; do
    timeout 20 "$BIN" push -a -d . $opts >/dev/null 2>&1
    rc=$?
    echo "push -a $opts: exit status $rc (124 = still running after 20 s)"
    case $rc in 0|1) ;; *) fail=1;; esac
done
if [ $fail = 1 ]; then
    echo "VIOLATION: 112-byte patch, 16-byte file: the tool does not terminate"
    exit 1
fi
echo "no violation seen"
exit 0
