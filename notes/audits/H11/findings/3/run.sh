#!/bin/bash
# Finding 3 (marginal: numeric command line argument, not patch bytes):
# `push N` with N near 2^64 and at least one patch already applied overflows
# `first_patch + n` (cmd.rs:192): panic (exit 101) with overflow checks, silent no-op without.
# usage: run.sh <path-to-rapidquilt>
BIN=${1:?usage: run.sh <path-to-binary>}
BIN=$(readlink -f "$BIN")
W=$(mktemp -d) || exit 2
trap 'rm -rf "$W"' EXIT
cd "$W" || exit 2
mkdir patches
printf 'a\nb\n' > f
printf -- '--- a/f\n+++ b/f\n@@ -1 +1 @@\n-a\n+A\n' > patches/p.patch
printf -- '--- a/f\n+++ b/f\n@@ -2 +2 @@\n-b\n+B\n' > patches/q.patch
printf 'p.patch\nq.patch\n' > series
"$BIN" push 1 -d . -q || { echo "setup push failed"; exit 2; }
"$BIN" push 18446744073709551615 -d . --threads 1 >out.txt 2>&1; rc=$?
echo "push 18446744073709551615: exit status $rc"; grep -m2 -E 'panicked|overflow' out.txt
if [ "$rc" != 0 ] && [ "$rc" != 1 ]; then echo "VIOLATION: crash (exit $rc)"; exit 1; fi
if [ "$rc" = 0 ] && ! grep -q '^B$' f; then echo "VIOLATION: exit 0 but q.patch was not applied (count wrapped around)"; exit 1; fi
echo "no violation seen"; exit 0
