#!/bin/bash
# Finding 2: failure diagnostics (default verbosity) for a failing hunk whose lines
# match many lines of the file (e.g. N blank context lines against a file of N blank
# lines) build a graph with N^2 nodes, allocate a Vec of N^2*24 bytes per visited node
# and need ~N^4 steps: memory far out of proportion to the input, abort on allocation
# failure, practically no termination.
# usage: run.sh <path-to-rapidquilt>
BIN=${1:?usage: run.sh <path-to-binary>}
BIN=$(readlink -f "$BIN")
W=$(mktemp -d) || exit 2
trap 'rm -rf "$W"' EXIT
cd "$W" || exit 2

gen() { # $1 = N : file of N blank lines; hunk of N blank context lines with one '-x' in the middle
    rm -rf .pc patches series f.txt; mkdir patches
    python3 - "$1" <<'PY'
import sys
N = int(sys.argv[1])
open('f.txt', 'w').write('\n' * N)
with open('patches/p.patch', 'w') as p:
    p.write('--- a/f.txt\n+++ b/f.txt\n@@ -1,%d +1,%d @@\n' % (N + 1, N))
    p.write(' \n' * (N // 2)); p.write('-x\n'); p.write(' \n' * (N - N // 2))
open('series', 'w').write('p.patch\n')
PY
}

fail=0

# (a) 8 KB file + 16 KB patch, address space limited to 2 GB: single allocation of 1.5 GB -> abort
gen 8000
echo "input: $(stat -c %s f.txt) byte file, $(stat -c %s patches/p.patch) byte patch"
( ulimit -v 2000000; timeout 600 "$BIN" push -a -d . --threads 1 >/dev/null 2>err.txt ); rc=$?
echo "(a) N=8000, ulimit -v 2GB: exit status $rc; $(grep -m1 'memory allocation' err.txt)"
case $rc in 0|1) ;; *) fail=1;; esac
# the same input with -q (no diagnostics) is a plain failed push
( ulimit -v 2000000; timeout 600 "$BIN" push -a -d . --threads 1 -q >/dev/null 2>&1 ); echo "    same with -q: exit status $?"

# (b) 400 byte file + 0.8 KB patch, no memory limit: not finished after 60 s (N=100 takes seconds, cost grows ~N^4)
gen 400
echo "input: $(stat -c %s f.txt) byte file, $(stat -c %s patches/p.patch) byte patch"
/usr/bin/time -f "    max RSS %M KB" timeout 60 "$BIN" push -a -d . --threads 1 >/dev/null 2>err.txt; rc=$?
tail -1 err.txt
echo "(b) N=400: exit status $rc (124 = still running after 60 s)"
case $rc in 0|1) ;; *) fail=1;; esac

if [ $fail = 1 ]; then
    echo "VIOLATION: memory out of proportion to the input / abort / no termination in failure diagnostics"
    exit 1
fi
echo "no violation seen"
exit 0
