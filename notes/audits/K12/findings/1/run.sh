#!/bin/sh
# C12: the writer does not keep which lines of a hunk are context. It derives
# context anew from old-side/new-side lines that happen to be equal
# (find_closest_match in src/libpatch/patch/unified/writer.rs). The re-parsed
# hunk has the same two line sequences and start lines, but other
# leading/trailing context than the hunk that was parsed, and leading/trailing
# context decides where a hunk may be placed (start/end of file, fuzz).
#   A: "-x,+x,-b,+c"  is written as " x,-b,+c"     (gains leading context:
#       the hunk is now tied to the end of the file)
#   B: "+y, x, y"     is written as "-x, y,+x,+y"  (loses its two lines of
#       trailing context: can no longer be placed with fuzz)
# The written form is taken from the tool itself: a reject file is the
# writer's output for the file patch.
# usage: run.sh <path-to-rapidquilt>; exits 1 when the violation shows.
BIN=${1:?usage: run.sh <path-to-rapidquilt>}
BIN=$(readlink -f "$BIN")
W=$(mktemp -d) || exit 2
cd "$W" || exit 2
bad=0

# $1 case name, $2 file content to patch (printf format), $3 extra option
try() {
    mkdir "$1"; cd "$1" || exit 2
    # the written form: let the hunk fail, the reject is write(parse(orig))
    mkdir -p w1/patches; cp ../$1.patch w1/patches/p.patch; echo "p.patch -p0" > w1/series
    printf 'nothing\n' > w1/f
    "$BIN" push -a -q -d w1 >/dev/null 2>&1
    [ -f w1/f.rej ] || { echo "no reject written - cannot obtain the written form"; exit 2; }
    echo "--- original ($1):"; cat ../$1.patch
    echo "--- written form ($1):"; cat w1/f.rej
    # apply the original and the written form to the same file
    for v in orig written; do
        mkdir -p $v/patches; echo "p.patch -p0" > $v/series
        printf "$2" > $v/f
    done
    cp ../$1.patch orig/patches/p.patch
    cp w1/f.rej written/patches/p.patch
    "$BIN" push -a -q $3 -d orig >orig.out 2>&1; rc1=$?
    "$BIN" push -a -q $3 -d written >written.out 2>&1; rc2=$?
    echo "original:     rc=$rc1 f=$(tr '\n' ' ' < orig/f)"
    echo "written form: rc=$rc2 f=$(tr '\n' ' ' < written/f)"
    if [ $rc1 -ne $rc2 ] || ! cmp -s orig/f written/f; then
        echo "VIOLATION ($1): the written form does not describe the same hunk as the patch it was written from"
        bad=1
    fi
    cd ..
}

printf -- '--- f\n+++ f\n@@ -1,2 +1,2 @@\n-x\n+x\n-b\n+c\n' > A.patch
try A 'x\nb\nz\n' ""

printf -- '--- f\n+++ f\n@@ -5,2 +5,3 @@\n+y\n x\n y\n' > B.patch
try B '1\n2\n3\n4\nx\nq\n7\n' "--fuzz 2"

[ $bad -eq 0 ] && echo ok
exit $bad
