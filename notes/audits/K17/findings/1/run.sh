#!/bin/sh
# C17: with --mmap, a patch "file" that is a directory of st_size 0 (any empty directory on btrfs,
# every directory of ramfs/sysfs/procfs) is taken for an empty patch: the push succeeds (status 0),
# saves the tree and records the patch as applied, instead of status 1 / message / nothing touched.
# Without --mmap the same input is refused ("Is a directory").
RQ=${1:?usage: run.sh <path-to-rapidquilt>}
T=$(mktemp -d) || exit 2
trap 'rm -rf "$T"' EXIT
W=$T/ws; mkdir -p "$W/patches"

# Find a directory whose st_size is 0: a fresh one (btrfs) or one of the kernel file systems.
ZD=
mkdir "$T/probe"
for d in "$T/probe" /sys/kernel /sys/fs /proc/sys /proc/bus; do
    [ -d "$d" ] && [ "$(stat -c %s "$d" 2>/dev/null)" = 0 ] && { ZD=$d; break; }
done
[ -n "$ZD" ] || { echo "SKIP: no directory with st_size 0 on this machine"; exit 0; }

printf 'a\nb\nc\n' > "$W/f1"; printf 'a\nb\nc\n' > "$W/f3"
for i in 1 3; do
cat > "$W/patches/p$i.patch" <<EOP
--- a/f$i
+++ b/f$i
@@ -1,3 +1,3 @@
 a
-b
+B
 c
EOP
done
if [ "$ZD" = "$T/probe" ]; then mkdir "$W/patches/p2.patch"; else ln -s "$ZD" "$W/patches/p2.patch"; fi
printf 'p1.patch\np2.patch\np3.patch\n' > "$W/series"

fail=0
for th in 1 2; do
    # reference: the ordinary arena refuses
    "$RQ" push -a -d "$W" --threads $th >"$T/out" 2>"$T/err"; st=$?
    if [ $st -ne 1 ] || [ -e "$W/.pc" ] || [ "$(cat "$W/f1")" != "$(printf 'a\nb\nc')" ]; then
        echo "unexpected: without --mmap status=$st"; fail=1
    fi
    "$RQ" push -a -d "$W" --threads $th --mmap >"$T/out" 2>"$T/err"; st=$?
    if [ $st -ne 1 ] || [ -e "$W/.pc" ] || [ "$(cat "$W/f1")" != "$(printf 'a\nb\nc')" ]; then
        echo "VIOLATION (threads=$th, --mmap): patches/p2.patch is a directory, yet status=$st, f1 now: $(tr '\n' ' ' < "$W/f1"), applied-patches: $(tr '\n' ' ' < "$W/.pc/applied-patches" 2>/dev/null)"
        fail=1
        rm -rf "$W/.pc"; printf 'a\nb\nc\n' > "$W/f1"; printf 'a\nb\nc\n' > "$W/f3"
    fi
done
exit $fail
