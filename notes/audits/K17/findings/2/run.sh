#!/bin/sh
# C17 (minor): .pc/applied-patches is compared with the series as *paths*, not as the names that
# are written there: "p1.patch/" (or "sub//p.patch", "sub/./p.patch") is accepted as "p1.patch".
# The edited file is not a prefix of the series (quilt refuses it: "p1.patch/ is not in series"),
# but the push goes ahead, changes the tree and appends to the file.
RQ=${1:?usage: run.sh <path-to-rapidquilt>}
T=$(mktemp -d) || exit 2
trap 'rm -rf "$T"' EXIT
fail=0
for edited in 'p1.patch/' 'p1.patch//' 'p1.patch/.'; do
  for th in 1 2; do
    W=$T/ws; rm -rf "$W"; mkdir -p "$W/patches" "$W/.pc"
    for i in 1 2; do
      printf 'a\nb\nc\n' > "$W/f$i"
      printf -- '--- a/f%s\n+++ b/f%s\n@@ -1,3 +1,3 @@\n a\n-b\n+B\n c\n' $i $i > "$W/patches/p$i.patch"
    done
    printf 'a\nB\nc\n' > "$W/f1"            # p1 is applied
    printf 'p1.patch\np2.patch\n' > "$W/series"
    printf '%s\n' "$edited" > "$W/.pc/applied-patches"
    "$RQ" push -a -d "$W" --threads $th >"$T/out" 2>"$T/err"; st=$?
    if [ $st -ne 1 ] || [ "$(cat "$W/f2")" != "$(printf 'a\nb\nc')" ] || [ "$(cat "$W/.pc/applied-patches")" != "$edited" ]; then
        echo "VIOLATION (threads=$th): applied-patches='$edited' vs series 'p1.patch': status=$st, f2: $(tr '\n' ' ' < "$W/f2"), applied-patches now: $(tr '\n' '|' < "$W/.pc/applied-patches")"
        fail=1
    fi
  done
done
exit $fail
