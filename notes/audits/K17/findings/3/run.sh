#!/bin/sh
# C17 (minor): the goal "+2" is no patch of the series and no number as quilt understands it
# (quilt: "Patch +2 is not in series"), but Rust's usize parser accepts a leading '+', so the
# push applies two patches instead of refusing with "Patch not in series".
RQ=${1:?usage: run.sh <path-to-rapidquilt>}
T=$(mktemp -d) || exit 2
trap 'rm -rf "$T"' EXIT
fail=0
for th in 1 2; do
    W=$T/ws; rm -rf "$W"; mkdir -p "$W/patches"
    for i in 1 2 3; do
      printf 'a\nb\nc\n' > "$W/f$i"
      printf -- '--- a/f%s\n+++ b/f%s\n@@ -1,3 +1,3 @@\n a\n-b\n+B\n c\n' $i $i > "$W/patches/p$i.patch"
    done
    printf 'p1.patch\np2.patch\np3.patch\n' > "$W/series"
    "$RQ" push +2 -d "$W" --threads $th >"$T/out" 2>"$T/err"; st=$?
    if [ $st -ne 1 ] || [ -e "$W/.pc" ] || [ "$(cat "$W/f1")" != "$(printf 'a\nb\nc')" ]; then
        echo "VIOLATION (threads=$th): goal '+2' names no patch of the series, yet status=$st, applied-patches: $(tr '\n' ' ' < "$W/.pc/applied-patches" 2>/dev/null)"
        fail=1
    fi
done
exit $fail
