#!/bin/bash
# C09: a patch whose name in "series" is not valid UTF-8 (e.g. Latin-1) is recorded
# in .pc/applied-patches with U+FFFD in place of the offending bytes; the next
# invocation then reports a series/applied-patches mismatch. One push -a works,
# the same goal reached by "push 1; push -a" does not.
BIN=${1:?usage: run.sh <path-to-rapidquilt>}
W=$(mktemp -d) || exit 99
mk() {
  mkdir -p "$1/patches"
  printf 'a\nb\nc\n' > "$1/f"
  printf -- '--- a/f\n+++ b/f\n@@ -1,3 +1,3 @@\n a\n-b\n+B\n c\n' > "$1/patches/$(printf 'p\xe9.patch')"
  printf -- '--- a/f\n+++ b/f\n@@ -1,3 +1,3 @@\n a\n B\n-c\n+C\n' > "$1/patches/q.patch"
  printf 'p\xe9.patch\nq.patch\n' > "$1/series"
}
mk "$W/one"; mk "$W/two"
"$BIN" push -a -d "$W/one" -q --threads 1; s1=$?
"$BIN" push 1 -d "$W/two" -q --threads 1; s2a=$?
"$BIN" push -a -d "$W/two" -q --threads 1; s2b=$?
echo "single push -a: exit $s1; split: push 1 exit $s2a, push -a exit $s2b"
rc=0
if [ $s1 != $s2b ]; then echo "VIOLATION: exit status differs"; rc=1; fi
if ! cmp -s "$W/one/f" "$W/two/f"; then echo "VIOLATION: tree differs:"; diff "$W/one/f" "$W/two/f"; rc=1; fi
if ! cmp -s "$W/one/.pc/applied-patches" "$W/two/.pc/applied-patches"; then echo "VIOLATION: applied-patches differs"; rc=1; fi
# the recorded name is not the name in the series either
if ! head -1 "$W/one/.pc/applied-patches" | cmp -s - <(printf 'p\xe9.patch\n'); then
  echo "VIOLATION: applied-patches does not hold the patch name as written in series:"; head -1 "$W/one/.pc/applied-patches" | od -c | head -2; rc=1
fi
rm -rf "$W"
exit $rc
