#!/bin/bash
# C09: a directory that is emptied by one patch under its real name (e/x) and used by a
# later patch through a symbolic link inside the tree (d -> e, d/y): one push creates e/y,
# two pushes fail at the second patch (e was removed as empty, the link dangles and is refused).
BIN=${1:?usage: run.sh <path-to-rapidquilt>}
W=$(mktemp -d) || exit 99
mk() {
  mkdir -p "$1/patches" "$1/e"; ln -s e "$1/d"; printf 'x\n' > "$1/e/x"
  printf -- '--- a/e/x\n+++ /dev/null\n@@ -1 +0,0 @@\n-x\n' > "$1/patches/p1.patch"
  printf -- '--- /dev/null\n+++ b/d/y\n@@ -0,0 +1 @@\n+y\n' > "$1/patches/p2.patch"
  printf 'p1.patch\np2.patch\n' > "$1/series"
}
mk "$W/one"; mk "$W/two"
"$BIN" push -a -d "$W/one" -q --threads 1; s1=$?
"$BIN" push 1 -d "$W/two" -q --threads 1
"$BIN" push -a -d "$W/two" -q --threads 1; s2=$?
echo "single: exit $s1; split: exit $s2"
rc=0
[ $s1 = $s2 ] || { echo "VIOLATION: exit status differs"; rc=1; }
diff -r "$W/one" "$W/two" || { echo "VIOLATION: trees differ"; rc=1; }
# the other way round: the link dangles at first, an earlier patch of the same push creates its target
mk2() {
  mkdir -p "$1/patches"; ln -s e "$1/d"
  printf -- '--- /dev/null\n+++ b/e/x\n@@ -0,0 +1 @@\n+x\n' > "$1/patches/p1.patch"
  printf -- '--- /dev/null\n+++ b/d/y\n@@ -0,0 +1 @@\n+y\n' > "$1/patches/p2.patch"
  printf 'p1.patch\np2.patch\n' > "$1/series"
}
mk2 "$W/three"; mk2 "$W/four"
"$BIN" push -a -d "$W/three" -q --threads 1; s3=$?
"$BIN" push 1 -d "$W/four" -q --threads 1
"$BIN" push -a -d "$W/four" -q --threads 1; s4=$?
echo "variant 2: single: exit $s3; split: exit $s4"
[ $s3 = $s4 ] || { echo "VIOLATION (variant 2): exit status differs"; rc=1; }
diff -r "$W/three" "$W/four" || { echo "VIOLATION (variant 2): trees differ"; rc=1; }
rm -rf "$W"
exit $rc
