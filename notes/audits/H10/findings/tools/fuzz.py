#!/usr/bin/env python3
"""Differential fuzzer: --dry-run vs real run of rapidquilt push."""
import os, sys, random, shutil, subprocess, difflib, hashlib, tempfile, re, stat

BIN = sys.argv[1]
SEED0 = int(sys.argv[2]) if len(sys.argv) > 2 else 0
COUNT = int(sys.argv[3]) if len(sys.argv) > 3 else 200
ROOT = sys.argv[4] if len(sys.argv) > 4 else '/tmp/wt/H10/scratch/fz'

NAMES = ['a', 'b', 'c', 'd e', 'f.c', 'g.orig', 'h.rej']
DIRS = ['', '', 'x/', 'x/y/', 'z/', 'a/', 'b/']
WORDS = ['alpha', 'beta', 'gamma', '', ' ', 'delta', 'eps', '}', '{', 'x', 'x', 'x']


def rnd_lines(r, n=None):
    if n is None:
        n = r.choice([0, 0, 1, 2, 3, 5, 8, 13, 20])
    lines = [r.choice(WORDS) + '\n' for _ in range(n)]
    if lines and r.random() < 0.2:
        lines[-1] = lines[-1][:-1] or 'q'
    return lines


def mutate(r, lines):
    lines = list(lines)
    # strip a missing newline before editing in the middle
    k = r.randint(1, 3)
    for _ in range(k):
        op = r.choice(['ins', 'del', 'chg'])
        if op == 'ins' or not lines:
            pos = r.randint(0, len(lines))
            new = [r.choice(WORDS) + str(r.randint(0, 99)) + '\n' for _ in range(r.randint(1, 3))]
            if pos == len(lines) and lines and not lines[-1].endswith('\n'):
                lines[-1] += '\n'
            lines[pos:pos] = new
        elif op == 'del':
            pos = r.randrange(len(lines))
            del lines[pos:pos + r.randint(1, 2)]
        else:
            pos = r.randrange(len(lines))
            nl = '\n' if lines[pos].endswith('\n') else ''
            lines[pos] = 'chg' + str(r.randint(0, 99)) + nl
    if lines and r.random() < 0.1 and lines[-1].endswith('\n'):
        lines[-1] = lines[-1][:-1] or 'q'
    return lines


def fmt_range(start, length):
    if length == 0:
        return '%d,0' % (start)
    if length == 1:
        return '%d' % (start + 1)
    return '%d,%d' % (start + 1, length)


def hunks(old, new, ctx):
    out = []
    sm = difflib.SequenceMatcher(None, old, new, autojunk=False)
    for group in sm.get_grouped_opcodes(ctx):
        i1, i2, j1, j2 = group[0][1], group[-1][2], group[0][3], group[-1][4]
        out.append('@@ -%s +%s @@\n' % (fmt_range(i1, i2 - i1), fmt_range(j1, j2 - j1)))
        for tag, a1, a2, b1, b2 in group:
            def emit(c, l):
                if l.endswith('\n'):
                    out.append(c + l)
                else:
                    out.append(c + l + '\n\\ No newline at end of file\n')
            if tag == 'equal':
                for l in old[a1:a2]:
                    emit(' ', l)
            if tag in ('replace', 'delete'):
                for l in old[a1:a2]:
                    emit('-', l)
            if tag in ('replace', 'insert'):
                for l in new[b1:b2]:
                    emit('+', l)
    return ''.join(out)


def q(name):
    if ' ' in name:
        return name + '\t'
    return name


class Gen:
    def __init__(self, r):
        self.r = r
        self.tree = {}   # path -> lines
        self.prefix_p = 1

    def rnd_path(self):
        return self.r.choice(DIRS) + self.r.choice(NAMES)

    def existing(self):
        if not self.tree:
            return None
        return self.r.choice(sorted(self.tree))

    def entry(self, strip, reverse, git):
        """produce one file entry text, update virtual tree"""
        r = self.r
        kind = r.choice(['mod', 'mod', 'mod', 'create', 'delete', 'rename', 'mode', 'badmod', 'twice'] + (['conflict'] if r.random() < 0.15 else []))
        pa, pb = ('a/', 'b/') if strip == 1 else (('', '') if strip == 0 else ('p/a/', 'p/b/'))
        ctx = r.choice([0, 1, 3, 3, 3])
        text = ''

        def header(old, new, extra=''):
            t = ''
            if git:
                t += 'diff --git %s%s %s%s\n' % (pa, old or new, pb, new or old)
                t += extra
            t += '--- %s\n' % ((pa + q(old)) if old else '/dev/null')
            t += '+++ %s\n' % ((pb + q(new)) if new else '/dev/null')
            return t

        def body(old, new):
            if reverse:
                return hunks(new, old, ctx)
            return hunks(old, new, ctx)

        def hdr(old, new, extra=''):
            if reverse:
                return header(new, old, extra)
            return header(old, new, extra)

        if kind in ('mod', 'badmod', 'twice'):
            p = self.existing()
            if p is None:
                kind = 'create'
            else:
                old = self.tree[p]
                new = mutate(r, old)
                if new == old:
                    new = old + ['zz\n'] if (not old or old[-1].endswith('\n')) else ['zz\n'] + old
                if kind == 'badmod':
                    bad_old = mutate(r, old)
                    text = hdr(p, p) + body(bad_old, mutate(r, bad_old))
                    return text  # virtual tree unknown afterwards, keep
                oldname = p
                if r.random() < 0.15:
                    oldname = p + '.orig'
                text = hdr(oldname, p) + body(old, new)
                self.tree[p] = new
                if kind == 'twice':
                    new2 = mutate(r, new)
                    if new2 != new:
                        text += hdr(p, p) + body(new, new2)
                        self.tree[p] = new2
                return text
        if kind == 'create':
            p = self.rnd_path()
            new = rnd_lines(r)
            if p in self.tree and r.random() < 0.8:
                return self.entry(strip, reverse, git)
            extra = 'new file mode 100%s\n' % r.choice(['644', '755', '600'])
            if reverse:
                extra = extra.replace('new file', 'deleted file')
            if not new and not git:
                new = ['only\n']
            text = hdr(None, p, extra) + body([], new)
            if p not in self.tree:
                self.tree[p] = new
            return text
        if kind == 'delete':
            p = self.existing()
            if p is None:
                return self.entry(strip, reverse, git)
            old = self.tree[p]
            if not old and not git:
                return self.entry(strip, reverse, git)
            extra = 'deleted file mode 100644\n'
            if reverse:
                extra = extra.replace('deleted file', 'new file')
            text = hdr(p, None, extra) + body(old, [])
            del self.tree[p]
            return text
        if kind == 'rename':
            p = self.existing()
            if p is None:
                return self.entry(strip, reverse, git)
            np = self.rnd_path()
            if np in self.tree and r.random() < 0.7:
                return self.entry(strip, reverse, git)
            old = self.tree[p]
            new = mutate(r, old) if r.random() < 0.5 else old
            a, b = (np, p) if reverse else (p, np)
            t = 'diff --git %s%s %s%s\n' % (pa, a, pb, b)
            t += 'similarity index 90%%\nrename from %s\nrename to %s\n' % (a, b)
            if new != old:
                t += '--- %s%s\n+++ %s%s\n' % (pa, q(a), pb, q(b)) + body(old, new)
            if np not in self.tree or not self.tree[np]:
                if np != p:
                    del self.tree[p]
                self.tree[np] = new
            return t
        if kind == 'mode':
            p = self.existing()
            if p is None:
                return self.entry(strip, reverse, git)
            t = 'diff --git %s%s %s%s\n' % (pa, p, pb, p)
            t += 'old mode 100644\nnew mode 100755\n'
            return t
        if kind == 'conflict':
            # create a file below an existing/virtual file, or a file named like a directory
            p = self.existing()
            if p is None:
                return self.entry(strip, reverse, git)
            if r.random() < 0.5:
                np = p + '/' + r.choice(NAMES)
            else:
                np = os.path.dirname(p)
                if not np:
                    return self.entry(strip, reverse, git)
            new = ['conf\n']
            text = hdr(None, np) + body([], new)
            return text
        return ''


def snapshot(d, content=True):
    out = []
    for root, dirs, files in os.walk(d):
        for n in sorted(dirs + files):
            p = os.path.join(root, n)
            st = os.lstat(p)
            rec = [os.path.relpath(p, d), stat.S_IFMT(st.st_mode), stat.S_IMODE(st.st_mode), st.st_mtime_ns, st.st_ctime_ns, st.st_ino, st.st_nlink]
            if stat.S_ISREG(st.st_mode):
                rec.append(st.st_size)
                if content:
                    with open(p, 'rb') as f:
                        rec.append(hashlib.md5(f.read()).hexdigest())
            elif stat.S_ISLNK(st.st_mode):
                rec.append(os.readlink(p))
            out.append(tuple(rec))
    st = os.lstat(d)
    out.append(('.', st.st_mtime_ns, st.st_ctime_ns, stat.S_IMODE(st.st_mode)))
    return sorted(out, key=lambda t: t[0])


def failed_line(err):
    m = re.search(r'^Patch (.*) FAILED', err, re.M)
    return m.group(1) if m else None


KNOWN = 0
STATS = {}
def one(seed):
    r = random.Random(seed)
    d = os.path.join(ROOT, 'w%d' % seed)
    shutil.rmtree(d, ignore_errors=True)
    shutil.rmtree(d + '.real', ignore_errors=True)
    os.makedirs(os.path.join(d, 'patches'))
    g = Gen(r)
    # initial tree
    for _ in range(r.randint(0, 6)):
        p = g.rnd_path()
        if any(p.startswith(o + '/') or o.startswith(p + '/') for o in g.tree):
            continue
        g.tree[p] = rnd_lines(r)
    for p, lines in g.tree.items():
        fp = os.path.join(d, p)
        os.makedirs(os.path.dirname(fp), exist_ok=True)
        with open(fp, 'w') as f:
            f.write(''.join(lines))
        if r.random() < 0.15:
            os.chmod(fp, r.choice([0o444, 0o755, 0o600]))
    # occasionally a symlink or hardlink
    if g.tree and r.random() < 0.2:
        p = r.choice(sorted(g.tree))
        try:
            if r.random() < 0.5:
                os.link(os.path.join(d, p), os.path.join(d, 'hardlink'))
            else:
                os.symlink(os.path.basename(p), os.path.join(d, os.path.dirname(p), 'sym'))
        except OSError:
            pass
    npatches = r.randint(1, 8)
    series = []
    for i in range(npatches):
        strip = r.choice([1, 1, 1, 0, 2])
        reverse = r.random() < 0.15
        git = r.random() < 0.5
        text = 'header %d\n' % i
        for _ in range(r.choice([1, 1, 2, 3])):
            text += g.entry(strip, reverse, git)
        name = 'p%d.patch' % i
        if r.random() < 0.1:
            name = 'sub/p%d.patch' % i
        fp = os.path.join(d, 'patches', name)
        os.makedirs(os.path.dirname(fp), exist_ok=True)
        with open(fp, 'w') as f:
            f.write(text)
        line = name
        if strip != 1:
            line += ' -p%d' % strip
        if reverse:
            line += ' -R'
        series.append(line)
    with open(os.path.join(d, 'series'), 'w') as f:
        f.write('\n'.join(series) + '\n')

    opts = ['--threads', str(r.choice([1, 1, 2, 3, 4]))]
    b = r.choice([None, 'always', 'onfail', 'never'])
    if b:
        opts += ['--backup', b]
    if r.random() < 0.4:
        opts += ['--backup-count', r.choice(['0', '1', '2', 'all'])]
    if r.random() < 0.2:
        opts += ['--fuzz', r.choice(['1', '2', '3'])]
    if r.random() < 0.3:
        opts += ['-q']
    if r.random() < 0.2:
        opts += ['--mmap']
    goal = r.choice([['-a'], ['-a'], ['-a'], [str(r.randint(1, npatches))], []])
    # maybe a first real partial push on both
    pre = None
    if r.random() < 0.25 and npatches > 1:
        pre = [BIN, 'push', str(r.randint(1, npatches - 1)), '-d', d, '--threads', '1', '-q']
        subprocess.run(pre, capture_output=True)
    shutil.copytree(d, d + '.real', symlinks=True)
    # copy mtimes are preserved by copytree (copy2)
    before = snapshot(d)
    cmd = [BIN, 'push'] + goal + opts
    dry = subprocess.run(cmd + ['-d', d, '--dry-run'], capture_output=True, text=True, errors='replace', timeout=120)
    after = snapshot(d)
    real = subprocess.run(cmd + ['-d', d + '.real'], capture_output=True, text=True, errors='replace', timeout=120)
    STATS[(dry.returncode, real.returncode, failed_line(dry.stderr) is not None)] = STATS.get((dry.returncode, real.returncode, failed_line(dry.stderr) is not None),0)+1
    problems = []
    if before != after:
        problems.append('TREE CHANGED by dry-run')
    if dry.returncode != real.returncode:
        problems.append('EXIT dry=%d real=%d' % (dry.returncode, real.returncode))
    if failed_line(dry.stderr) != failed_line(real.stderr):
        problems.append('FAILED dry=%r real=%r' % (failed_line(dry.stderr), failed_line(real.stderr)))
    if dry.returncode not in (0, 1) or real.returncode not in (0, 1):
        problems.append('CRASH')
    if problems and re.search(r'Failed to save (modified file|quilt backup file|rejects file)', real.stderr) and re.search(r'os error (17|20|21)\)|is a directory', real.stderr):
        problems = []
        global KNOWN
        KNOWN += 1
    if problems:
        print('seed', seed, ' '.join(cmd), '|', '; '.join(problems))
        tail = [l for l in real.stderr.splitlines() if 'FAILED' not in l and l.strip()][-2:]
        print('    real stderr tail:', tail)
        dtail = dry.stderr.splitlines()[-2:]
        print('    dry stderr tail:', dtail)
        return True
    shutil.rmtree(d, ignore_errors=True)
    shutil.rmtree(d + '.real', ignore_errors=True)
    return False


if __name__ == '__main__':
    os.makedirs(ROOT, exist_ok=True)
    bad = 0
    for s in range(SEED0, SEED0 + COUNT):
        try:
            if one(s):
                bad += 1
        except subprocess.TimeoutExpired:
            print('seed', s, 'TIMEOUT')
            bad += 1
    print(STATS)
    print('done, problems:', bad, 'known class:', KNOWN)
