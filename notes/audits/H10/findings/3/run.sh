#!/bin/sh
# C10: the tree has a directory "real" and a symlink "d -> real". The patch
# deletes d/f, the last file in there. The real run removes the file, then
# fails to rmdir the symlink (ENOTDIR) and exits 1 without recording the
# patch; --dry-run exits 0.
BIN=${1:?usage: run.sh <path-to-rapidquilt>}
# Shared helper: compare a --dry-run with a real run on an identical copy.
# usage: compare <binary> <workspace> <push args...>
# Sets VIOLATION=1 if the dry run changed the tree or the exit statuses /
# failing patches differ.
snapshot() { (cd "$1" && find . -printf '%p|%y|%m|%s|%T@|%C@|%i|%l\n' | sort; find . -type f -exec md5sum {} + | sort -k2); }
failing() { sed -n 's/^Patch \(.*\) FAILED$/\1/p' "$1" | head -n 1; }
compare() {
    bin=$1; ws=$2; shift 2
    cp -a "$ws" "$ws.real"
    snapshot "$ws" > "$ws.before"
    "$bin" push -d "$ws" --dry-run "$@" > "$ws.dry.out" 2> "$ws.dry.err"; dry=$?
    snapshot "$ws" > "$ws.after"
    "$bin" push -d "$ws.real" "$@" > "$ws.real.out" 2> "$ws.real.err"; real=$?
    echo "dry-run: exit $dry, failing patch: '$(failing "$ws.dry.err")'"
    echo "real   : exit $real, failing patch: '$(failing "$ws.real.err")'"
    echo "real stderr:"; sed 's/^/    /' "$ws.real.err"
    VIOLATION=0
    cmp -s "$ws.before" "$ws.after" || { echo "VIOLATION: --dry-run changed the tree"; VIOLATION=1; }
    [ "$dry" = "$real" ] || { echo "VIOLATION: exit status of --dry-run ($dry) differs from the real run ($real)"; VIOLATION=1; }
    [ "$(failing "$ws.dry.err")" = "$(failing "$ws.real.err")" ] || { echo "VIOLATION: failing patch reported differs"; VIOLATION=1; }
}
T=$(mktemp -d) || exit 2
mkdir -p "$T/ws/patches" "$T/ws/real"
echo x > "$T/ws/real/f"
ln -s real "$T/ws/d"
cat > "$T/ws/patches/p1.patch" <<'P'
--- a/d/f
+++ /dev/null
@@ -1 +0,0 @@
-x
P
echo p1.patch > "$T/ws/series"
rc=0
for threads in 1 2; do
    echo "== --threads $threads"
    cp -a "$T/ws" "$T/w$threads"
    compare "$BIN" "$T/w$threads" -a --threads $threads
    [ $VIOLATION = 0 ] || rc=1
done
rm -rf "$T"
exit $rc
