#!/bin/sh
# C10: p1 creates file "a", p2 creates file "a/b". --dry-run says the series
# applies (exit 0); the real run dies while saving (exit 1), tree half written.
BIN=${1:?usage: run.sh <path-to-rapidquilt>}
# Shared helper: compare a --dry-run with a real run on an identical copy.
# usage: compare <binary> <workspace> <push args...>
# Sets VIOLATION=1 if the dry run changed the tree or the exit statuses /
# failing patches differ.
snapshot() { (cd "$1" && find . -printf '%p|%y|%m|%s|%T@|%C@|%i|%l\n' | sort; find . -type f -exec md5sum {} + | sort -k2); }
failing() { sed -n 's/^Patch \(.*\) FAILED$/\1/p' "$1" | head -n 1; }
compare() {
    bin=$1; ws=$2; shift 2
    cp -a "$ws" "$ws.real"
    snapshot "$ws" > "$ws.before"
    "$bin" push -d "$ws" --dry-run "$@" > "$ws.dry.out" 2> "$ws.dry.err"; dry=$?
    snapshot "$ws" > "$ws.after"
    "$bin" push -d "$ws.real" "$@" > "$ws.real.out" 2> "$ws.real.err"; real=$?
    echo "dry-run: exit $dry, failing patch: '$(failing "$ws.dry.err")'"
    echo "real   : exit $real, failing patch: '$(failing "$ws.real.err")'"
    echo "real stderr:"; sed 's/^/    /' "$ws.real.err"
    VIOLATION=0
    cmp -s "$ws.before" "$ws.after" || { echo "VIOLATION: --dry-run changed the tree"; VIOLATION=1; }
    [ "$dry" = "$real" ] || { echo "VIOLATION: exit status of --dry-run ($dry) differs from the real run ($real)"; VIOLATION=1; }
    [ "$(failing "$ws.dry.err")" = "$(failing "$ws.real.err")" ] || { echo "VIOLATION: failing patch reported differs"; VIOLATION=1; }
}
T=$(mktemp -d) || exit 2
mkdir -p "$T/ws/patches"
cat > "$T/ws/patches/p1.patch" <<'P'
--- /dev/null
+++ b/a
@@ -0,0 +1 @@
+x
P
cat > "$T/ws/patches/p2.patch" <<'P'
--- /dev/null
+++ b/a/b
@@ -0,0 +1 @@
+y
P
printf 'p1.patch\np2.patch\n' > "$T/ws/series"
rc=0
for threads in 1 2; do
    echo "== --threads $threads"
    rm -rf "$T/w$threads"; cp -a "$T/ws" "$T/w$threads"
    compare "$BIN" "$T/w$threads" -a --threads $threads
    [ $VIOLATION = 0 ] || rc=1
done
rm -rf "$T"
exit $rc
