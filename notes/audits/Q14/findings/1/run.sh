#!/bin/bash
# C14: --mmap changes the result when the file system has less free space than
# the files that are rewritten: the mapped (unlinked) originals keep their blocks
# until the process ends, so the push that succeeds without --mmap fails with
# ENOSPC under --mmap and leaves a truncated file behind.
# Needs the right to mount a tmpfs (root). Exits 1 when the violation shows.
BIN=${1:?usage: run.sh <path-to-rapidquilt>}
T=$(mktemp -d) || exit 2
cleanup() { for m in "$T"/m_*; do umount "$m" 2>/dev/null; done; rm -rf "$T"; }
trap cleanup EXIT

run() { # $1 = tag, rest = extra options
  tag=$1; shift
  M=$T/m_$tag; mkdir -p "$M"
  if ! mount -t tmpfs -o size=1m tmpfs "$M" 2>/dev/null; then
    echo "SKIP: can not mount a tmpfs here (need root)"; exit 0
  fi
  mkdir "$M/patches"
  # 572000 bytes on a file system of 1 MiB
  i=0; while [ $i -lt 11000 ]; do printf 'line %06d padding padding padding padding padding\n' $i; i=$((i+1)); done > "$M/f"
  cat > "$M/patches/p.patch" <<'EOP'
--- a/f
+++ b/f
@@ -1,3 +1,3 @@
 line 000000 padding padding padding padding padding
-line 000001 padding padding padding padding padding
+LINE 000001 padding padding padding padding padding
 line 000002 padding padding padding padding padding
EOP
  echo p.patch > "$M/series"
  "$BIN" push -a -d "$M" --threads 1 -q "$@" > "$T/log_$tag" 2>&1
  echo "exit=$?" > "$T/res_$tag"
  ( cd "$M" && find . -type f | sort | while read -r n; do printf '%s %s %s\n' "$n" "$(stat -c %s "$n")" "$(sha1sum < "$n")"; done ) >> "$T/res_$tag"
  umount "$M"
}

run plain
run mmap --mmap

if cmp -s "$T/res_plain" "$T/res_mmap"; then
  echo "no difference"; exit 0
fi
echo "VIOLATION: result differs between a run without and with --mmap"
echo "--- without --mmap:"; cat "$T/res_plain" "$T/log_plain"
echo "--- with --mmap:";    cat "$T/res_mmap" "$T/log_mmap"
exit 1
