#!/bin/bash
# C16 finding 5: "old name if that FILE currently exists ... otherwise the new name".
# choose_filename_to_patch() tests `base_dir.join(old).exists()`, which is also true for a directory.
#  (a) A name with no more than N components is stripped to the empty path (FilePatch::strip,
#      "TODO: Handle error if it is too short!"). With `-d DIR` the empty old name "exists" (it is DIR
#      itself), is chosen over the valid new name and loading it gives EISDIR: a hard error that
#      throws away the whole push, including the good patches before it. Without -d (cwd) the very
#      same input resolves to the new name and applies.
#  (b) The same for an old name that is a directory of the tree.
RQ=${1:?usage: run.sh <path-to-rapidquilt>}
RQ=$(readlink -f "$RQ")
T=$(mktemp -d)
bad=0
setup() {
    W=$(mktemp -d "$T/w.XXXXXX"); mkdir -p "$W/patches" "$W/sub"
    printf 'one\ntwo\nthree\n' > "$W/f"
    printf 'x\n' > "$W/g"
    printf 'keep\n' > "$W/sub/keep"
    printf -- '--- a/g\n+++ b/g\n@@ -1 +1 @@\n-x\n+y\n' > "$W/patches/g.patch"
    printf -- "--- $1\n+++ b/f\n@@ -1,3 +1,3 @@\n one\n-two\n+TWO\n three\n" > "$W/patches/a.patch"
    printf 'g.patch\na.patch\n' > "$W/series"
}
for old in f.orig a/sub; do
    for t in 1 2; do
        setup "$old"
        "$RQ" push -a -d "$W" --threads $t -q >"$W/out" 2>&1; rc1=$?
        r1="exit=$rc1 g=$(cat "$W/g") f=$(sed -n 2p "$W/f") applied=$(cat "$W/.pc/applied-patches" 2>/dev/null | tr "\n" " ") $(head -2 "$W/out" | tr '\n' '|')"
        setup "$old"
        (cd "$W" && "$RQ" push -a --threads $t -q >"$W/out" 2>&1); rc2=$?
        r2="exit=$rc2 g=$(cat "$W/g") f=$(sed -n 2p "$W/f") applied=$(cat "$W/.pc/applied-patches" 2>/dev/null | tr "\n" " ") $(head -2 "$W/out" | tr '\n' '|')"
        echo "old name '$old' (-p1), new name b/f, threads $t"
        echo "   push -d DIR : $r1"
        echo "   cd DIR; push: $r2"
        if grep -q 'Is a directory' "$W/out" || [ "$r1" != "$r2" ]; then
            echo "  VIOLATION: a directory was taken for the existing old file (hard error, nothing of the push saved) and/or the result depends on how the base directory is spelled"
            bad=1
        fi
    done
done
exit $bad
