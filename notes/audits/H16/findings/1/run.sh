#!/bin/bash
# C16 finding 1: "./f" (from a -p0 entry) and "f" (from a -p1 entry) are the same file on disk but two
# different files for rapidquilt. A later patch does not see the file "as left by earlier patches of
# the same run"; one patch's change is lost, the result depends on the thread count and differs from
# the split push.
RQ=${1:?usage: run.sh <path-to-rapidquilt>}
RQ=$(readlink -f "$RQ")
T=$(mktemp -d)
setup() {
    W=$(mktemp -d "$T/w.XXXXXX"); mkdir "$W/patches"
    printf 'l1\nl2\nl3\nl4\nl5\nl6\nl7\nl8\nl9\n' > "$W/f"
    cat > "$W/patches/p1.patch" <<'EOF'
--- ./f
+++ ./f
@@ -1,2 +1,2 @@
-l1
+L1
 l2
EOF
    cat > "$W/patches/p2.patch" <<'EOF'
--- a/f
+++ b/f
@@ -8,2 +8,2 @@
 l8
-l9
+L9
EOF
    printf 'p1.patch -p0\np2.patch\n' > "$W/series"
}
expected=$(printf 'L1\nl2\nl3\nl4\nl5\nl6\nl7\nl8\nL9\n')
bad=0

setup
"$RQ" push 1 -d "$W" --threads 1 -q && "$RQ" push 1 -d "$W" --threads 1 -q
echo "split pushes: exit=$? f: $(tr '\n' ' ' < "$W/f")"
[ "$(cat "$W/f")" = "$expected" ] || { echo "  (unexpected)"; bad=1; }

for t in 1 2 3 4; do
    setup
    "$RQ" push -a -d "$W" --threads $t -q; rc=$?
    echo "push -a --threads $t: exit=$rc applied=$(tr '\n' ' ' < "$W/.pc/applied-patches") f: $(tr '\n' ' ' < "$W/f")"
    if [ "$(cat "$W/f")" != "$expected" ]; then
        echo "  VIOLATION: both patches recorded as applied, but f does not carry both changes"
        bad=1
    fi
done
exit $bad
