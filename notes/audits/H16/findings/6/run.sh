#!/bin/bash
# C16 finding 6: a renaming patch whose source does not exist resolves to the NEW name, and the
# "rename" of the (non-existent) new name onto itself marks it as existing (ModifiedFile::move_in sets
# deleted=false). Consequences:
#  (a) a pure rename of a file that does not exist "applies" (exit 0) and creates an empty file;
#  (b) a failing rename+hunk patch is rolled back but leaves the empty phantom file behind;
#  (c) parallel != sequential: a worker that ran ahead of the failing patch and is rolled back leaves the
#      phantom file of a LATER, never applied patch in the tree; --threads 1 does not.
RQ=${1:?usage: run.sh <path-to-rapidquilt>}
RQ=$(readlink -f "$RQ")
T=$(mktemp -d)
bad=0
tree() { (cd "$1" && find . -path ./patches -prune -o -path ./.pc -prune -o -type f -print | sort | tr '\n' ' '); }

# (a)
W=$(mktemp -d "$T/w.XXXXXX"); mkdir "$W/patches"
printf 'diff --git a/k b/g\nsimilarity index 100%%\nrename from k\nrename to g\n' > "$W/patches/a.patch"
echo a.patch > "$W/series"
"$RQ" push -a -d "$W" --threads 1 -q >/dev/null 2>&1; rc=$?
echo "(a) pure rename k->g, neither exists: exit=$rc tree: $(tree "$W")"
if [ $rc = 0 ] || [ -e "$W/g" ]; then echo "  VIOLATION: nothing to rename, yet success and/or file g created"; bad=1; fi

# (b)
W=$(mktemp -d "$T/w.XXXXXX"); mkdir "$W/patches"
printf 'diff --git a/k b/g\nsimilarity index 90%%\nrename from k\nrename to g\n--- a/k\n+++ b/g\n@@ -1 +1 @@\n-x\n+y\n' > "$W/patches/a.patch"
echo a.patch > "$W/series"
"$RQ" push -a -d "$W" --threads 1 -q >/dev/null 2>&1; rc=$?
echo "(b) rename k->g with hunk, neither exists: exit=$rc tree: $(tree "$W")"
if [ -e "$W/g" ]; then echo "  VIOLATION: the patch failed and was rolled back, but left file g"; bad=1; fi

# (d) same bookkeeping, other direction: the destination exists as an EMPTY file; the failing patch is
#     rolled back, but the rollback marks the destination deleted and it is removed from the tree
W=$(mktemp -d "$T/w.XXXXXX"); mkdir "$W/patches"
printf 'x\n' > "$W/h"; : > "$W/k"
printf 'diff --git a/h b/k\nsimilarity index 90%%\nrename from h\nrename to k\n--- a/h\n+++ b/k\n@@ -1 +1 @@\n-nope\n+y\n' > "$W/patches/a.patch"
echo a.patch > "$W/series"
"$RQ" push -a -d "$W" --threads 1 -q >/dev/null 2>&1; rc=$?
echo "(d) rename h->k with failing hunk, k exists (empty): exit=$rc tree: $(tree "$W")"
if [ ! -e "$W/k" ]; then echo "  VIOLATION: the patch failed and was rolled back, but the existing file k is gone"; bad=1; fi

# (c) p0 fails on a big file (keeps its worker busy), p1 is the pure rename handled by another worker
setup_c() {
    W=$(mktemp -d "$T/w.XXXXXX"); mkdir "$W/patches"
    seq 1 400000 > "$W/big"
    printf -- '--- a/big\n+++ b/big\n@@ -399999,2 +399999,2 @@\n 399999\n-nope\n+NOPE\n' > "$W/patches/p0.patch"
    printf 'diff --git a/k b/g\nsimilarity index 100%%\nrename from k\nrename to g\n' > "$W/patches/p1.patch"
    printf 'p0.patch\np1.patch\n' > "$W/series"
}
setup_c
"$RQ" push -a -d "$W" --threads 1 -q >/dev/null 2>&1; rc=$?
seqtree=$(tree "$W")
echo "(c) --threads 1: exit=$rc applied='$(cat "$W/.pc/applied-patches")' tree: $seqtree"
hit=0
for i in $(seq 1 25); do
    setup_c
    "$RQ" push -a -d "$W" --threads 2 -q >/dev/null 2>&1; rc=$?
    partree=$(tree "$W")
    if [ "$partree" != "$seqtree" ]; then
        echo "(c) --threads 2 (try $i): exit=$rc applied='$(cat "$W/.pc/applied-patches")' tree: $partree"
        echo "  VIOLATION: parallel run leaves file g of the never-applied patch p1; sequential run does not"
        hit=1; bad=1; break
    fi
done
[ $hit = 1 ] || echo "(c) no divergence in 25 tries (timing dependent)"
exit $bad
