#!/bin/bash
# C16 finding 4: a -p value that does not fit/parse as usize is silently replaced by the default 1
# (cmd.rs: `.and_then(|n| n.parse::<usize>().ok()).unwrap_or(DEFAULT_PATCH_STRIP)`), so the entry
# is not applied "with its own -pN": exactly one component is removed and whatever file that names
# is patched, exit 0. (`patch -p99999999999999999999` / `-p2R` / `-pfoo` are fatal errors.)
RQ=${1:?usage: run.sh <path-to-rapidquilt>}
RQ=$(readlink -f "$RQ")
T=$(mktemp -d)
bad=0
run() { # $1 = series line
    W=$(mktemp -d "$T/w.XXXXXX"); mkdir -p "$W/patches" "$W/y"
    printf 'one\ntwo\nthree\n' > "$W/f"       # the file a -p2 entry means
    printf 'one\ntwo\nthree\n' > "$W/y/f"     # the file one gets with -p1
    cat > "$W/patches/a.patch" <<'EOF'
--- x/y/f
+++ x/y/f
@@ -1,3 +1,3 @@
 one
-two
+TWO
 three
EOF
    printf '%s\n' "$1" > "$W/series"
    "$RQ" push -a -d "$W" --threads 1 -q >"$W/out" 2>&1; rc=$?
    echo "[$1]: exit=$rc f=$(sed -n 2p "$W/f") y/f=$(sed -n 2p "$W/y/f") $(head -2 "$W/out" | tr '\n' '|')"
}
run 'a.patch -p2'
[ $rc = 0 ] && [ "$(sed -n 2p "$W/f")" = TWO ] || { echo "  unexpected (baseline)"; bad=1; }
for line in 'a.patch -p99999999999999999999' 'a.patch -p2R' 'a.patch -pfoo' 'a.patch --strip=-2'; do
    run "$line"
    if [ "$(sed -n 2p "$W/y/f")" = TWO ]; then
        echo "  VIOLATION: applied with -p1 instead (y/f patched, exit $rc)"
        bad=1
    fi
done
exit $bad
