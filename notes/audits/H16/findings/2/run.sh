#!/bin/bash
# C16 finding 2: an unquoted file name that contains a space (this is how git writes it: no quotes,
# a TAB after the name) is cut at the first space. The patch for "d/my file" is applied to the
# unrelated file "d/my", exit status 0.
RQ=${1:?usage: run.sh <path-to-rapidquilt>}
RQ=$(readlink -f "$RQ")
T=$(mktemp -d)
bad=0
for t in 1 2; do
    W=$(mktemp -d "$T/w.XXXXXX"); mkdir "$W/patches" "$W/d"
    printf 'one\ntwo\nthree\n' > "$W/d/my file"
    printf 'one\ntwo\nthree\n' > "$W/d/my"
    # exactly what `git diff` prints for a file called "d/my file"
    printf 'diff --git a/d/my file b/d/my file\nindex 4cb29ea..a3a8c9e 100644\n--- a/d/my file\t\n+++ b/d/my file\t\n@@ -1,3 +1,3 @@\n one\n-two\n+TWO\n three\n' > "$W/patches/a.patch"
    echo a.patch > "$W/series"
    "$RQ" push -a -d "$W" --threads $t -q; rc=$?
    echo "threads $t: exit=$rc  'd/my file': $(tr '\n' ' ' < "$W/d/my file")  'd/my': $(tr '\n' ' ' < "$W/d/my")"
    if [ "$(sed -n 2p "$W/d/my")" != two ]; then
        echo "  VIOLATION: the unrelated file d/my was patched"
        bad=1
    fi
    if [ $rc = 0 ] && [ "$(sed -n 2p "$W/d/my file")" != TWO ]; then
        echo "  VIOLATION: success reported but 'd/my file' (the old name, which exists) was not patched"
        bad=1
    fi
done
# Second shape: names only on the "diff --git" line (mode change): old = "a/d/my", new = "file"
W=$(mktemp -d "$T/w.XXXXXX"); mkdir "$W/patches" "$W/d"
printf 'x\n' > "$W/d/my file"; printf 'x\n' > "$W/d/my"
printf 'diff --git a/d/my file b/d/my file\nold mode 100644\nnew mode 100755\n' > "$W/patches/a.patch"
echo a.patch > "$W/series"
"$RQ" push -a -d "$W" --threads 1 -q; rc=$?
echo "mode change: exit=$rc  $(cd "$W/d" && stat -c '%n=%a' 'my file' my | tr '\n' ' ')"
if [ "$(stat -c %a "$W/d/my")" != 644 ]; then echo "  VIOLATION: mode of unrelated d/my changed"; bad=1; fi
exit $bad
