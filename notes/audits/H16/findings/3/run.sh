#!/bin/bash
# C16 finding 3: a trailing comment on a series line ("name.patch [opts] # text", which quilt
# documents and strips) is not ignored: its words are fed to the option parser. A comment that
# contains "-R" reverses the patch, "-pN" changes the strip level, any other dash word aborts the
# whole push.
RQ=${1:?usage: run.sh <path-to-rapidquilt>}
RQ=$(readlink -f "$RQ")
T=$(mktemp -d)
bad=0
run() { # $1 = series line, $2 = initial 2nd line of f
    W=$(mktemp -d "$T/w.XXXXXX"); mkdir "$W/patches"
    printf 'one\n%s\nthree\n' "$2" > "$W/f"
    cat > "$W/patches/a.patch" <<'EOF'
--- a/f
+++ b/f
@@ -1,3 +1,3 @@
 one
-two
+TWO
 three
EOF
    printf '# leading comment\n\n%s\n' "$1" > "$W/series"
    "$RQ" push -a -d "$W" --threads 1 -q >"$W/out" 2>&1; rc=$?
    echo "[$1] on f='$2': exit=$rc f=$(sed -n 2p "$W/f") $(head -2 "$W/out" | tr '\n' '|')"
}
run 'a.patch # plain comment' two
[ $rc = 0 ] && [ "$(sed -n 2p "$W/f")" = TWO ] || { echo "  unexpected (baseline)"; bad=1; }

run 'a.patch # do not apply with -R' two
if [ $rc != 0 ]; then echo "  VIOLATION: comment text made the forward patch fail (it was reversed)"; bad=1; fi

run 'a.patch # do not apply with -R' TWO
if [ $rc = 0 ] && [ "$(sed -n 2p "$W/f")" = two ]; then echo "  VIOLATION: patch was applied reversed because of the comment"; bad=1; fi

run 'a.patch -p1 # was -p0 before the tree moved' two
if [ $rc != 0 ]; then echo "  VIOLATION: comment text changed/broke the options"; bad=1; fi

run 'a.patch # fixes --foo handling' two
if [ $rc != 0 ]; then echo "  VIOLATION: comment text aborts the push"; bad=1; fi
exit $bad
