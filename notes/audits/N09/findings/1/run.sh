#!/bin/bash
# C09: one push removes pre-existing empty directories (and loses a reject file)
# that split pushes keep.
#
# Patch 1: hunk-less mode change for a file that does not exist (applies as a no-op,
#          but puts the file among the "changed" files of an applied patch).
# Patch 2: entry 1 creates that file, a later entry fails -> patch 2 is rolled back.
# The rolled-back creation leaves ModifiedFile::ever_present set, so the single push
# takes the (never created) file for a deleted one and "cleans" its directory and the
# empty parents. Split pushes (push 1; push) load the file afresh and clean nothing.
#
# Scenario A: x/ is an empty directory, the file is x/y/n  -> x/ disappears.
# Scenario B: e/ is an empty directory, the file is e/n, the failing entry is for e/m
#             -> e/ disappears and with it the reject e/m.rej ("Bypassing reject").
BIN=${1:?usage: run.sh <path-to-rapidquilt>}
W=$(mktemp -d)
mkA() {
  d=$1; mkdir -p "$d/patches" "$d/x"; echo hello > "$d/z"
  printf 'diff --git a/x/y/n b/x/y/n\nold mode 100644\nnew mode 100755\n' > "$d/patches/p1.patch"
  cat > "$d/patches/p2.patch" <<'P'
--- /dev/null
+++ b/x/y/n
@@ -0,0 +1 @@
+new
--- a/z
+++ b/z
@@ -1 +1 @@
-nothello
+changed
P
  printf 'p1.patch\np2.patch\n' > "$d/series"
}
mkB() {
  d=$1; mkdir -p "$d/patches" "$d/e"; echo hello > "$d/z"
  printf 'diff --git a/e/n b/e/n\nold mode 100644\nnew mode 100755\n' > "$d/patches/p1.patch"
  cat > "$d/patches/p2.patch" <<'P'
--- /dev/null
+++ b/e/n
@@ -0,0 +1 @@
+new
--- a/e/m
+++ b/e/m
@@ -1 +1 @@
-old
+changed
P
  printf 'p1.patch\np2.patch\n' > "$d/series"
}
snap() { (cd "$1" && find . -path ./.pc -prune -o -printf '%y %m %p\n' | sort; echo applied:; cat .pc/applied-patches; for f in $(find . -name '*.rej' | sort); do echo "== $f"; cat "$f"; done); }
rc=0
for S in A B; do
for T in 1 3; do
  rm -rf "$W/one" "$W/split"
  mk$S "$W/one"; mk$S "$W/split"
  "$BIN" push -a -d "$W/one" --threads $T -q >/dev/null 2>&1; r1=$?
  "$BIN" push 1 -d "$W/split" --threads $T -q >/dev/null 2>&1
  "$BIN" push -a -d "$W/split" --threads $T -q >/dev/null 2>&1; r2=$?
  snap "$W/one" > "$W/one.snap"; snap "$W/split" > "$W/split.snap"
  if ! diff "$W/one.snap" "$W/split.snap" > "$W/diff.txt" || [ $r1 != $r2 ]; then
    echo "VIOLATION (scenario $S, threads $T): 'push -a' (exit $r1) and 'push 1; push -a' (exit $r2) differ (< one push, > split):"
    cat "$W/diff.txt"
    rc=1
  fi
done
done
[ $rc = 0 ] && echo "no difference"
rm -rf "$W"
exit $rc
