#!/bin/bash
# C09: "push <name>" can not reach a patch whose name is not valid UTF-8, although
# "push N" / "push -a" can: the goal argument goes through getopts, which refuses
# arguments that are not UTF-8 ("Unrecognized option"). The series file and
# .pc/applied-patches handle such names as bytes.
BIN=${1:?usage: run.sh <path-to-rapidquilt>}
W=$(mktemp -d)
N=$'caf\xe9.patch'
mk() {
  d=$1; mkdir -p "$d/patches"; echo hello > "$d/z"
  printf -- '--- a/z\n+++ b/z\n@@ -1 +1 @@\n-hello\n+changed\n' > "$d/patches/$N"
  printf -- '--- a/z\n+++ b/z\n@@ -1 +1 @@\n-changed\n+again\n' > "$d/patches/p2.patch"
  printf '%s\np2.patch\n' "$N" > "$d/series"
}
mk "$W/byname"; mk "$W/bycount"
"$BIN" push "$N" -d "$W/byname" --threads 1 > "$W/out1" 2>&1; r1=$?
"$BIN" push 1    -d "$W/bycount" --threads 1 > "$W/out2" 2>&1; r2=$?
rc=0
if [ $r1 != $r2 ] || ! cmp -s "$W/byname/z" "$W/bycount/z" || ! cmp -s "$W/byname/.pc/applied-patches" "$W/bycount/.pc/applied-patches"; then
  echo "VIOLATION: 'push <name>' exit $r1, 'push 1' exit $r2"
  echo "push <name> said: $(cat "$W/out1")"
  echo "z after push <name>: $(cat "$W/byname/z");  z after push 1: $(cat "$W/bycount/z")"
  rc=1
fi
# the same when the patch is applied already: "push <name>" should say so, not choke on the argument
"$BIN" push "$N" -d "$W/bycount" --threads 1 > "$W/out3" 2>&1
if grep -q "Unrecognized option" "$W/out3"; then
  echo "VIOLATION: push <applied name>: $(cat "$W/out3")"
  rc=1
fi
[ $rc = 0 ] && echo "no difference"
rm -rf "$W"
exit $rc
