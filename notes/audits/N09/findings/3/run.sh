#!/bin/bash
# C09 (needs a non-root user): a patch that takes away the read permission of a
# file ("new mode 100200") followed by a patch that edits the file: one push
# applies both (the file is only held in memory in between), split pushes stop at
# the second patch with "Permission denied" when loading the file.
# When started as root the test re-runs itself as an unprivileged user via setpriv.
BIN=${1:?usage: run.sh <path-to-rapidquilt>}
if [ "$(id -u)" = 0 ] && [ -z "$N09_INNER" ]; then
  if ! command -v setpriv >/dev/null; then echo "root and no setpriv: can not test"; exit 0; fi
  W=$(mktemp -d); chmod 777 "$W"
  N09_INNER="$W" setpriv --reuid=65534 --regid=65534 --clear-groups bash "$0" "$BIN"; rc=$?
  rm -rf "$W"; exit $rc
fi
W=${N09_INNER:-$(mktemp -d)}
umask 022
mk() {
  d=$1; mkdir -p "$d/patches"; echo hello > "$d/z"
  printf 'diff --git a/z b/z\nold mode 100644\nnew mode 100200\n' > "$d/patches/p1.patch"
  printf -- '--- a/z\n+++ b/z\n@@ -1 +1 @@\n-hello\n+changed\n' > "$d/patches/p2.patch"
  printf 'p1.patch\np2.patch\n' > "$d/series"
}
mk "$W/one"; mk "$W/split"
"$BIN" push -a -d "$W/one" --threads 1 -q > "$W/o1" 2>&1; r1=$?
"$BIN" push 1 -d "$W/split" --threads 1 -q > "$W/o2" 2>&1
"$BIN" push -a -d "$W/split" --threads 1 -q > "$W/o3" 2>&1; r2=$?
a1=$(cat "$W/one/.pc/applied-patches" | tr '\n' ' '); a2=$(cat "$W/split/.pc/applied-patches" | tr '\n' ' ')
if [ $r1 != $r2 ] || [ "$a1" != "$a2" ]; then
  echo "VIOLATION: 'push -a' exit $r1 applied [$a1]; 'push 1; push -a' exit $r2 applied [$a2]"
  cat "$W/o3"
  [ -z "$N09_INNER" ] && rm -rf "$W"
  exit 1
fi
echo "no difference"
[ -z "$N09_INNER" ] && rm -rf "$W"
exit 0
