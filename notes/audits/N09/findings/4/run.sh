#!/bin/bash
# C09 (minor): "push N" with N = 2^64 - 1 means "all the remaining patches"
# (869a107), with N = 2^64 the number no longer parses and is taken for a patch
# name: "Patch not in series", nothing is applied, exit 1.
BIN=${1:?usage: run.sh <path-to-rapidquilt>}
W=$(mktemp -d)
mk() {
  d=$1; mkdir -p "$d/patches"; echo hello > "$d/z"
  printf -- '--- a/z\n+++ b/z\n@@ -1 +1 @@\n-hello\n+changed\n' > "$d/patches/p1.patch"
  echo p1.patch > "$d/series"
}
mk "$W/a"; mk "$W/b"
"$BIN" push 18446744073709551615 -d "$W/a" --threads 1 -q > "$W/o1" 2>&1; r1=$?
"$BIN" push 18446744073709551616 -d "$W/b" --threads 1 -q > "$W/o2" 2>&1; r2=$?
if [ $r1 != $r2 ] || ! cmp -s "$W/a/z" "$W/b/z"; then
  echo "VIOLATION: push 18446744073709551615: exit $r1, z=$(cat "$W/a/z"); push 18446744073709551616: exit $r2, z=$(cat "$W/b/z"): $(cat "$W/o2")"
  rm -rf "$W"; exit 1
fi
echo "no difference"; rm -rf "$W"; exit 0
