#!/bin/bash
# C06 finding 4 (deterministic): the parallel driver validates the file names of ALL
# patches up front, the sequential driver patch by patch. p0 fails to apply, p1 (which
# parses fine) names "../g": --threads 1 stops at p0 and writes f.rej + .pc/applied-patches,
# --threads N aborts with "Refusing to patch file outside..." and writes nothing.
BIN=${1:?usage: run.sh <path-to-binary>}
W=$(mktemp -d)
mk() {
  mkdir -p $1/patches
  printf 'a\nb\nc\n' > $1/f; echo x > $1/g
  cat > $1/patches/p0.patch <<'P'
--- a/f
+++ b/f
@@ -1,2 +1,2 @@
-nomatch
+xx
 b
P
  cat > $1/patches/p1.patch <<'P'
--- a/../g
+++ b/../g
@@ -1 +1 @@
-x
+y
P
  printf 'p0.patch\np1.patch\n' > $1/series
}
snap() { (cd $1 && find . -path ./patches -prune -o -printf '%p %y %m %s\n' | sort); }
mk $W/seq; mk $W/par
$BIN push -a -d $W/seq --threads 1 -q >/dev/null 2>$W/seq.err; es=$?
$BIN push -a -d $W/par --threads 2 -q >/dev/null 2>$W/par.err; ep=$?
snap $W/seq > $W/seq.ls; snap $W/par > $W/par.ls
if ! diff $W/seq.ls $W/par.ls > $W/d || [ $es != $ep ]; then
  echo "VIOLATION: exit seq=$es par=$ep; tree diff (< threads 1, > threads 2):"; cat $W/d
  echo "--- parallel stderr:"; cat $W/par.err
  rm -rf $W; exit 1
fi
echo "no difference"; rm -rf $W; exit 0
