#!/bin/bash
# C06 finding 3: a worker runs ahead and applies a LATER git rename A -> B where B is an
# existing empty file; the rollback of the rename is not exact (B comes back as "deleted"),
# so the save phase removes B from the tree. Single-threaded run leaves B alone.
# Variant b: rename of a non-existent source leaves a superfluous empty file behind.
BIN=${1:?usage: run.sh <path-to-binary>}
W=$(mktemp -d)
mk() {  # $1 dir, $2 variant
  mkdir -p $1/patches
  seq 1 400000 | sed 's/^/line /' > $1/big
  if [ $2 = a ]; then echo content > $1/A; : > $1/B; chmod 600 $1/B; fi
  cat > $1/patches/p0.patch <<'P'
--- a/big
+++ b/big
@@ -1,2 +1,2 @@
-nomatch
+xx
 line 2
P
  cat > $1/patches/p1.patch <<'P'
diff --git a/A b/B
similarity index 100%
rename from A
rename to B
P
  printf 'p0.patch\np1.patch\n' > $1/series
}
snap() { (cd $1 && find . -path ./patches -prune -o -printf '%p %y %m %s\n' | grep -v '^\./big' | sort); }
export RQ_VERIF_SCHED= RQ_VERIF_POLICY=high
rc=0
for v in a b; do
  rm -rf $W/seq; mk $W/seq $v
  env -u RQ_VERIF_SCHED $BIN push -a -d $W/seq --threads 1 -q >/dev/null 2>&1; es=$?
  snap $W/seq > $W/seq.ls
  found=0
  for i in $(seq 1 20); do
    rm -rf $W/par; mk $W/par $v
    $BIN push -a -d $W/par --threads 2 -q >/dev/null 2>&1; ep=$?
    snap $W/par > $W/par.ls
    if ! diff $W/seq.ls $W/par.ls > $W/d; then
      echo "VIOLATION variant $v (try $i): exit seq=$es par=$ep; tree diff (< threads 1, > threads 2):"; cat $W/d
      found=1; rc=1; break
    fi
  done
  [ $found = 1 ] || echo "variant $v not reproduced in 20 tries"
done
rm -rf $W; exit $rc
