#!/bin/bash
# C06 finding 7: "./f" (p0, -p0) and "f" (p1, -p0) are the same file but different keys
# for the scheduler, so they go to different workers. Each worker patches its own copy
# of the original and both write the file in the save phase: last writer wins, i.e. the
# result depends on the thread schedule. The single-threaded run always ends with p0's
# version (hash order); the parallel run usually ends with p1's.
BIN=${1:?usage: run.sh <path-to-binary>}
W=$(mktemp -d)
mk() {
  mkdir -p $1/patches
  printf 'a\nb\nc\nd\ne\nf\ng\nh\n' > $1/f
  cat > $1/patches/p0.patch <<'P'
--- ./f
+++ ./f
@@ -1,2 +1,2 @@
-a
+A
 b
P
  cat > $1/patches/p1.patch <<'P'
--- f
+++ f
@@ -7,2 +7,2 @@
 g
-h
+H
P
  printf 'p0.patch -p0\np1.patch -p0\n' > $1/series
}
mk $W/seq
$BIN push -a -d $W/seq --threads 1 -q >/dev/null 2>&1; es=$?
# for a hook build: worker 0 (./f) saves first, worker 1 (f) last
export RQ_VERIF_SCHED= RQ_VERIF_POLICY=low
seen=""
for i in $(seq 1 30); do
  rm -rf $W/par; mk $W/par
  $BIN push -a -d $W/par --threads 2 -q >/dev/null 2>&1; ep=$?
  if ! cmp -s $W/seq/f $W/par/f || [ $es != $ep ]; then
    echo "VIOLATION (try $i): exit seq=$es par=$ep; content of f (threads 1 | threads 2):"
    paste $W/seq/f $W/par/f
    rm -rf $W; exit 1
  fi
done
echo "not reproduced in 30 tries"; rm -rf $W; exit 0
