#!/bin/bash
# C06 finding 1: a worker that runs ahead of the failing patch loads a file that only a
# LATER patch names; after rollback that file is "saved" again: a symlink is replaced by a
# regular file. The single-threaded run never touches it.
# usage: run.sh <path-to-rapidquilt>   exit 1 = violation shown
BIN=${1:?usage: run.sh <path-to-binary>}
W=$(mktemp -d)
mk() {  # $1 = dir
  mkdir -p $1/patches
  # big file: keeps worker 0 busy so that worker 1 runs ahead (plain binary)
  seq 1 400000 | sed 's/^/line /' > $1/big
  echo hello > $1/real; ln -s real $1/link
  cat > $1/patches/p0.patch <<'P'
--- a/big
+++ b/big
@@ -1,2 +1,2 @@
-nomatch
+xx
 line 2
P
  cat > $1/patches/p1.patch <<'P'
--- a/link
+++ b/link
@@ -1 +1 @@
-hello
+world
P
  printf 'p0.patch\np1.patch\n' > $1/series
}
mk $W/seq
$BIN push -a -d $W/seq --threads 1 -q >/dev/null 2>&1; es=$?
[ -L $W/seq/link ] || { echo "unexpected: sequential run replaced the symlink"; exit 2; }
# RQ_VERIF_* only matter for a binary built with --cfg opensuse_rapidquilt_verif: worker 1 first
export RQ_VERIF_SCHED= RQ_VERIF_POLICY=high
for i in $(seq 1 20); do
  rm -rf $W/par; mk $W/par
  $BIN push -a -d $W/par --threads 2 -q >/dev/null 2>&1; ep=$?
  if [ ! -L $W/par/link ]; then
    echo "VIOLATION (try $i): exit seq=$es par=$ep; 'link' is a symlink after --threads 1 but a regular file after --threads 2"
    ls -l $W/seq/link $W/par/link
    rm -rf $W; exit 1
  fi
done
echo "not reproduced in 20 tries"; rm -rf $W; exit 0
