#!/bin/bash
# C06 finding 6: an I/O error while saving. p0 creates the file "a", p1 creates "a/b" and
# changes g. Both cannot exist. Sequential: the first failing save aborts everything
# (no backups, later files unsaved). Parallel: "a" and "a/b" are saved by different
# workers racing each other; the worker that loses returns an error but the other one
# goes on, saves the rest of its files and its .pc backups. With --backup always the
# result differs from the sequential one under every schedule, and which of a / a/b
# exists depends on the schedule.
BIN=${1:?usage: run.sh <path-to-binary>}
W=$(mktemp -d)
mk() {
  mkdir -p $1/patches
  echo x > $1/g
  cat > $1/patches/p0.patch <<'P'
--- /dev/null
+++ b/a
@@ -0,0 +1 @@
+file a
P
  cat > $1/patches/p1.patch <<'P'
--- /dev/null
+++ b/a/b
@@ -0,0 +1 @@
+file b
--- a/g
+++ b/g
@@ -1 +1 @@
-x
+y
P
  printf 'p0.patch\np1.patch\n' > $1/series
}
snap() { (cd $1 && find . -path ./patches -prune -o -printf '%p %y %m %s\n' | sort); }
mk $W/seq; mk $W/par
$BIN push -a -d $W/seq --threads 1 -q --backup always >/dev/null 2>$W/seq.err; es=$?
$BIN push -a -d $W/par --threads 2 -q --backup always >/dev/null 2>$W/par.err; ep=$?
snap $W/seq > $W/seq.ls; snap $W/par > $W/par.ls
if ! diff $W/seq.ls $W/par.ls > $W/d || [ $es != $ep ]; then
  echo "VIOLATION: exit seq=$es par=$ep; tree diff (< threads 1, > threads 2):"; cat $W/d
  echo "--- seq stderr:"; cat $W/seq.err; echo "--- par stderr:"; cat $W/par.err
  rm -rf $W; exit 1
fi
echo "no difference"; rm -rf $W; exit 0
