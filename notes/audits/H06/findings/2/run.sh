#!/bin/bash
# C06 finding 2: a worker that runs ahead of the failing patch hits a load error
# (ENOTDIR) in a LATER patch; the whole push is aborted: no .rej, no .pc, whereas the
# single-threaded run stops at the failing patch, writes f.rej and .pc/applied-patches.
BIN=${1:?usage: run.sh <path-to-binary>}
W=$(mktemp -d)
mk() {
  mkdir -p $1/patches
  seq 1 400000 | sed 's/^/line /' > $1/big
  echo x > $1/plainfile
  cat > $1/patches/p0.patch <<'P'
--- a/big
+++ b/big
@@ -1,2 +1,2 @@
-nomatch
+xx
 line 2
P
  cat > $1/patches/p1.patch <<'P'
--- a/plainfile/sub
+++ b/plainfile/sub
@@ -1 +1 @@
-x
+y
P
  printf 'p0.patch\np1.patch\n' > $1/series
}
mk $W/seq
$BIN push -a -d $W/seq --threads 1 -q >/dev/null 2>$W/seq.err; es=$?
[ -f $W/seq/big.rej ] || { echo "unexpected: sequential run wrote no big.rej"; cat $W/seq.err; exit 2; }
export RQ_VERIF_SCHED= RQ_VERIF_POLICY=high
for i in $(seq 1 20); do
  rm -rf $W/par; mk $W/par
  $BIN push -a -d $W/par --threads 2 -q >/dev/null 2>$W/par.err; ep=$?
  if [ ! -f $W/par/big.rej ] || [ ! -e $W/par/.pc/applied-patches ]; then
    echo "VIOLATION (try $i): exit seq=$es par=$ep"
    echo "--- sequential tree:"; (cd $W/seq && find . -path ./patches -prune -o -print | sort)
    echo "--- parallel tree:";   (cd $W/par && find . -path ./patches -prune -o -print | sort)
    echo "--- parallel stderr:"; cat $W/par.err
    rm -rf $W; exit 1
  fi
done
echo "not reproduced in 20 tries"; rm -rf $W; exit 0
