#!/bin/bash
# C06 finding 5 (deterministic, default options): the two drivers run the end-of-push
# phases in a different order (sequential: save, clean dirs, rejects, backups;
# parallel: save+backups per worker, clean dirs, rejects). When a phase fails, different
# artefacts are left behind.
#  a) reject cannot be created (name + ".rej" too long): parallel has .pc/<patch>/ backups,
#     sequential has no .pc at all
#  b) backups cannot be created (.pc is a regular file): sequential wrote h.rej, parallel not
BIN=${1:?usage: run.sh <path-to-binary>}
W=$(mktemp -d)
LONG=$(printf 'n%.0s' $(seq 1 253))
mk() { # $1 dir $2 variant
  mkdir -p $1/patches
  echo x > $1/g
  if [ $2 = a ]; then T=$LONG; else T=h; : > $1/.pc; fi
  printf 'a\nb\nc\n' > $1/$T
  cat > $1/patches/p0.patch <<'P'
--- a/g
+++ b/g
@@ -1 +1 @@
-x
+y
P
  cat > $1/patches/p1.patch <<P
--- a/$T
+++ b/$T
@@ -1,2 +1,2 @@
-nomatch
+xx
 b
P
  printf 'p0.patch\np1.patch\n' > $1/series
}
snap() { (cd $1 && find . -path ./patches -prune -o -printf '%p %y %m %s\n' | sort | cut -c1-80); }
rc=0
for v in a b; do
  rm -rf $W/seq $W/par; mk $W/seq $v; mk $W/par $v
  $BIN push -a -d $W/seq --threads 1 -q >/dev/null 2>$W/seq.err; es=$?
  $BIN push -a -d $W/par --threads 2 -q >/dev/null 2>$W/par.err; ep=$?
  snap $W/seq > $W/seq.ls; snap $W/par > $W/par.ls
  if ! diff $W/seq.ls $W/par.ls > $W/d || [ $es != $ep ]; then
    echo "VIOLATION variant $v: exit seq=$es par=$ep; tree diff (< threads 1, > threads 2):"; cat $W/d
    rc=1
  else
    echo "variant $v: no difference"
  fi
done
rm -rf $W; exit $rc
