#!/bin/bash
# Finding 4: p2 creates file "foo", p3 creates "foo/bar": the error only shows while saving,
# patch p1 is left half-written and nothing is recorded.
BIN=$(readlink -f "${1:?usage: run.sh <path-to-rapidquilt>}")
W=$(mktemp -d); trap 'rm -rf "$W"' EXIT
cd $W; mkdir patches
N=16
for i in $(seq 1 $N); do printf 'x\n' > X$i; done
for i in $(seq 1 $N); do cat <<P
--- a/X$i
+++ b/X$i
@@ -1 +1 @@
-x
+y
P
done > patches/p1.patch
cat > patches/p2.patch <<'P'
--- /dev/null
+++ b/foo
@@ -0,0 +1 @@
+foo
P
cat > patches/p3.patch <<'P'
--- /dev/null
+++ b/foo/bar
@@ -0,0 +1 @@
+bar
P
printf 'p1.patch\np2.patch\np3.patch\n' > series
"$BIN" push -a -d . --threads 1 -q 2>&1 | sed 's/^/  | /'; st=${PIPESTATUS[0]}
ny=$(cat X* | grep -c y); k=$(cat .pc/applied-patches 2>/dev/null | wc -l)
echo "exit=$st names recorded=$k; files of p1 patched: $ny of $N; foo exists: $([ -e foo ] && echo yes || echo no)"
rc=0
if [ "$k" -eq 0 ] && { [ "$ny" -ne 0 ] || [ -e foo ]; }; then echo "VIOLATION: 0 names recorded but the tree is changed (p1 applied to $ny of $N files)"; rc=1; fi
if [ "$ny" -ne 0 ] && [ "$ny" -ne $N ]; then echo "VIOLATION: p1 is applied partially"; rc=1; fi
exit $rc
