#!/bin/bash
# Finding 10: a line without newline that ends up in the middle of a file stays a separate line in
# memory but is glued to the next line on disk; push -a and push 1; push 1 disagree on whether p2 applies.
BIN=$(readlink -f "${1:?usage: run.sh <path-to-rapidquilt>}")
W=$(mktemp -d); trap 'rm -rf "$W"' EXIT
mk() { mkdir -p $1/patches; cd $1; printf 'x' > F
cat > patches/p1.patch <<'P'
--- a/F
+++ b/F
@@ -1 +1,2 @@
 x
\ No newline at end of file
+c
P
cat > patches/p2.patch <<'P'
--- a/F
+++ b/F
@@ -1,2 +1,2 @@
 x
\ No newline at end of file
-c
+d
P
printf 'p1.patch\np2.patch\n' > series; }
mk $W/all;  "$BIN" push -a -d . --threads 1 -q >/dev/null 2>&1; sa=$?; ka=$(cat .pc/applied-patches | wc -l); fa=$(od -An -c F | tr -s ' ')
mk $W/step; "$BIN" push 1 -d . --threads 1 -q >/dev/null 2>&1; "$BIN" push 1 -d . --threads 1 -q >/dev/null 2>&1; ss=$?; ks=$(cat .pc/applied-patches | wc -l); fs=$(od -An -c F | tr -s ' ')
echo "push -a        : exit=$sa names=$ka F=$fa"
echo "push 1; push 1 : exit=$ss names=$ks F=$fs"
if [ "$ka" != "$ks" ] || [ "$fa" != "$fs" ]; then echo "VIOLATION: same tree, same series, different k"; exit 1; fi
exit 0
