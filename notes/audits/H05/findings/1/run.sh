#!/bin/bash
# Finding 1: a failing patch that renames a file onto an existing EMPTY tracked file deletes that file.
BIN=$(readlink -f "${1:?usage: run.sh <path-to-rapidquilt>}")
W=$(mktemp -d); trap 'rm -rf "$W"' EXIT
rc=0
for T in 1 2; do
  D=$W/t$T; mkdir -p $D/patches; cd $D
  printf 'a1\na2\n' > A
  : > B                      # tracked, empty
  printf 'c1\n' > C
  cat > patches/p1.patch <<'P'
diff --git a/A b/B
similarity index 100%
rename from A
rename to B
diff --git a/C b/C
--- a/C
+++ b/C
@@ -1 +1 @@
-nomatch
+c2
P
  echo p1.patch > series
  "$BIN" push -a -d . --threads $T -q >/dev/null 2>&1; st=$?
  echo "threads=$T exit=$st applied='$(cat .pc/applied-patches 2>/dev/null)' files: $(ls | tr '\n' ' ')"
  [ $st -eq 1 ] || { echo "  unexpected exit status"; rc=1; }
  if [ ! -e B ]; then echo "  VIOLATION: the failing patch deleted the tracked (empty) file B"; rc=1; fi
  [ "$(cat A)" = "$(printf 'a1\na2')" ] || { echo "  A changed"; rc=1; }
done

# Parallel variant: the renaming patch comes AFTER the failing one; a worker that ran ahead
# applies it and rolls it back - and loses B. Racy, so try a few times (informational).
for i in $(seq 1 30); do
  D=$W/p$i; mkdir -p $D/patches; cd $D
  printf 'a1\n' > A; : > B; printf 'c1\n' > C
  cat > patches/p1.patch <<'P'
--- a/C
+++ b/C
@@ -1 +1 @@
-nomatch
+c2
P
  cat > patches/p2.patch <<'P'
diff --git a/A b/B
similarity index 100%
rename from A
rename to B
P
  printf 'p1.patch\np2.patch\n' > series
  "$BIN" push -a -d . --threads 2 -q >/dev/null 2>&1
  if [ ! -e B ]; then echo "parallel variant (try $i): VIOLATION: patch p2 AFTER the failing p1 deleted B"; rc=1; break; fi
done
exit $rc
