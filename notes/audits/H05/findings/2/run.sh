#!/bin/bash
# Finding 2: a failing rename patch whose source file is missing leaves a new empty destination file
# (and new directories) behind.
BIN=$(readlink -f "${1:?usage: run.sh <path-to-rapidquilt>}")
W=$(mktemp -d); trap 'rm -rf "$W"' EXIT
rc=0
for T in 1 2; do
  D=$W/t$T; mkdir -p $D/patches; cd $D
  printf 'c1\n' > C
  cat > patches/p1.patch <<'P'
diff --git a/sub/A b/sub2/B
similarity index 80%
rename from sub/A
rename to sub2/B
--- a/sub/A
+++ b/sub2/B
@@ -1,2 +1,2 @@
 a1
-a2
+a3
P
  echo p1.patch > series
  "$BIN" push -a -d . --threads $T -q >/dev/null 2>&1; st=$?
  echo "threads=$T exit=$st applied='$(cat .pc/applied-patches 2>/dev/null)' files: $(find . -path ./.pc -prune -o -type f -print | sort | tr '\n' ' ')"
  [ $st -eq 1 ] || { echo "  unexpected exit status"; rc=1; }
  extra=$(find . -path ./.pc -prune -o -path ./patches -prune -o -type f ! -name '*.rej' ! -name series ! -name C -print)
  if [ -n "$extra" ]; then echo "  VIOLATION: failing patch left non-reject file(s): $extra"; rc=1; fi
done

# Parallel variant: the rename patch comes AFTER the failing one (racy, informational).
for i in $(seq 1 30); do
  D=$W/p$i; mkdir -p $D/patches; cd $D
  printf 'c1\n' > C
  cat > patches/p1.patch <<'P'
--- a/C
+++ b/C
@@ -1 +1 @@
-nomatch
+c2
P
  cat > patches/p2.patch <<'P'
diff --git a/A b/B
similarity index 100%
rename from A
rename to B
P
  printf 'p1.patch\np2.patch\n' > series
  "$BIN" push -a -d . --threads 2 -q >/dev/null 2>&1
  if [ -e B ]; then echo "parallel variant (try $i): VIOLATION: patch p2 AFTER the failing p1 created B"; rc=1; break; fi
done
exit $rc
