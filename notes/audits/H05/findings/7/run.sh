#!/bin/bash
# Finding 7: the messages printed between saving the tree and writing .pc/applied-patches use
# println!/eprintln!, which panic when the stream can not be written (full disk behind a redirected
# log, closed pipe as in "| head").  Result: exit 101, tree = first k patches, names recorded = 0.
BIN=$(readlink -f "${1:?usage: run.sh <path-to-rapidquilt>}")
W=$(mktemp -d); trap 'rm -rf "$W"' EXIT
rc=0
mk() { mkdir -p $1/patches; cd $1; printf 'a1\n' > A; printf 'b1\n' > B
  cat > patches/p1.patch <<'P'
--- a/A
+++ b/A
@@ -1 +1 @@
-a1
+a2
P
  cat > patches/p2.patch <<'P'
--- a/B
+++ b/B
@@ -1 +1 @@
-nomatch
+b2
P
  printf 'p1.patch\np2.patch\n' > series; }
[ -c /dev/full ] || { echo "no /dev/full here, skipping"; exit 0; }
for T in 1 2; do
  mk $W/t$T
  "$BIN" push -a -d . --threads $T -q 2>/dev/full; st=$?
  k=$(cat .pc/applied-patches 2>/dev/null | wc -l)
  echo "stderr=/dev/full threads=$T: exit=$st names=$k A=$(cat A)"
  [ $st -le 1 ] || { echo "  VIOLATION: abnormal exit status $st (panic)"; rc=1; }
  if [ "$(cat A)" = a2 ] && [ "$k" -ne 1 ]; then echo "  VIOLATION: p1 is applied to the tree but $k names are recorded"; rc=1; fi
done
# the same through a closed stdout (racy, informational)
for i in $(seq 1 20); do
  mk $W/h$i
  "$BIN" push -a -d . --threads 1 2>/dev/null | head -n 2 >/dev/null; st=${PIPESTATUS[0]}
  k=$(cat .pc/applied-patches 2>/dev/null | wc -l)
  if [ "$(cat A)" = a2 ] && [ "$k" -ne 1 ]; then echo "'push -a | head -n 2' (try $i): exit=$st names=$k A=$(cat A): VIOLATION"; rc=1; break; fi
done
exit $rc
