#!/bin/bash
# Finding 6: an error while writing a reject file (after the tree has been saved) aborts the push before
# .pc/applied-patches is written: tree = first k patches, names recorded = 0.
# Here: p1 creates the file "d", p2 (for another tree layout) wants to change "d/D" -> fails ->
# its reject "d/D.rej" can not be created (ENOTDIR).  Same with a directory named "B.rej".
BIN=$(readlink -f "${1:?usage: run.sh <path-to-rapidquilt>}")
W=$(mktemp -d); trap 'rm -rf "$W"' EXIT
rc=0
for T in 1 2; do
  D=$W/t$T; mkdir -p $D/patches; cd $D
  printf 'a1\n' > A
  cat > patches/p1.patch <<'P'
--- a/A
+++ b/A
@@ -1 +1 @@
-a1
+a2
--- /dev/null
+++ b/d
@@ -0,0 +1 @@
+d is a file
P
  cat > patches/p2.patch <<'P'
--- a/d/D
+++ b/d/D
@@ -1 +1 @@
-x
+y
P
  printf 'p1.patch\np2.patch\n' > series
  "$BIN" push -a -d . --threads $T -q >/dev/null 2>err.txt; st=$?
  k=$(cat .pc/applied-patches 2>/dev/null | wc -l)
  echo "threads=$T exit=$st names=$k A=$(cat A) d=$([ -f d ] && echo present || echo absent) ($(tr '\n' ' ' < err.txt))"
  if [ "$(cat A)" = a2 ] && [ "$k" -ne 1 ]; then echo "  VIOLATION: p1 is applied to the tree but $k names are recorded"; rc=1; fi
  "$BIN" push -a -d . --threads $T -q >/dev/null 2>err2.txt; echo "  next push: exit=$? ($(head -2 err2.txt | tr '\n' ' '))"
done
exit $rc
