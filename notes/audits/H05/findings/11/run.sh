#!/bin/bash
# Finding 11: failure diagnostics (default verbosity only) take time ~ (file lines x hunk lines)^2 when
# the hunk's lines occur many times in the file; with -q the same push takes milliseconds.
BIN=$(readlink -f "${1:?usage: run.sh <path-to-rapidquilt>}")
LIMIT=${LIMIT:-20}
W=$(mktemp -d); trap 'rm -rf "$W"' EXIT
cd $W; mkdir patches
python3 - <<'P'
n, h = 1500, 40
open('A', 'w').write('\n' * n)
with open('patches/p1.patch', 'w') as f:
    f.write('--- a/A\n+++ b/A\n@@ -10,%d +10,%d @@\n' % (h + 1, h + 1))
    f.write(' \n' * (h // 2)); f.write('-nomatch\n+new\n'); f.write(' \n' * (h - h // 2))
P
echo p1.patch > series
s=$(date +%s.%N); timeout 60 "$BIN" push -a -d . --threads 1 -q >/dev/null 2>&1; st=$?; e=$(date +%s.%N)
echo "-q     : exit=$st after $(echo "$e - $s" | bc) s"
rm -f A.rej
s=$(date +%s.%N); timeout $LIMIT "$BIN" push -a -d . --threads 1 >/dev/null 2>&1; st=$?; e=$(date +%s.%N)
echo "default: exit=$st after $(echo "$e - $s" | bc) s (limit $LIMIT s; 124 = killed by timeout)"
if [ $st -eq 124 ]; then echo "VIOLATION: push of one failing 41-line hunk on a 1500-line file does not finish within $LIMIT s (no reject, nothing recorded)"; exit 1; fi
exit 0
