#!/bin/bash
# Finding 9: every file a patch looked at is removed and written again, also files that only the failing
# (rolled back) patch touched.  (a) a tracked symlink is replaced by a regular file by a FAILING patch;
# (b) if that file is in a read-only directory the save fails half way: earlier patch applied partially,
# nothing recorded (needs an unprivileged user; uses setpriv when run as root).
BIN=$(readlink -f "${1:?usage: run.sh <path-to-rapidquilt>}")
W=$(mktemp -d); trap 'chmod -R u+w "$W" 2>/dev/null; rm -rf "$W"' EXIT
chmod 755 $W
rc=0
# (a)
D=$W/a; mkdir -p $D/patches; cd $D
printf 'a1\n' > A; ln -s A L
cat > patches/p1.patch <<'P'
--- a/L
+++ b/L
@@ -1 +1 @@
-nomatch
+a3
P
echo p1.patch > series
"$BIN" push -a -d . --threads 1 -q >/dev/null 2>&1; st=$?
echo "(a) exit=$st; L is now: $(stat -c %F L)"
if [ ! -L L ]; then echo "  VIOLATION: the failing patch replaced the tracked symlink L by a regular file"; rc=1; fi
# (b)
D=$W/b; mkdir -p $D/patches $D/ro; cd $D
N=16
for i in $(seq 1 $N); do printf 'x\n' > X$i; done
for i in $(seq 1 $N); do cat <<P
--- a/X$i
+++ b/X$i
@@ -1 +1 @@
-x
+y
P
done > patches/p1.patch
printf 'b1\n' > ro/B
cat > patches/p2.patch <<'P'
--- a/ro/B
+++ b/ro/B
@@ -1 +1 @@
-nomatch
+b2
P
printf 'p1.patch\np2.patch\n' > series
chmod 555 ro
RUN=()
if [ "$(id -u)" -eq 0 ]; then
  if command -v setpriv >/dev/null; then chown -R 65534:65534 $D; RUN=(setpriv --reuid=65534 --regid=65534 --clear-groups); else echo "(b) skipped: root without setpriv"; exit $rc; fi
fi
"${RUN[@]}" "$BIN" push -a -d . --threads 1 -q >/dev/null 2>err.txt; st=$?
ny=$(cat X* | grep -c y); k=$(cat .pc/applied-patches 2>/dev/null | wc -l)
echo "(b) exit=$st names=$k, files of p1 patched: $ny of $N ($(tr '\n' ' ' < err.txt))"
if [ "$k" -eq 0 ] && [ "$ny" -ne 0 ]; then echo "  VIOLATION: p2 fails on ro/B (which needs no change), the save dies on it: p1 applied to $ny of $N files, 0 names recorded"; rc=1; fi
exit $rc
