#!/bin/bash
# Finding 5: a series that turns a file into a directory (or a directory into a file) can be pushed
# patch by patch but not at once: push -a aborts with an error although no hunk fails.
BIN=$(readlink -f "${1:?usage: run.sh <path-to-rapidquilt>}")
W=$(mktemp -d); trap 'rm -rf "$W"' EXIT
rc=0
mk1() { mkdir -p $1/patches; cd $1; printf 'foo\n' > foo
cat > patches/p1.patch <<'P'
--- a/foo
+++ /dev/null
@@ -1 +0,0 @@
-foo
P
cat > patches/p2.patch <<'P'
--- /dev/null
+++ b/foo/bar
@@ -0,0 +1 @@
+bar
P
printf 'p1.patch\np2.patch\n' > series; }
mk2() { mkdir -p $1/patches $1/d; cd $1; printf 'f\n' > d/f
cat > patches/p1.patch <<'P'
--- a/d/f
+++ /dev/null
@@ -1 +0,0 @@
-f
P
cat > patches/p2.patch <<'P'
--- /dev/null
+++ b/d
@@ -0,0 +1 @@
+now a file
P
printf 'p1.patch\np2.patch\n' > series; }
for c in 1 2; do
  mk$c $W/c$c-all;  "$BIN" push -a -d . --threads 1 -q >/dev/null 2>err.txt; sa=$?; ka=$(cat .pc/applied-patches 2>/dev/null | wc -l)
  mk$c $W/c$c-step; "$BIN" push 1 -d . --threads 1 -q >/dev/null 2>&1; s1=$?; "$BIN" push 1 -d . --threads 1 -q >/dev/null 2>&1; s2=$?; ks=$(cat .pc/applied-patches 2>/dev/null | wc -l)
  echo "case $c: push -a: exit=$sa names=$ka ($(tr '\n' ' ' < $W/c$c-all/err.txt)) ; push 1 + push 1: exit=$s1,$s2 names=$ks"
  if [ $sa -ne 0 ] && [ $s1 -eq 0 ] && [ $s2 -eq 0 ]; then echo "  VIOLATION: no patch has a failing hunk (both apply one by one), yet push -a exits $sa with $ka names"; rc=1; fi
done
exit $rc
