#!/bin/bash
# Finding 8: with --threads >= 2 all patches of the range are read and parsed first; a patch AFTER the
# failing one that is missing/malformed makes the whole push an error (nothing applied, no reject),
# while the sequential driver applies the first k patches, writes rejects and records k names.
BIN=$(readlink -f "${1:?usage: run.sh <path-to-rapidquilt>}")
W=$(mktemp -d); trap 'rm -rf "$W"' EXIT
rc=0
for T in 1 2; do
  D=$W/t$T; mkdir -p $D/patches; cd $D
  printf 'a1\n' > A; printf 'b1\n' > B
  cat > patches/p1.patch <<'P'
--- a/A
+++ b/A
@@ -1 +1 @@
-a1
+a2
P
  cat > patches/p2.patch <<'P'
--- a/B
+++ b/B
@@ -1 +1 @@
-nomatch
+b2
P
  # p3.patch is listed in series but does not exist (a truncated patch does the same)
  printf 'p1.patch\np2.patch\np3.patch\n' > series
  "$BIN" push -a -d . --threads $T -q >/dev/null 2>err.txt; st=$?
  k=$(cat .pc/applied-patches 2>/dev/null | wc -l)
  echo "threads=$T exit=$st names=$k A=$(cat A) rej=$([ -e B.rej ] && echo yes || echo no) ($(head -1 err.txt))"
  eval "K$T=$k; A$T=$(cat A)"
done
if [ "$K1" != "$K2" ] || [ "$A1" != "$A2" ]; then echo "VIOLATION: first failing patch is p2 (position 1); threads=1 records $K1 name(s), threads=2 records $K2"; rc=1; fi
exit $rc
