#!/bin/bash
# Finding 3: "./A" and "A" (-p0) are two different in-memory files for the same file on disk.
BIN=$(readlink -f "${1:?usage: run.sh <path-to-rapidquilt>}")
W=$(mktemp -d); trap 'rm -rf "$W"' EXIT
rc=0
for T in 1 2; do
  D=$W/t$T; mkdir -p $D/patches; cd $D
  printf 'l1\nl2\nl3\nl4\nl5\nl6\nl7\nl8\n' > A
  cat > patches/p1.patch <<'P'
--- ./A
+++ ./A
@@ -1,3 +1,3 @@
-l1
+L1
 l2
 l3
P
  cat > patches/p2.patch <<'P'
--- A
+++ A
@@ -6,3 +6,3 @@
 l6
 l7
-l8
+L8
P
  printf 'p1.patch -p0\np2.patch -p0\n' > series
  "$BIN" push -a -d . --threads $T -q >/dev/null 2>&1; st=$?
  got=$(tr '\n' ' ' < A)
  echo "threads=$T exit=$st applied='$(tr '\n' ' ' < .pc/applied-patches)' A: $got"
  if [ $st -eq 0 ] && [ "$got" != "L1 l2 l3 l4 l5 l6 l7 L8 " ]; then
    echo "  VIOLATION: exit 0 and 2 names recorded, but A does not contain both patches"; rc=1
  fi
done
exit $rc
