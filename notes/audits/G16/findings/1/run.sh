#!/bin/sh
# C16: "-pN removes N components from both names; the file patched is the old
# name if that file exists, otherwise the new name".
# Old name "a/f" has only 2 components, so with -p2 nothing is left of it: no
# such file. The new name "b/c/f" -p2 is "f", which exists and must be patched
# (GNU patch -p2 does: "patching file f"). rapidquilt takes the empty old name
# for an existing file when -d is given (<dir>/"" is the directory itself) and
# dies with EISDIR; without -d (cwd) the very same workspace is patched fine.
RQ=${1:?usage: run.sh <path-to-rapidquilt>}
RQ=$(readlink -f "$RQ")
T=$(mktemp -d) || exit 2
mk() {
    mkdir -p "$1/patches"
    printf 'one\n' > "$1/f"
    cat > "$1/patches/p1.patch" <<'P'
--- a/f
+++ b/c/f
@@ -1 +1 @@
-one
+two
P
    echo 'p1.patch -p2' > "$1/series"
}
mk "$T/with_d"; mk "$T/in_cwd"
"$RQ" push -a -d "$T/with_d" --threads 1 -q > "$T/with_d.out" 2>&1; rc1=$?
(cd "$T/in_cwd" && "$RQ" push -a --threads 1 -q) > "$T/in_cwd.out" 2>&1; rc2=$?
"$RQ" push -a -d "$T/with_d" --threads 3 -q > "$T/with_d3.out" 2>&1; rc3=$?
echo "with -d <dir>: exit=$rc1 f=$(cat "$T/with_d/f")"; sed 's/^/    /' "$T/with_d.out"
echo "with -d <dir> --threads 3: exit=$rc3"
echo "in cwd, no -d: exit=$rc2 f=$(cat "$T/in_cwd/f")"; sed 's/^/    /' "$T/in_cwd.out"
bad=0
[ "$rc1" = 0 ] && [ "$(cat "$T/with_d/f")" = two ] || { echo "VIOLATION: new name 'f' not patched when -d is used (old name stripped to nothing was taken for an existing file)"; bad=1; }
[ "$rc1" = "$rc2" ] || { echo "VIOLATION: result depends on -d <dir> vs. running inside the directory"; bad=1; }
rm -rf "$T"
exit $bad
