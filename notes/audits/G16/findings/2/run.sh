#!/bin/sh
# C16: "-pN: exactly N leading path components removed from both names".
# Names "x/./a/b/f" with -p2: patch(1) removes "x/" and "./" and patches
# a/b/f. rapidquilt counts with Path::components(), which drops "." silently,
# removes "x", ".", "a" (three) and patches the unrelated file b/f.
RQ=${1:?usage: run.sh <path-to-rapidquilt>}
RQ=$(readlink -f "$RQ")
T=$(mktemp -d) || exit 2
mkdir -p "$T/ws/patches" "$T/ws/a/b" "$T/ws/b"
printf 'one\n' > "$T/ws/a/b/f"
printf 'one\n' > "$T/ws/b/f"
cat > "$T/ws/patches/p1.patch" <<'P'
--- x/./a/b/f
+++ x/./a/b/f
@@ -1 +1 @@
-one
+two
P
echo 'p1.patch -p2' > "$T/ws/series"
bad=0
for t in 1 3; do
    rm -rf "$T/run"; cp -a "$T/ws" "$T/run"
    "$RQ" push -a -d "$T/run" --threads $t -q > "$T/out" 2>&1; rc=$?
    echo "threads=$t exit=$rc a/b/f=$(cat "$T/run/a/b/f") b/f=$(cat "$T/run/b/f")"; sed 's/^/    /' "$T/out"
    [ "$(cat "$T/run/b/f")" = one ] || { echo "VIOLATION: b/f was modified (3 components removed instead of 2)"; bad=1; }
    [ "$(cat "$T/run/a/b/f")" = two ] || { echo "VIOLATION: a/b/f was not patched"; bad=1; }
done
if command -v patch >/dev/null 2>&1; then
    rm -rf "$T/run"; cp -a "$T/ws" "$T/run"
    (cd "$T/run" && patch -p2 -f < patches/p1.patch) | sed 's/^/  GNU patch: /'
fi
rm -rf "$T"
exit $bad
