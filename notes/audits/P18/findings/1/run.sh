#!/bin/bash
# C18: writing a modified file fails because of the file size limit (ulimit -f):
# the write raises SIGXFSZ, which rapidquilt leaves at its default action, so the
# process is killed (core dump action) without any message naming the file.
# The property demands: non-zero exit status, a message naming the file, no crash.
# usage: run.sh <path-to-rapidquilt>
BIN=${1:?usage: run.sh <path-to-rapidquilt>}
BIN=$(readlink -f "$BIN")
W=$(mktemp -d) || exit 2
trap 'rm -rf "$W"' EXIT
mkdir -p "$W/ws/patches"
seq 1 400 > "$W/ws/big.txt"                     # 1492 bytes, more than one 1024-byte block
printf -- '--- a/big.txt\n+++ b/big.txt\n@@ -1,2 +1,2 @@\n-1\n+ONE\n 2\n' > "$W/ws/patches/p.patch"
echo p.patch > "$W/ws/series"

bad=0
for threads in 1 2; do
    rm -rf "$W/run"; cp -a "$W/ws" "$W/run"
    ( ulimit -c 0; ulimit -f 1; exec "$BIN" push -a -d "$W/run" --threads $threads ) > "$W/out" 2> "$W/err"
    rc=$?
    echo "threads=$threads: exit status $rc"
    sed 's/^/    stderr: /' "$W/err"
    if [ $rc -ge 128 ]; then
        echo "    VIOLATION: killed by signal $((rc - 128)) ($(kill -l $((rc - 128)))) instead of reporting the failed write"
        bad=1
    elif [ $rc -eq 0 ]; then
        echo "    VIOLATION: exit status 0 although big.txt could not be written"
        bad=1
    fi
    if ! grep -q 'big.txt' "$W/err"; then
        echo "    VIOLATION: no message naming big.txt"
        bad=1
    fi
    if [ -s "$W/run/.pc/applied-patches" ]; then
        echo "    VIOLATION: applied-patches lists $(cat "$W/run/.pc/applied-patches")"
        bad=1
    fi
    echo "    big.txt is now $(stat -c %s "$W/run/big.txt" 2>/dev/null || echo missing) bytes (was 1492)"
done
exit $bad
