#!/bin/bash
# C18 (fault-injector only; no way found to provoke it with permissions or a full disk):
# a patch deletes the only file of directory d, so d has to be removed. If reading d
# fails while rapidquilt checks that it is empty (readdir error after a successful
# opendir: EIO, ESTALE on NFS ...), clean_empty_directories takes the error entry for
# "directory is not empty": d stays, exit status 0, no message, patch recorded as applied.
# The property demands: non-zero exit status and a message naming the directory.
# usage: run.sh <path-to-rapidquilt>        (needs gcc for the 10-line LD_PRELOAD shim)
BIN=${1:?usage: run.sh <path-to-rapidquilt>}
BIN=$(readlink -f "$BIN")
W=$(mktemp -d) || exit 2
trap 'rm -rf "$W"' EXIT
cat > "$W/shim.c" <<'EOF'
#define _GNU_SOURCE
#include <dirent.h>
#include <errno.h>
struct dirent64 *readdir64(DIR *dirp) { (void)dirp; errno = EIO; return 0; }
struct dirent *readdir(DIR *dirp) { (void)dirp; errno = EIO; return 0; }
EOF
gcc -shared -fPIC -o "$W/shim.so" "$W/shim.c" || { echo "cannot build the shim (gcc missing?) - skipped"; exit 77; }

mkdir -p "$W/ws/patches" "$W/ws/d"
echo gone > "$W/ws/d/del.txt"
printf -- '--- a/d/del.txt\n+++ /dev/null\n@@ -1 +0,0 @@\n-gone\n' > "$W/ws/patches/p1.patch"
echo p1.patch > "$W/ws/series"

bad=0
for threads in 1 2; do
    rm -rf "$W/run"; cp -a "$W/ws" "$W/run"
    LD_PRELOAD="$W/shim.so" "$BIN" push -a -d "$W/run" --threads $threads > "$W/out" 2> "$W/err"
    rc=$?
    echo "threads=$threads: exit status $rc, stderr: $(cat "$W/err")"
    if [ -d "$W/run/d" ]; then
        echo "    emptied directory d was not removed (reading it failed with EIO)"
        if [ $rc -eq 0 ]; then
            echo "    VIOLATION: exit status 0"
            bad=1
        fi
        if ! grep -qw 'd' "$W/err"; then
            echo "    VIOLATION: no message naming the directory"
            bad=1
        fi
        if [ -s "$W/run/.pc/applied-patches" ]; then
            echo "    VIOLATION: applied-patches lists $(cat "$W/run/.pc/applied-patches")"
            bad=1
        fi
    fi
done
exit $bad
