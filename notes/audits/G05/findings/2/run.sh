#!/bin/bash
# C05: .pc/applied-patches whose last line has no final newline (hand-edited, written by a
# script with printf, ...) is read fine ("p1.patch is applied"), but the names of this run
# are appended right behind it: "p1.patchp2.patch". The tree holds p1+p2, the file records
# one name that is no patch at all, and every later push refuses to run.
BIN=${1:?usage: run.sh <path-to-rapidquilt>}
BIN=$(readlink -f "$BIN")
W=$(mktemp -d) || exit 2
bad=0
for threads in 1 3; do
    d="$W/w$threads"
    mkdir -p "$d/patches" "$d/.pc"
    printf 'a\nB\nc\n' > "$d/f"          # p1 is applied already
    printf 'p1.patch' > "$d/.pc/applied-patches"      # ... and recorded, without "\n"
    cat > "$d/patches/p1.patch" <<'EOP'
--- a/f
+++ b/f
@@ -1,3 +1,3 @@
 a
-b
+B
 c
EOP
    cat > "$d/patches/p2.patch" <<'EOP'
--- a/f
+++ b/f
@@ -1,3 +1,3 @@
 a
-B
+BB
 c
EOP
    cat > "$d/patches/p3.patch" <<'EOP'
--- a/f
+++ b/f
@@ -1,3 +1,3 @@
 a
-BB
+BBB
 c
EOP
    printf 'p1.patch\np2.patch\np3.patch\n' > "$d/series"
    "$BIN" push -d "$d" --threads $threads -q > "$d.out" 2>&1; rc1=$?
    names=$(grep -c . "$d/.pc/applied-patches")
    echo "threads=$threads: push 1 -> rc=$rc1; f: $(tr '\n' ' ' < "$d/f"); applied-patches has $names line(s): $(tr '\n' '|' < "$d/.pc/applied-patches")"
    "$BIN" push -d "$d" --threads $threads -q > "$d.out2" 2>&1; rc2=$?
    echo "  second push -> rc=$rc2: $(head -1 "$d.out2")"
    # expected: rc 0, two names recorded (p1.patch, p2.patch), second push applies p3
    if [ $rc1 -ne 0 ] || [ "$names" != 2 ] || ! grep -qx 'p2.patch' "$d/.pc/applied-patches" || [ $rc2 -ne 0 ]; then
        echo "  VIOLATION: the tree holds p1+p2, but p2.patch is not among the recorded names"
        bad=1
    fi
done
rm -rf "$W"
exit $bad
