#!/bin/bash
# C05 (borderline, deliberate in the code): a git "rename from A / rename to B" entry whose
# destination B exists with content makes the patch FAIL although it has no failing hunk
# (it has no hunk at all) and no reject file says why. The statement ties k to "the first
# patch having any failing hunk (or the whole range)": here k=0, no hunk failed, range = 1.
# GNU patch 2.7.6 applies the same patch (B is replaced by A).
BIN=${1:?usage: run.sh <path-to-rapidquilt>}
BIN=$(readlink -f "$BIN")
W=$(mktemp -d) || exit 2
bad=0
for threads in 1 3; do
    d="$W/w$threads"
    mkdir -p "$d/patches"
    printf 'a\nb\nc\n' > "$d/A"
    printf 'old B\n' > "$d/B"
    cat > "$d/patches/p1.patch" <<'EOP'
diff --git a/A b/B
similarity index 100%
rename from A
rename to B
EOP
    printf 'p1.patch\n' > "$d/series"
    "$BIN" push -a -d "$d" --threads $threads -q > "$d.out" 2>&1; rc=$?
    rej=$(find "$d" -name '*.rej' | wc -l)
    names=$(grep -c . "$d/.pc/applied-patches" 2>/dev/null)
    echo "threads=$threads: rc=$rc, names recorded: ${names:-0}, reject files: $rej, A $( [ -e "$d/A" ] && echo still there || echo gone )"
    grep -h 'overwrites' "$d.out"
    if [ $rc -ne 0 ] && [ "$rej" = 0 ]; then
        echo "  VIOLATION: push stopped at a patch without any failing hunk (and left no reject)"
        bad=1
    fi
done
if command -v patch >/dev/null; then
    g="$W/gnu"; mkdir "$g"; printf 'a\nb\nc\n' > "$g/A"; printf 'old B\n' > "$g/B"
    (cd "$g" && patch -p1 -f -E < "$W/w1/patches/p1.patch"; echo "  GNU patch: rc=$?, files: $(ls | tr '\n' ' ')")
fi
rm -rf "$W"
exit $bad
