#!/bin/bash
# C05: a reject file that can not be written (name of the patched file + ".rej" longer than
# NAME_MAX, or "<file>.rej" is a directory) makes the push stop AFTER the tree has been
# advanced by the k good patches but BEFORE .pc/applied-patches is written:
# tree = first k patches, names recorded = 0.
BIN=${1:?usage: run.sh <path-to-rapidquilt>}
BIN=$(readlink -f "$BIN")
W=$(mktemp -d) || exit 2
bad=0

mk() {  # $1 = dir, $2 = name of the file the failing patch goes for
    mkdir -p "$1/patches"
    printf 'x\ny\nz\n' > "$1/f2"
    printf 'a\nb\nc\n' > "$1/$2"
    cat > "$1/patches/p1.patch" <<EOP
--- a/f2
+++ b/f2
@@ -1,3 +1,3 @@
 x
-y
+Y
 z
EOP
    cat > "$1/patches/p2.patch" <<EOP
--- a/$2
+++ b/$2
@@ -1,3 +1,3 @@
 a
-NOT THERE
+B
 c
EOP
    printf 'p1.patch\np2.patch\n' > "$1/series"
}

LONG=$(printf 'n%.0s' $(seq 1 253))     # a legal name (253 <= NAME_MAX), but LONG.rej is not
for variant in long rejdir; do
  for threads in 1 3; do
    d="$W/$variant.$threads"
    if [ $variant = long ]; then mk "$d" "$LONG"; else mk "$d" g; mkdir "$d/g.rej"; fi
    "$BIN" push -a -d "$d" --threads $threads -q > "$d.out" 2>&1
    rc=$?
    recorded=$(grep -c . "$d/.pc/applied-patches" 2>/dev/null); recorded=${recorded:-0}
    if grep -q '^Y$' "$d/f2"; then intree=1; else intree=0; fi
    echo "$variant threads=$threads: rc=$rc, p1 in tree: $intree, names recorded: $recorded"
    sed 's/n\{100,\}/<253 x n>/g' "$d.out" | head -3
    if [ "$intree" != "$recorded" ]; then
        echo "  VIOLATION: tree holds $intree patch(es), .pc/applied-patches records $recorded"
        bad=1
    fi
    # what follows from it: the next push starts from patch 1 again
    "$BIN" push -d "$d" --threads $threads -q > "$d.out2" 2>&1
    echo "  next push: rc=$? $(grep -h FAILED "$d.out2" | head -1)"
  done
done
rm -rf "$W"
exit $bad
