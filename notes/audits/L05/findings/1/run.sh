#!/bin/bash
# C05 finding 1: a single push leaves a directory behind that pushing the same
# patches one by one removes.
#
# Starting tree: an empty directory "x". p1 creates x/y/f (so "y" is new),
# p2 deletes x/y/f again. Pushed one by one, p2 removes the file, then the
# emptied directories x/y and x (like patch does). Pushed together, the file
# is never written, the clean-up starts at x/y, finds that it does not exist
# and stops there instead of climbing on to x: x stays.
# Same with every thread count and backup mode.
BIN=${1:?usage: run.sh <path-to-rapidquilt>}
W=$(mktemp -d) || exit 2
trap 'rm -rf "$W"' EXIT

mk() {
    mkdir -p "$1/patches" "$1/x"
    echo keep > "$1/keep"
    cat > "$1/patches/p1.patch" <<'P'
--- /dev/null
+++ b/x/y/f
@@ -0,0 +1 @@
+hello
P
    cat > "$1/patches/p2.patch" <<'P'
--- a/x/y/f
+++ /dev/null
@@ -1 +0,0 @@
-hello
P
    printf 'p1.patch\np2.patch\n' > "$1/series"
}

listing() { (cd "$1" && find . -path ./.pc -prune -o -path ./patches -prune -o -print | sort); }

bad=0
mk "$W/one"
"$BIN" push -q --threads 1 -d "$W/one" || { echo "one-by-one: p1 failed"; exit 2; }
"$BIN" push -q --threads 1 -d "$W/one" || { echo "one-by-one: p2 failed"; exit 2; }
listing "$W/one" > "$W/one.lst"

for threads in 1 2 4; do
    for backup in always onfail never; do
        ws="$W/all-$threads-$backup"
        mk "$ws"
        "$BIN" push -a -q --threads $threads --backup $backup -d "$ws"; rc=$?
        [ $rc = 0 ] || { echo "push -a (threads $threads, backup $backup): exit status $rc"; bad=1; }
        [ "$(cat "$ws/.pc/applied-patches")" = "$(cat "$W/one/.pc/applied-patches")" ] || { echo "applied-patches differ"; bad=1; }
        listing "$ws" > "$ws.lst"
        if ! diff "$W/one.lst" "$ws.lst" > "$ws.diff"; then
            echo "push -a (threads $threads, backup $backup) leaves a different tree than pushing p1, p2 one by one:"
            sed 's/^/    /' "$ws.diff"
            bad=1
        fi
    done
done

if [ $bad = 1 ]; then
    echo "VIOLATION: both patches are recorded as applied, but the tree is not the starting tree with p1 and p2 applied (directory x should be gone)"
    exit 1
fi
echo "no violation"
exit 0
