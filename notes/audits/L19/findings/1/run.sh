#!/bin/bash
# A file name that -pN uses up completely (here: "+++ newfile" under the
# default -p1, and a git rename whose new name is used up) is not refused when
# the push runs in the current directory (no -d, i.e. base_dir ""): the empty
# name is looked up as path "" (ENOENT -> "file does not exist yet"), the patch
# "applies", and only the save fails - after part of the tree has been written
# (or, for the rename, after the source file has been deleted for good).
# With "-d ." the very same push is refused before anything is touched.
# usage: run.sh <path-to-rapidquilt>
BIN=$(readlink -f "$1"); [ -x "$BIN" ] || { echo "usage: $0 <rapidquilt>"; exit 2; }
T=$(mktemp -d) || exit 2
trap 'rm -rf "$T"' EXIT
bad=0

mk() { # $1 = dir
  mkdir -p "$1/patches"; ( cd "$1"
  for n in f g h i j; do echo a > $n; done
  { for n in f g h; do printf -- '--- a/%s\n+++ b/%s\n@@ -1 +1 @@\n-a\n+b\n' $n $n; done
    printf -- '--- /dev/null\n+++ newfile\n@@ -0,0 +1 @@\n+x\n'      # -p1 leaves nothing of "newfile"
    for n in i j; do printf -- '--- a/%s\n+++ b/%s\n@@ -1 +1 @@\n-a\n+b\n' $n $n; done
  } > patches/p.patch
  echo 'p.patch' > series )
}
state() { ( cd "$1" && for n in f g h i j; do printf '%s=%s ' $n "$(cat $n 2>/dev/null || echo MISSING)"; done; ls -A | tr '\n' ' ' ); }

echo "== A: creation of a used-up name among modifications"
for th in 1 2; do
  mk $T/a$th; before=$(state $T/a$th)
  ( cd $T/a$th && "$BIN" push -a --threads $th ) > $T/log 2>&1; rc=$?
  after=$(state $T/a$th)
  echo "threads=$th no -d : rc=$rc"; sed 's/^/    /' $T/log
  echo "    before: $before"; echo "    after : $after"
  if [ $rc -ne 0 ] && [ "$before" != "$after" ]; then echo "    VIOLATION: push failed but left a half-patched tree (nothing in .pc/applied-patches, no backups)"; bad=1; fi
  if grep -q panicked $T/log; then echo "    VIOLATION: panic"; bad=1; fi

  mk $T/b$th; before=$(state $T/b$th)
  ( cd $T/b$th && "$BIN" push -a -d . --threads $th ) > $T/log 2>&1; rc=$?
  after=$(state $T/b$th)
  echo "threads=$th -d .  : rc=$rc  ($(tail -1 $T/log))"
  [ "$before" = "$after" ] && echo "    (clean: tree untouched - this is what the run without -d should do as well)"
done

echo "== B: git rename onto a used-up name: the source file is lost"
mkdir -p $T/c/patches; ( cd $T/c; echo precious > f
  printf 'diff --git a/f ""\nrename from a/f\nrename to x\n' > patches/p.patch; echo 'p.patch -p1' > series
  "$BIN" push -a --threads 1 ) > $T/log 2>&1; rc=$?
echo "rc=$rc"; sed 's/^/    /' $T/log; echo "    tree: $(ls -A $T/c | tr '\n' ' ')"
if [ $rc -ne 0 ] && [ ! -e $T/c/f ] && ! grep -rqs precious $T/c --exclude-dir=patches; then
  echo "    VIOLATION: push failed, file f is deleted and its content is nowhere (no backup, no new file)"; bad=1
fi
exit $bad
