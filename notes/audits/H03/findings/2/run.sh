#!/bin/bash
# C03 finding 2: one file reached under two names (through a symbolic link to
# its directory, or to the file itself) is loaded twice and saved twice within
# one push. Both patches are reported applied (exit 0, both in
# .pc/applied-patches), but the file holds the hunks of only one of them; pushed
# one patch at a time, the same series gives the file with both changes (as GNU
# patch does).
# usage: run.sh <path-to-rapidquilt>; exits 1 when the violation shows.
RQ=${1:?usage: run.sh <path-to-rapidquilt>}
RQ=$(readlink -f "$RQ")
T=$(mktemp -d) || exit 2
trap 'rm -rf "$T"' EXIT
bad=0

mk() {
    W=$1; mkdir -p $W/patches $W/real
    ln -s real $W/link
    printf '1\n2\n3\n4\n5\n6\n7\n8\n' > $W/real/f
    cat > $W/patches/p1.patch <<'P'
--- a/real/f
+++ b/real/f
@@ -1,3 +1,3 @@
 1
-2
+two
 3
P
    cat > $W/patches/p2.patch <<'P'
--- a/link/f
+++ b/link/f
@@ -6,3 +6,3 @@
 6
-7
+seven
 8
P
    printf 'p1.patch\np2.patch\n' > $W/series
}
want='1 two 3 4 5 6 seven 8 '

for threads in 1 2; do
    mk $T/oneshot$threads
    "$RQ" push -a -d $T/oneshot$threads --threads $threads -q; rc=$?
    got=$(tr '\n' ' ' < $T/oneshot$threads/real/f)
    echo "one push, threads=$threads: rc=$rc applied=$(tr '\n' ' ' < $T/oneshot$threads/.pc/applied-patches) real/f = $got"
    if [ $rc -eq 0 ] && [ "$got" != "$want" ]; then
        echo "  VIOLATION: both patches reported applied, but the file lacks the hunk of one of them"; bad=1
    fi
done

mk $T/step
"$RQ" push 1 -d $T/step -q && "$RQ" push 1 -d $T/step -q; rc=$?
echo "two pushes:            rc=$rc real/f = $(tr '\n' ' ' < $T/step/real/f)"

exit $bad
