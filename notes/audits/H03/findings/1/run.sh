#!/bin/bash
# C03 finding 1: a hunk whose last added line carries "\ No newline at end of
# file" is placed in the middle of the file (context-free hunk, or context eaten
# by fuzz), resp. a hunk appends after an unterminated last line. The push
# reports success, but an unmarked neighbouring line is glued to the added one:
# it is no longer a line of the file.
# usage: run.sh <path-to-rapidquilt>; exits 1 when the violation shows.
RQ=${1:?usage: run.sh <path-to-rapidquilt>}
RQ=$(readlink -f "$RQ")
T=$(mktemp -d) || exit 2
trap 'rm -rf "$T"' EXIT
bad=0

# --- case A: multi-hunk `diff -U0` of  "a\nb\nc\n" -> "A\nb\nC" (no final newline),
#     applied (offset 0, fuzz 0) to a file that has two more lines at its end.
W=$T/A; mkdir -p $W/patches
printf 'a\nb\nc\nd\ne\n' > $W/f
cat > $W/patches/p.patch <<'P'
--- a/f
+++ b/f
@@ -1 +1 @@
-a
+A
@@ -3 +3 @@
-c
+C
\ No newline at end of file
P
echo p.patch > $W/series
for threads in 1 3; do
    cp -a $W $W.$threads
    "$RQ" push -a -d $W.$threads --threads $threads -q; rc=$?
    echo "case A threads=$threads: rc=$rc, f is:"; cat -A $W.$threads/f
    # the hunks do not mention line "d": it must still be a line of the file
    if [ $rc -eq 0 ] && ! grep -qx 'd' $W.$threads/f; then
        echo "  VIOLATION: push succeeded, but the unmarked line 'd' is gone (glued to the added line)"; bad=1
    fi
done

# --- case B: one-line file (so even `diff -u` has no context), new version loses its newline
W=$T/B; mkdir -p $W/patches
printf 'v1\nextra\n' > $W/VERSION
cat > $W/patches/p.patch <<'P'
--- a/VERSION
+++ b/VERSION
@@ -1 +1 @@
-v1
+v2
\ No newline at end of file
P
echo p.patch > $W/series
"$RQ" push -a -d $W --threads 1 -q; rc=$?
echo "case B: rc=$rc, VERSION is:"; cat -A $W/VERSION
if [ $rc -eq 0 ] && ! grep -qx 'extra' $W/VERSION; then
    echo "  VIOLATION: push succeeded, but the unmarked line 'extra' is gone"; bad=1
fi

# --- case C: with context, the context is eaten by --fuzz 1, reversed direction
W=$T/C; mkdir -p $W/patches
printf 'k\nC\nd\n' > $W/f       # tree: "C" followed by another line
cat > $W/patches/p.patch <<'P'
--- a/f
+++ b/f
@@ -2,2 +2,2 @@
 b
-c
\ No newline at end of file
+C
P
echo 'p.patch -R' > $W/series
"$RQ" push -a -d $W --threads 1 --fuzz 1 -q >/dev/null; rc=$?
echo "case C (-R, --fuzz 1): rc=$rc, f is:"; cat -A $W/f; echo
if [ $rc -eq 0 ] && ! grep -qx 'd' $W/f; then
    echo "  VIOLATION: push succeeded, but the unmarked line 'd' is gone"; bad=1
fi

# --- case D: appending behind an unterminated last line (`diff -U0` of "a\nb\n" -> "a\nb\nc\n")
W=$T/D; mkdir -p $W/patches
printf 'a\nb' > $W/f
cat > $W/patches/p.patch <<'P'
--- a/f
+++ b/f
@@ -0,0 +1 @@
+top
@@ -2,0 +4 @@
+c
P
echo p.patch > $W/series
"$RQ" push -a -d $W --threads 1 -q; rc=$?
echo "case D: rc=$rc, f is:"; cat -A $W/f
if [ $rc -eq 0 ] && ! grep -qx 'c' $W/f; then
    echo "  VIOLATION: push succeeded, but neither the unmarked line 'b' nor the added line 'c' is a line of the file"; bad=1
fi

exit $bad
