#!/bin/bash
# C18, clause "a message naming the file": a failure to write .pc/applied-patches
# (or to create .pc) is reported as "When saving applied patches." + the bare OS
# error; neither ".pc" nor "applied-patches" nor any path appears in the message.
# Usage: run.sh <path-to-rapidquilt>     exits 1 when the violation shows
BIN=$(readlink -f "$1"); [ -x "$BIN" ] || { echo "usage: $0 <rapidquilt binary>"; exit 2; }
T=$(mktemp -d); trap 'rm -rf "$T"' EXIT
viol=0

mk() {  # mk <dir>
  mkdir -p "$1/patches"
  printf 'l1\nl2\nl3\n' > "$1/a.txt"
  cat > "$1/patches/p1.patch" <<'P'
--- a/a.txt
+++ b/a.txt
@@ -1,3 +1,3 @@
 l1
-l2
+L2
 l3
P
  echo p1.patch > "$1/series"
}

check() {  # check <label> <dir> <threads>
  ( cd "$2" && "$BIN" push -a -d . --threads "$3" >"$T/out" 2>"$T/err" ); rc=$?
  echo "--- $1 (threads $3): rc=$rc"; sed 's/^/    stderr| /' "$T/err"
  if [ $rc -eq 0 ]; then echo "    VIOLATION: exit status 0"; viol=1; fi
  if grep -q 'panicked' "$T/err"; then echo "    VIOLATION: panic"; viol=1; fi
  if ! grep -Eq '\.pc|applied-patches' "$T/err"; then
    echo "    VIOLATION: message names neither .pc nor applied-patches"; viol=1
  fi
}

for th in 1 2; do
  # (a) .pc cannot be created: a regular file is in the way
  W="$T/a$th"; mk "$W"; : > "$W/.pc"
  check ".pc is a regular file" "$W" $th
  # (b) .pc/applied-patches cannot be opened for appending: it is a directory
  W="$T/b$th"; mk "$W"; mkdir -p "$W/.pc/applied-patches"
  check ".pc/applied-patches is a directory" "$W" $th
done
exit $viol
