#!/bin/bash
# C18, clauses "exits with non-zero status" / "does not append ... any patch whose
# files were not all written": an error that the OS reports when an output file is
# close()d (deferred write-back error: NFS/FUSE EIO, EDQUOT, ENOSPC) is ignored,
# because every output File is simply dropped and nothing calls sync_all().
# The run exits 0 and records the patch in .pc/applied-patches.
# Local file systems never fail close(), so the fault is injected with a tiny
# LD_PRELOAD shim (needs gcc): close() of the K-th output file returns EIO.
# Usage: run.sh <path-to-rapidquilt>     exits 1 when the violation shows
BIN=$(readlink -f "$1"); [ -x "$BIN" ] || { echo "usage: $0 <rapidquilt binary>"; exit 2; }
command -v gcc >/dev/null || { echo "gcc needed for the fault injection shim"; exit 2; }
T=$(mktemp -d); trap 'rm -rf "$T"' EXIT
cat > "$T/shim.c" <<'C'
#define _GNU_SOURCE
#include <dlfcn.h>
#include <errno.h>
#include <fcntl.h>
#include <stdio.h>
#include <stdlib.h>
#include <string.h>
#include <unistd.h>
#include <sys/syscall.h>
static int n;
int close(int fd) {
    static int (*real)(int); if (!real) real = dlsym(RTLD_NEXT, "close");
    int fl = fcntl(fd, F_GETFL);
    if (fd > 2 && fl != -1 && (fl & O_ACCMODE) != O_RDONLY) {      /* an output file */
        char p[64], path[4096]; snprintf(p, sizeof p, "/proc/self/fd/%d", fd);
        ssize_t r = readlink(p, path, sizeof path - 1); if (r < 0) r = 0; path[r] = 0;
        const char *ws = getenv("FI_WS");
        if (ws && !strncmp(path, ws, strlen(ws))) {
            int k = __sync_add_and_fetch(&n, 1);
            const char *want = getenv("FI_K");
            if (want && k == atoi(want)) {
                fprintf(stderr, "SHIM: close(%s) fails with EIO\n", path);
                real(fd); errno = EIO; return -1;
            }
        }
    }
    return real(fd);
}
C
gcc -shared -fPIC -o "$T/shim.so" "$T/shim.c" -ldl || exit 2

mk() {
  mkdir -p "$1/patches"
  printf 'l1\nl2\nl3\n' > "$1/a.txt"
  cat > "$1/patches/p1.patch" <<'P'
--- a/a.txt
+++ b/a.txt
@@ -1,3 +1,3 @@
 l1
-l2
+L2
 l3
--- /dev/null
+++ b/new/x.txt
@@ -0,0 +1 @@
+x1
P
  echo p1.patch > "$1/series"
}

viol=0
for th in 1 2; do
  # output files of this run: a.txt, new/x.txt, 2 backups, applied-patches
  for k in 1 2 3 4 5; do
    W="$T/w$th$k"; mk "$W"; WS=$(readlink -f "$W")
    ( cd "$W" && FI_WS="$WS" FI_K=$k LD_PRELOAD="$T/shim.so" "$BIN" push -a -d . --threads $th --backup always -q >"$T/out" 2>"$T/err" ); rc=$?
    inj=$(grep '^SHIM:' "$T/err")
    [ -z "$inj" ] && continue
    ap=$(tr '\n' ' ' < "$W/.pc/applied-patches" 2>/dev/null)
    echo "threads=$th k=$k  $inj  -> rc=$rc applied-patches=[$ap]"
    if [ $rc -eq 0 ]; then echo "    VIOLATION: output failure reported as success"; viol=1; fi
    case "$inj" in *applied-patches*) ;; *) if [ -n "$ap" ]; then echo "    VIOLATION: p1.patch recorded as applied"; viol=1; fi;; esac
  done
done
exit $viol
