#!/bin/bash
# C08 finding 4: progress messages are printed with println! between saving the
# tree and writing the quilt metadata. If stdout is a pipe whose reader has gone
# (`rapidquilt push -a | head -n 2`), println! panics with EPIPE: the tree is
# fully patched, but there are no backups (--backup always) and no
# .pc/applied-patches; exit status 101.
BIN=$(readlink -f "${1:?usage: run.sh <rapidquilt binary>}")
T=$(mktemp -d); trap 'rm -rf "$T"' EXIT
bad=0
for t in 1 2; do
  W=$T/w$t; mkdir -p $W/patches; : > $W/patches/a.patch
  for i in $(seq 1 400); do
    printf 'a\n' > $W/f$i
    printf -- '--- a/f%d\n+++ b/f%d\n@@ -1 +1 @@\n-a\n+A\n' $i $i >> $W/patches/a.patch
  done
  echo a.patch > $W/series
  "$BIN" push -a -d $W --backup always --threads $t 2>$T/err | head -n 2 >/dev/null
  rc=${PIPESTATUS[0]}
  patched=$(grep -lx A $W/f* | wc -l)
  ap=$(cat $W/.pc/applied-patches 2>/dev/null || echo '<missing>')
  nb=$(find $W/.pc/a.patch -type f 2>/dev/null | wc -l)
  echo "threads=$t rc=$rc files patched=$patched/400 applied-patches=$ap backups=$nb  ($(grep -m1 -o 'failed printing to stdout.*' $T/err))"
  if [ "$patched" -gt 0 ] && [ "$ap" != a.patch ]; then echo "  VIOLATION: tree is patched but applied-patches does not say so and the requested backups are missing"; bad=1; fi
done
exit $bad
