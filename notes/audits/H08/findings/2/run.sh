#!/bin/bash
# C08 finding 2: "./f" and "f" are two different keys in ModifiedFiles. Two
# patches of one push naming the same file as ./f (-p0) and a/f (-p1) each work
# on their own copy loaded from disk: push exits 0, applied-patches lists both,
# but the tree lacks one of them and .pc/b.patch/f is not "f before b.patch".
BIN=$(readlink -f "${1:?usage: run.sh <rapidquilt binary>}")
T=$(mktemp -d); trap 'rm -rf "$T"' EXIT
bad=0
mk() {
    W=$1; mkdir -p $W/patches
    seq 1 10 > $W/f
    cat > $W/patches/a.patch <<'P'
--- ./f
+++ ./f
@@ -1,3 +1,3 @@
 1
-2
+two
 3
P
    cat > $W/patches/b.patch <<'P'
--- a/f
+++ b/f
@@ -8,3 +8,3 @@
 8
-9
+nine
 10
P
    printf 'a.patch -p0\nb.patch\n' > $W/series
}
# reference: one patch per invocation
mk $T/ref
"$BIN" push 1 -d $T/ref --backup always -q --threads 1 && "$BIN" push 1 -d $T/ref --backup always -q --threads 1 || echo "reference push failed?"
for t in 1 2; do
    mk $T/w$t
    "$BIN" push -a -d $T/w$t --backup always --backup-count all -q --threads $t; rc=$?
    echo "threads=$t rc=$rc applied-patches=$(tr '\n' ' ' < $T/w$t/.pc/applied-patches) f=$(tr '\n' ' ' < $T/w$t/f)"
    if ! cmp -s $T/w$t/f $T/ref/f; then echo "  VIOLATION: applied-patches lists both patches but the tree is not the tree with both applied (expected: $(tr '\n' ' ' < $T/ref/f))"; bad=1; fi
    if ! cmp -s $T/w$t/.pc/b.patch/f $T/ref/.pc/b.patch/f; then echo "  VIOLATION: .pc/b.patch/f = $(tr '\n' ' ' < $T/w$t/.pc/b.patch/f) but f immediately before b.patch was $(tr '\n' ' ' < $T/ref/.pc/b.patch/f)"; bad=1; fi
done
exit $bad
