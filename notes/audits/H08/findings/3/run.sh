#!/bin/bash
# C08 finding 3: a rename does not remember/restore the state of its
# destination (ModifiedFile::move_in/move_out only shuffle the `deleted` flag
# and take the permissions):
#  (a) destination is an existing empty file with mode 0750 -> its backup gets the default mode
#  (b) patch with such a rename FAILS on another file -> rollback deletes the existing empty destination
#  (c) rename whose source and destination both do not exist "applies"; when the patch
#      fails elsewhere the rollback leaves a new empty destination file in the tree
# In (b),(c) nothing is applied (applied-patches empty) but the tree changed.
BIN=$(readlink -f "${1:?usage: run.sh <rapidquilt binary>}")
T=$(mktemp -d); trap 'rm -rf "$T"' EXIT
umask 022
bad=0
ren() { printf 'diff --git a/%s b/%s\nsimilarity index 100%%\nrename from %s\nrename to %s\n' $1 $2 $1 $2; }
failing() { printf 'diff --git a/g b/g\n--- a/g\n+++ b/g\n@@ -1 +1 @@\n-nomatch\n+B\n'; }
for t in 1 3; do
  # (a)
  W=$T/a$t; mkdir -p $W/patches; printf 'a\nb\n' > $W/f; : > $W/e; chmod 750 $W/e
  ren f e > $W/patches/a.patch; echo a.patch > $W/series
  "$BIN" push -a -d $W --backup always -q --threads $t; rc=$?
  m=$(stat -c %a $W/.pc/a.patch/e)
  echo "(a) threads=$t rc=$rc backup of e: mode=$m size=$(stat -c %s $W/.pc/a.patch/e) (e was an empty file with mode 750)"
  [ "$m" = 750 ] || { echo "    VIOLATION: backup mode $m, file had 750"; bad=1; }
  # (b)
  W=$T/b$t; mkdir -p $W/patches; printf 'a\nb\n' > $W/f; : > $W/e; chmod 750 $W/e; echo x > $W/g
  { ren f e; failing; } > $W/patches/a.patch; echo a.patch > $W/series
  "$BIN" push -a -d $W --backup always -q --threads $t 2>/dev/null; rc=$?
  echo "(b) threads=$t rc=$rc applied-patches='$(cat $W/.pc/applied-patches)' tree: $(cd $W; ls | grep -v 'patches\|series' | tr '\n' ' ')"
  [ -e $W/e ] || { echo "    VIOLATION: no patch applied, but the existing empty file e is gone"; bad=1; }
  # (c)
  W=$T/c$t; mkdir -p $W/patches; echo x > $W/g
  { ren zz yy; failing; } > $W/patches/a.patch; echo a.patch > $W/series
  "$BIN" push -a -d $W --backup always -q --threads $t 2>/dev/null; rc=$?
  echo "(c) threads=$t rc=$rc applied-patches='$(cat $W/.pc/applied-patches)' tree: $(cd $W; ls | grep -v 'patches\|series' | tr '\n' ' ')"
  [ ! -e $W/yy ] || { echo "    VIOLATION: no patch applied, but a new empty file yy appeared"; bad=1; }
done
exit $bad
