#!/bin/bash
# C08 finding 1: a backup file that is written twice (patch with two entries
# for one file) is rewritten IN PLACE (File::create on the existing backup):
#  (a) its mode is not reset when the older state has no recorded mode -> wrong mode
#  (b) a non-root user gets EACCES when the file is read-only -> push aborts
#      after the tree was saved, backup holds the intermediate content,
#      applied-patches is not written.
# usage: run.sh <path-to-rapidquilt>
BIN=$(readlink -f "${1:?usage: run.sh <rapidquilt binary>}")
T=$(mktemp -d); trap 'rm -rf "$T"' EXIT
umask 022
bad=0

# ---------- (a) wrong mode --------------------------------------------------
W=$T/a; mkdir -p $W/patches
printf 'a\n' > $W/f
cat > $W/patches/p1.patch <<'P'
--- /dev/null
+++ b/n
@@ -0,0 +1,2 @@
+one
+two
P
cat > $W/patches/p2.patch <<'P'
diff --git a/n b/n
old mode 100644
new mode 100755
diff --git a/n b/n
--- a/n
+++ b/n
@@ -1,2 +1,2 @@
 one
-two
+TWO
P
printf 'p1.patch\np2.patch\n' > $W/series
"$BIN" push -a -d $W --backup always --threads 1 -q || { echo "unexpected push failure"; }
# n was created by p1 with mode 0644 (umask 022); that is its mode right before p2
mode=$(stat -c %a $W/.pc/p2.patch/n)
echo "(a) .pc/p2.patch/n mode=$mode (file n had 644 immediately before p2; content: $(tr '\n' ' ' < $W/.pc/p2.patch/n))"
if [ "$mode" != 644 ]; then echo "(a) VIOLATION: backup mode $mode != 644"; bad=1; fi
# the same series pushed one patch per invocation gives the right mode:
W2=$T/a2; mkdir -p $W2; cp -a $W/patches $W/series $W2/; printf 'a\n' > $W2/f
"$BIN" push 1 -d $W2 --backup always --threads 1 -q; "$BIN" push 1 -d $W2 --backup always --threads 1 -q
echo "(a) split into two invocations: mode=$(stat -c %a $W2/.pc/p2.patch/n)"

# ---------- (b) EACCES for a non-root user -----------------------------------
W=$T/b; mkdir -p $W/patches
printf 'r\n' > $W/r; chmod 444 $W/r
cat > $W/patches/a.patch <<'P'
--- a/r
+++ b/r
@@ -1 +1 @@
-r
+R
--- a/r
+++ b/r
@@ -1 +1 @@
-R
+RR
P
echo a.patch > $W/series
cp "$BIN" $T/rq; chmod 755 $T/rq $T
run() { "$@"; }
if [ "$(id -u)" = 0 ]; then
    if command -v setpriv >/dev/null; then
        chown -R 65534:65534 $W
        run() { setpriv --reuid=65534 --regid=65534 --clear-groups "$@"; }
    else
        echo "(b) skipped: running as root and no setpriv to drop privileges"; exit $bad
    fi
fi
run $T/rq push -a -d $W --backup always --threads 1 -q; rc=$?
echo "(b) rc=$rc  r=$(cat $W/r)  backup=$(cat $W/.pc/a.patch/r 2>/dev/null)  applied-patches=$(cat $W/.pc/applied-patches 2>/dev/null || echo '<missing>')"
if [ $rc != 0 ] || [ "$(cat $W/.pc/a.patch/r 2>/dev/null)" != r ] || [ "$(cat $W/.pc/applied-patches 2>/dev/null)" != a.patch ]; then
    echo "(b) VIOLATION: push of a good patch fails / backup is not the pre-patch content / applied-patches does not match the tree"; bad=1
fi
exit $bad
