#!/bin/bash
# C15 finding 1: reject files are written IN PLACE (File::create = O_TRUNC on the
# existing inode), so a hard-linked twin of an existing "<file>.rej" - a file that
# no patch names - loses its content.  Variant: if "<file>.rej" is a symlink, the
# reject text is written through it into whatever tree file it points to.
# usage: run.sh <path-to-rapidquilt>   (exit 1 = violation shown)
BIN=$(readlink -f "${1:?usage: run.sh <path-to-binary>}")
W=$(mktemp -d) || exit 2
trap 'rm -rf "$W"' EXIT
bad=0
for opts in "" "--threads 3" "--mmap" "--mmap --threads 2 --backup always"; do
  rm -rf "$W/work" "$W/twin"
  mkdir -p "$W/work/patches"
  cd "$W/work" || exit 2
  printf 'a\nb\nc\n' > f
  printf 'left over from an earlier attempt\n' > f.rej
  printf 'other\n' > other
  ln -s other g.rej            # variant: reject name is a symlink to a tree file
  printf 'x\n' > g
  cat > patches/p1.patch <<'P'
--- a/f
+++ b/f
@@ -1,3 +1,3 @@
 a
-NOMATCH
+B
 c
--- a/g
+++ b/g
@@ -1 +1 @@
-NOMATCH
+X
P
  echo p1.patch > series
  cd "$W" || exit 2
  cp -al work twin
  before=$(cat twin/f.rej); before_other=$(cat twin/other)
  "$BIN" push -a -d work $opts >/dev/null 2>&1
  rc=$?
  [ $rc -eq 1 ] || { echo "[$opts] unexpected exit status $rc"; }
  if [ "$(cat twin/f.rej)" != "$before" ]; then
    echo "[$opts] VIOLATION: twin/f.rej (hard link of a file no patch names) was overwritten in place:"
    sed 's/^/    /' twin/f.rej
    bad=1
  fi
  if [ "$(stat -c %i work/f.rej)" = "$(stat -c %i twin/f.rej)" ]; then
    echo "[$opts] VIOLATION: work/f.rej still shares its inode with twin/f.rej after being rewritten"
    bad=1
  fi
  if [ "$(cat twin/other)" != "$before_other" ]; then
    echo "[$opts] VIOLATION: twin/other (never named by a patch) was overwritten through the symlink g.rej"
    bad=1
  fi
done
exit $bad
