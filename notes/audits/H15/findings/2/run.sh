#!/bin/bash
# C15 finding 2: .pc/applied-patches is appended to IN PLACE.  A `cp -al` twin of a
# partly pushed workspace shares that inode, so a later push in the original makes
# the twin claim patches as applied that its files do not contain; a push in the
# twin then reports "nothing to do" and leaves the twin unpatched.
# usage: run.sh <path-to-rapidquilt>   (exit 1 = violation shown)
BIN=$(readlink -f "${1:?usage: run.sh <path-to-binary>}")
W=$(mktemp -d) || exit 2
trap 'rm -rf "$W"' EXIT
bad=0
for opts in "" "--threads 3" "--mmap --backup always"; do
  rm -rf "$W/work" "$W/twin"
  mkdir -p "$W/work/patches"
  cd "$W/work" || exit 2
  printf 'a\n' > f; printf 'b\n' > g
  printf -- '--- a/f\n+++ b/f\n@@ -1 +1 @@\n-a\n+A\n' > patches/p1.patch
  printf -- '--- a/g\n+++ b/g\n@@ -1 +1 @@\n-b\n+B\n' > patches/p2.patch
  printf 'p1.patch\np2.patch\n' > series
  cd "$W" || exit 2
  "$BIN" push 1 -d work $opts -q || { echo "first push failed"; exit 2; }
  cp -al work twin
  before=$(cat twin/.pc/applied-patches)
  "$BIN" push 1 -d work $opts -q || { echo "second push failed"; exit 2; }
  after=$(cat twin/.pc/applied-patches)
  if [ "$before" != "$after" ]; then
    echo "[$opts] VIOLATION: twin/.pc/applied-patches changed from [$before] to [$(echo $after)]"
    bad=1
  fi
  # consequence: the twin can no longer be pushed
  "$BIN" push -a -d twin $opts -q; rc=$?
  if [ "$(cat twin/g)" != "B" ]; then
    echo "[$opts] consequence: push -a in the twin exits $rc but twin/g is still '$(cat twin/g)' (p2 never applied there)"
    bad=1
  fi
done
exit $bad
