#!/bin/bash
# C01: `diff -ruN` of a tree whose files are dated to the epoch (mtime 0, as in
# ostree checkouts or archives made with --mtime=@0): the entry that DELETES a
# file carries the epoch on both header lines. rapidquilt empties the file
# instead of removing it (GNU patch 2.7.6 removes it); the same patch with -R
# on the other tree is fine, but the CREATING entry of such a tree pushed with
# -R leaves an empty file instead of removing it.
BIN=${1:?usage: run.sh <path-to-rapidquilt>}
BIN=$(readlink -f "$BIN")
W=$(mktemp -d) || exit 2
cd "$W" || exit 2
export TZ=UTC
bad=0

# --- forward: A present (mtime 0), B absent
mkdir -p a/d b fw/patches
printf 'one\ntwo\n' > a/d/f
touch -d @0 a/d/f
diff -ruN a b > fw/patches/del.patch
cp -r a/d fw/d
echo "del.patch -p1" > fw/series
"$BIN" push -a -d fw --threads ${THREADS:-1} -q; rc=$?
echo "forward: rc=$rc, tree: $(cd fw && find . -path ./patches -prune -o -path ./.pc -prune -o -print | sort | tr '\n' ' ')"
if [ $rc -ne 0 ] || [ -e fw/d/f ] || [ -e fw/d ]; then
    echo "VIOLATION: A->absent diff pushed on A leaves $(ls -l fw/d/f 2>&1)"
    bad=1
fi

# --- reverse: creating entry of the same kind of tree, pushed with -R onto B
mkdir -p c e/d rv/patches
printf 'one\ntwo\n' > e/d/f
touch -d @0 e/d/f
diff -ruN c e > rv/patches/new.patch
cp -r e/d rv/d
echo "new.patch -p1 -R" > rv/series
"$BIN" push -a -d rv --threads ${THREADS:-1} -q; rc=$?
echo "reverse: rc=$rc, tree: $(cd rv && find . -path ./patches -prune -o -path ./.pc -prune -o -print | sort | tr '\n' ' ')"
if [ $rc -ne 0 ] || [ -e rv/d/f ] || [ -e rv/d ]; then
    echo "VIOLATION: absent->B diff pushed with -R on B leaves $(ls -l rv/d/f 2>&1)"
    bad=1
fi

echo "--- the deleting patch:"; cat fw/patches/del.patch
cd / && rm -rf "$W"
exit $bad
