#!/bin/bash
# C13: "... contains exactly the failed hunks ... with their original line content and line numbers."
# A failed hunk whose header names line 0 on a side that has lines ("@@ -0,3 +0,3 @@")
# comes out of the reject file as "@@ -1,3 +1,3 @@" (GNU patch 2.7.6 keeps "-0,3 +0,3").
# usage: run.sh <path-to-rapidquilt>; exits 1 when the violation shows.
RQ=${1:?usage: run.sh <path-to-rapidquilt>}
RQ=$(readlink -f "$RQ")
W=$(mktemp -d) || exit 2
cd "$W" || exit 2
mkdir patches
printf 'a\nb\nc\n' > f
cat > patches/p1.patch <<'EOF'
--- a/f
+++ b/f
@@ -0,3 +0,3 @@
 a
-x
+y
 c
EOF
echo p1.patch > series
status=0
for t in 1 3; do
    rm -rf .pc f.rej
    "$RQ" push -a -d . -q --threads $t >/dev/null 2>&1
    [ -f f.rej ] || { echo "threads=$t: no f.rej at all"; status=2; continue; }
    want=$(grep '^@@' patches/p1.patch)
    got=$(grep '^@@' f.rej)
    if [ "$want" != "$got" ]; then
        echo "threads=$t: VIOLATION: hunk header in patch: '$want'  in f.rej: '$got'"
        status=1
    fi
done
[ $status = 0 ] && echo "no violation"
rm -rf "$W"
exit $status
