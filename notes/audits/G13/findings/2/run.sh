#!/bin/bash
# C13 (borderline): the push stops at a patch whose only entry renames f to g and has a
# hunk for it; g exists. The entry is refused ("... overwrites existing file!"), its hunk is
# neither applied nor rejected: the push fails at P and there is no reject file at all
# (neither f.rej nor g.rej) - unlike "create over existing", which yields a reject.
# usage: run.sh <path-to-rapidquilt>; exits 1 when the behaviour shows.
RQ=${1:?usage: run.sh <path-to-rapidquilt>}
RQ=$(readlink -f "$RQ")
W=$(mktemp -d) || exit 2
cd "$W" || exit 2
mkdir patches
printf 'a\nb\nc\n' > f
printf 'k\nl\nm\n' > g
cat > patches/p1.patch <<'EOF'
diff --git a/f b/g
rename from f
rename to g
--- a/f
+++ b/g
@@ -1,3 +1,3 @@
 a
-b
+B
 c
EOF
echo p1.patch > series
status=0
for t in 1 3; do
    rm -rf .pc ./*.rej
    "$RQ" push -a -d . -q --threads $t >out.txt 2>&1
    rc=$?
    if [ $rc -ne 0 ] && ! ls ./*.rej >/dev/null 2>&1; then
        echo "threads=$t: push stopped at p1.patch (exit $rc), hunk of f not applied, but no reject file:"
        sed 's/^/    /' out.txt
        status=1
    fi
done
[ $status = 0 ] && echo "no violation"
rm -rf "$W"
exit $status
