#!/bin/bash
# Finding 1: a directory queued for cleaning that has become a regular file
# makes the push fail ("a: Not a directory") although every file was written;
# nothing is recorded. Pushing the same patches one by one succeeds.
B=$(readlink -f "$1"); W=$(mktemp -d); trap 'rm -rf "$W"' EXIT
mk() { mkdir -p "$1/patches"; ( cd "$1"
printf 'p1.patch\np2.patch\np3.patch\n' > series
printf -- '--- /dev/null\n+++ b/a/f\n@@ -0,0 +1 @@\n+one\n' > patches/p1.patch
printf -- '--- a/a/f\n+++ /dev/null\n@@ -1 +0,0 @@\n-one\n' > patches/p2.patch
printf -- '--- /dev/null\n+++ b/a\n@@ -0,0 +1 @@\n+file\n' > patches/p3.patch ); }
mk "$W/all"; mk "$W/one"
for i in 1 2 3; do "$B" push -d "$W/one" --threads 1 -q >/dev/null 2>&1 || { echo "one-by-one push failed (unexpected)"; exit 0; }; done
"$B" push -a -d "$W/all" --threads 1 > "$W/out" 2>&1; rc=$?
cat "$W/out"
if [ $rc -ne 0 ] && [ "$(cat "$W/all/a" 2>/dev/null)" = "file" ] && [ ! -e "$W/all/.pc/applied-patches" ]; then
  echo "PROBLEM: push -a exit $rc, tree fully written (a='file'), nothing recorded; one-by-one push recorded: $(tr '\n' ' ' < "$W/one/.pc/applied-patches")"
  exit 1
fi
echo "ok (exit $rc)"; exit 0
