#!/bin/bash
# Finding 2: EFBIG while appending to .pc/applied-patches leaves a truncated
# patch name behind (partial write up to the limit); every later push stops
# with "mismatch in series and applied-patches".
B=$(readlink -f "$1"); W=$(mktemp -d); trap 'rm -rf "$W"' EXIT
mkdir -p "$W/w/patches"; cd "$W/w"
L=$(printf 'x%.0s' $(seq 200))
for i in 1 2 3 4 5 6; do printf 'v0\n' > f$i; n="p$i-$L.patch"; echo "$n" >> series
  printf -- '--- a/f%s\n+++ b/f%s\n@@ -1 +1 @@\n-v0\n+v1\n' $i $i > "patches/$n"; done
( ulimit -f 1; "$B" push -a -d "$W/w" --threads 1 2>&1; echo "exit $?" ) 2>&1 | cat
last=$(tail -n 1 .pc/applied-patches 2>/dev/null)
"$B" push -a -d "$W/w" --threads 1 > "$W/out2" 2>&1; rc2=$?
if [ -n "$last" ] && ! grep -qxF -- "$last" series; then
  echo "PROBLEM: applied-patches ends in a name that is not in the series (${#last} bytes, cut off); push without the limit now exits $rc2: $(head -c 60 "$W/out2")..."
  exit 1
fi
echo ok; exit 0
