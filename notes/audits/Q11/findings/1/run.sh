#!/bin/bash
# Finding 1: the failure diagnostics (default verbosity) collect one "comparison"
# hint per failed hunk in a String before anything is printed.  Each hint quotes
# whole lines of the target file, so a patch of H tiny failing hunks against a
# file with one long line needs H x (line length) bytes: memory (and stderr
# output) out of all proportion to the input.  With a modest address-space limit
# the process dies by SIGABRT (status 134) instead of exiting with 1.
#
# usage: run.sh <path-to-rapidquilt-binary>; exit 1 = violation shown
BIN=$(readlink -f "${1:?usage: run.sh <binary>}")
W=$(mktemp -d) || exit 2
trap 'rm -rf "$W"' EXIT
cd "$W" || exit 2
mkdir patches

# target: ONE line, "x" followed by 1,000,000 blanks (1 MB)
{ printf 'x'; head -c 1000000 /dev/zero | tr '\0' ' '; printf '\n'; } > f

# patch: 2000 three-line hunks that all fail ("x" != "x     ..."), 36 KB in all.
# The hint code compares lines ignoring blanks, finds the long line "similar"
# and quotes it once per hunk.
{
  printf -- '--- a/f\n+++ b/f\n'
  for i in $(seq 2000); do printf '@@ -1 +1 @@\n-x\n+y\n'; done
} > patches/p.patch
echo p.patch > series

in_size=$(( $(stat -c %s f) + $(stat -c %s patches/p.patch) ))

# (a) small variant, no limit: measure peak memory and output for 300 hunks (5.4 KB patch)
mkdir small && cp -r f series small/ && mkdir small/patches
{ printf -- '--- a/f\n+++ b/f\n'; for i in $(seq 300); do printf '@@ -1 +1 @@\n-x\n+y\n'; done; } > small/patches/p.patch
( cd small && /usr/bin/time -f '%M' -o ../rss "$BIN" push -a --threads 1 >out 2>err; echo $? > ../rc_small )
rss_kb=$(tail -n 1 rss); err_bytes=$(stat -c %s small/err)
echo "300 hunks (5.4 KB patch, 1 MB file): exit $(cat rc_small), peak RSS ${rss_kb} KB, stderr ${err_bytes} bytes"

# (b) 2000 hunks under a 1.5 GB address space limit: the process aborts
( ulimit -v 1500000; "$BIN" push -a --threads 1 >out 2>err; echo $? > rc )
rc=$(cat rc)
echo "2000 hunks (36 KB patch, 1 MB file), ulimit -v 1.5 GB: exit status $rc (input $in_size bytes)"
grep -a -m1 -E 'memory allocation|panicked|capacity overflow' err

# (c) same input with -q (no hints): fine
( ulimit -v 1500000; "$BIN" push -a --threads 1 -q >outq 2>errq; echo $? > rcq )
echo "same with -q: exit status $(cat rcq)"

bad=0
[ "$rc" != 0 ] && [ "$rc" != 1 ] && bad=1
# more than 100 x the input in memory for the small variant is "out of proportion" as well
[ "$rss_kb" -gt 400000 ] && bad=1
if [ $bad = 1 ]; then echo "VIOLATION: diagnostics memory grows as (#failed hunks x line length); crash under memory limit"; exit 1; fi
echo "no violation"; exit 0
