#!/bin/bash
# C10 (minor): a series entry called "applied-patches". With backups, the real
# run creates the directory .pc/applied-patches/ for the backup files and then
# fails to record the push (exit 1, "Is a directory"); --dry-run on the same
# input reports success (exit 0).
BIN=${1:?usage: run.sh <path-to-rapidquilt>}
BIN=$(readlink -f "$BIN")
W=$(mktemp -d)
trap 'rm -rf "$W"' EXIT
bad=0
mk() {
    mkdir -p "$1/patches"
    printf 'applied-patches\n' > "$1/series"
    printf 'x\n' > "$1/f"
    cat > "$1/patches/applied-patches" <<'EOP'
--- a/f
+++ b/f
@@ -1 +1 @@
-x
+y
EOP
}
for threads in 1 2; do
    rm -rf "$W/dry" "$W/real"
    mk "$W/dry"; cp -a "$W/dry" "$W/real"
    "$BIN" push -a --backup always --threads $threads --dry-run -d "$W/dry" > /dev/null 2> "$W/dry.err"; de=$?
    "$BIN" push -a --backup always --threads $threads -d "$W/real" > /dev/null 2> "$W/real.err"; re=$?
    if [ $de -ne $re ]; then
        echo "threads=$threads: --dry-run exit=$de, real run exit=$re"
        sed 's/^/    real stderr: /' "$W/real.err"
        bad=1
    fi
done
[ $bad -eq 0 ] && echo "no violation seen"
exit $bad
