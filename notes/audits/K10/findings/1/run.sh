#!/bin/bash
# C10: --dry-run predicts success (exit 0) for a patch that creates a file whose
# name ends in "/" (or "/."), while the real run on the same input fails with
# exit 1 ("Failed to save modified file ... Is a directory") and leaves a
# half-saved tree behind. Checked for the sequential and the parallel driver.
BIN=${1:?usage: run.sh <path-to-rapidquilt>}
BIN=$(readlink -f "$BIN")
W=$(mktemp -d)
trap 'rm -rf "$W"' EXIT
bad=0

mk() { # $1 = dir, $2 = name on the +++ line
    mkdir -p "$1/patches"
    printf 'ok.patch\nslash.patch\n' > "$1/series"
    printf 'one\n' > "$1/f"
    cat > "$1/patches/ok.patch" <<'EOP'
--- a/f
+++ b/f
@@ -1 +1 @@
-one
+two
EOP
    cat > "$1/patches/slash.patch" <<EOP
--- /dev/null
+++ b/$2
@@ -0,0 +1 @@
+hello
EOP
}

snap() { (cd "$1" && find . -printf '%p %y %m %s %T@\n' | sort; find . -type f -print0 | sort -z | xargs -0 sha1sum); }

for name in "newdir/" "newdir/."; do
  for threads in 1 3; do
    rm -rf "$W/dry" "$W/real"
    mk "$W/dry" "$name"; cp -a "$W/dry" "$W/real"
    snap "$W/dry" > "$W/before"
    "$BIN" push -a --threads $threads --dry-run -d "$W/dry" > "$W/dry.out" 2> "$W/dry.err"; de=$?
    snap "$W/dry" > "$W/after"
    "$BIN" push -a --threads $threads -d "$W/real" > "$W/real.out" 2> "$W/real.err"; re=$?
    cmp -s "$W/before" "$W/after" || { echo "name=$name threads=$threads: dry run touched the tree"; bad=1; }
    if [ $de -ne $re ]; then
        echo "name='$name' threads=$threads: --dry-run exit=$de, real run exit=$re"
        sed 's/^/    real stderr: /' "$W/real.err"
        echo "    real run left behind: f=$(cat "$W/real/f" 2>/dev/null) applied-patches=$(cat "$W/real/.pc/applied-patches" 2>/dev/null | tr '\n' ' ') newdir=$(ls -d "$W/real/newdir" 2>/dev/null | wc -l)"
        bad=1
    fi
  done
done
# Variant: a git rename onto such a name. The real run may remove the old file
# before it finds that the new one can not be created.
for threads in 1 3; do
    rm -rf "$W/dry" "$W/real"
    mkdir -p "$W/dry/patches"; printf 'r.patch\n' > "$W/dry/series"; printf 'precious\n' > "$W/dry/f"
    printf 'diff --git a/f b/g/\nsimilarity index 100%%\nrename from f\nrename to g/\n' > "$W/dry/patches/r.patch"
    cp -a "$W/dry" "$W/real"
    "$BIN" push -a --threads $threads --dry-run -d "$W/dry" > /dev/null 2> "$W/dry.err"; de=$?
    "$BIN" push -a --threads $threads -d "$W/real" > /dev/null 2> "$W/real.err"; re=$?
    if [ $de -ne $re ]; then
        echo "rename f -> 'g/' threads=$threads: --dry-run exit=$de, real run exit=$re; afterwards: $(ls "$W/real" | tr '\n' ' ')"
        sed 's/^/    real stderr: /' "$W/real.err"
        bad=1
    fi
done
[ $bad -eq 0 ] && echo "no violation seen"
exit $bad
