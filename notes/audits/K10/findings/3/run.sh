#!/bin/bash
# C10 (minor): a series entry that leads out of patches/ ("../p.patch").
# The backup directory is built as .pc/<entry>/, i.e. .pc/../p.patch/, which is
# the patch file itself: the real run saves the tree, then fails on the backup
# (exit 1, nothing recorded); --dry-run on the same input reports success.
BIN=${1:?usage: run.sh <path-to-rapidquilt>}
BIN=$(readlink -f "$BIN")
W=$(mktemp -d)
trap 'rm -rf "$W"' EXIT
bad=0
mk() {
    mkdir -p "$1/patches"
    printf '../p.patch\n' > "$1/series"
    printf 'x\n' > "$1/f"
    cat > "$1/p.patch" <<'EOP'
--- a/f
+++ b/f
@@ -1 +1 @@
-x
+y
EOP
}
for threads in 1 2; do
    rm -rf "$W/dry" "$W/real"
    mk "$W/dry"; cp -a "$W/dry" "$W/real"
    "$BIN" push -a --backup always --threads $threads --dry-run -d "$W/dry" > /dev/null 2> "$W/dry.err"; de=$?
    "$BIN" push -a --backup always --threads $threads -d "$W/real" > /dev/null 2> "$W/real.err"; re=$?
    if [ $de -ne $re ]; then
        echo "threads=$threads: --dry-run exit=$de, real run exit=$re; f is now '$(cat "$W/real/f")', applied-patches: '$(cat "$W/real/.pc/applied-patches" 2>/dev/null)'"
        sed 's/^/    real stderr: /' "$W/real.err"
        bad=1
    fi
done
[ $bad -eq 0 ] && echo "no violation seen"
exit $bad
