#!/bin/bash
# Finding 2: `diff -urN` marks an absent side with the epoch time stamp, not with /dev/null.
# rapidquilt leaves an empty file where the file must be absent.
RQ=${1:?usage: run.sh <rapidquilt binary>}
bad=0
# forward: A = "x\n", B absent
W=$(mktemp -d); mkdir "$W/patches"
printf 'x\n' > "$W/gone"
printf -- '--- a/gone\t2026-10-03 00:31:48.343896242 +0000\n+++ b/gone\t1970-01-01 00:00:00.000000000 +0000\n@@ -1 +0,0 @@\n-x\n' > "$W/patches/p.patch"
echo 'p.patch' > "$W/series"
"$RQ" push -a -d "$W" --threads 1 > "$W/out.txt" 2>&1; rc=$?
if [ $rc -ne 0 ] || [ -e "$W/gone" ]; then
  echo "VIOLATION fwd: rc=$rc, 'gone' still exists ($(stat -c %s "$W/gone" 2>/dev/null) bytes) - B is absent"; bad=1
fi
# reverse: patch creates "new" from absent (epoch on the old side); -R pushed onto B must leave A = absent
W=$(mktemp -d); mkdir "$W/patches"
printf 'y\n' > "$W/new"
printf -- '--- a/new\t1970-01-01 00:00:00.000000000 +0000\n+++ b/new\t2026-10-03 00:31:48.343978992 +0000\n@@ -0,0 +1 @@\n+y\n' > "$W/patches/p.patch"
echo 'p.patch -R' > "$W/series"
"$RQ" push -a -d "$W" --threads 1 > "$W/out.txt" 2>&1; rc=$?
if [ $rc -ne 0 ] || [ -e "$W/new" ]; then
  echo "VIOLATION -R: rc=$rc, 'new' still exists ($(stat -c %s "$W/new" 2>/dev/null) bytes) - A is absent"; bad=1
fi
exit $bad
