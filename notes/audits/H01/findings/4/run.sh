#!/bin/bash
# Finding 4: a directory that disappears and is replaced by a file of the same name (or the
# other way round) within one push. Pushing the two patches one invocation at a time works,
# `push -a` aborts with "Is a directory" / "Not a directory".
RQ=${1:?usage: run.sh <rapidquilt binary>}
mk() {
  W=$(mktemp -d); mkdir "$W/patches"
  printf -- 'diff --git a/d/f b/d/f\ndeleted file mode 100644\nindex 4cb29ea..0000000\n--- a/d/f\n+++ /dev/null\n@@ -1,3 +0,0 @@\n-one\n-two\n-three\n' > "$W/patches/p1.patch"
  printf -- 'diff --git a/d b/d\nnew file mode 100644\nindex 0000000..1ec8869\n--- /dev/null\n+++ b/d\n@@ -0,0 +1,2 @@\n+uno\n+dos\n' > "$W/patches/p2.patch"
}
bad=0
# control: one patch per invocation
mk; mkdir "$W/d"; printf 'one\ntwo\nthree\n' > "$W/d/f"; printf 'p1.patch\np2.patch\n' > "$W/series"
"$RQ" push -d "$W" --threads 1 > /dev/null 2>&1 && "$RQ" push -d "$W" --threads 1 > /dev/null 2>&1
[ -f "$W/d" ] && [ "$(cat "$W/d")" = "$(printf 'uno\ndos\n')" ] || { echo "control (two invocations) failed?!"; }
# the same series in one invocation
mk; mkdir "$W/d"; printf 'one\ntwo\nthree\n' > "$W/d/f"; printf 'p1.patch\np2.patch\n' > "$W/series"
"$RQ" push -a -d "$W" --threads 1 > "$W/out.txt" 2>&1; rc=$?
if [ $rc -ne 0 ] || [ ! -f "$W/d" ]; then echo "VIOLATION dir->file: rc=$rc"; sed 's/^/    /' "$W/out.txt"; bad=1; fi
# the inverse: file d -> directory d with d/f
mk; printf 'uno\ndos\n' > "$W/d"; printf 'p2.patch -R\np1.patch -R\n' > "$W/series"
"$RQ" push -a -d "$W" --threads 1 > "$W/out.txt" 2>&1; rc=$?
if [ $rc -ne 0 ] || [ ! -f "$W/d/f" ]; then echo "VIOLATION file->dir: rc=$rc"; sed 's/^/    /' "$W/out.txt"; bad=1; fi
exit $bad
