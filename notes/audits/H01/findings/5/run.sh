#!/bin/bash
# Finding 5: "./f" and "f" (-p0) are kept as two different files in memory; both are written to
# the same path, the last one wins. Exit status 0, one patch's change is silently lost, and the
# surviving change depends on the thread count.
RQ=${1:?usage: run.sh <rapidquilt binary>}
bad=0
for t in 1 2 3; do
  W=$(mktemp -d); mkdir "$W/patches"
  printf 'one\ntwo\nthree\nfour\nfive\nsix\nseven\neight\nnine\nten\n' > "$W/f"
  # p1: A -> M (names ./f, as produced by `diff -u ./f.orig ./f` style tools), p2: M -> B (names f)
  printf -- '--- ./f\n+++ ./f\n@@ -1,6 +1,6 @@\n one\n two\n-three\n+3\n four\n five\n six\n' > "$W/patches/p1.patch"
  printf -- '--- f\n+++ f\n@@ -8,3 +8,4 @@\n eight\n nine\n ten\n+eleven\n' > "$W/patches/p2.patch"
  printf 'p1.patch -p0\np2.patch -p0\n' > "$W/series"
  "$RQ" push -a -d "$W" --threads $t > "$W/out.txt" 2>&1; rc=$?
  want=$(printf 'one\ntwo\n3\nfour\nfive\nsix\nseven\neight\nnine\nten\neleven\n')
  if [ $rc -ne 0 ] || [ "$(cat "$W/f")" != "$want" ]; then
    echo "VIOLATION threads=$t: rc=$rc, f = $(tr '\n' ' ' < "$W/f")"; bad=1
  fi
done
exit $bad
