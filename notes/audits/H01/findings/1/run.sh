#!/bin/bash
# Finding 1: unquoted file names containing a space (what `git diff` emits) are cut at the space.
# usage: run.sh <path-to-rapidquilt>
RQ=${1:?usage: run.sh <rapidquilt binary>}
bad=0

# (a) git-style content change of "sp ace.txt": must succeed and leave B
W=$(mktemp -d); mkdir "$W/patches"
printf 'one\ntwo\nthree\n' > "$W/sp ace.txt"
printf 'diff --git a/sp ace.txt b/sp ace.txt\nindex 4cb29ea..f04eb26 100644\n--- a/sp ace.txt\t\n+++ b/sp ace.txt\t\n@@ -1,3 +1,3 @@\n one\n-two\n+2\n three\n' > "$W/patches/p.patch"
echo 'p.patch' > "$W/series"
"$RQ" push -a -d "$W" --threads 1 > "$W/out.txt" 2>&1; rc=$?
if [ $rc -ne 0 ] || [ "$(cat "$W/sp ace.txt")" != "$(printf 'one\n2\nthree\n')" ]; then
  echo "VIOLATION (a): rc=$rc, 'sp ace.txt' not patched; stray files: $(cd "$W"; ls | tr '\n' ' ')"; sed 's/^/    /' "$W/out.txt"; bad=1
fi

# (b) git --no-prefix pure rename "sp ace" -> "sp ace2": exit 0 but nothing renamed, stray empty file "ace"
W=$(mktemp -d); mkdir "$W/patches"
printf 'one\ntwo\nthree\n' > "$W/sp ace"
printf 'diff --git sp ace sp ace2\nsimilarity index 100%%\nrename from sp ace\nrename to sp ace2\n' > "$W/patches/p.patch"
echo 'p.patch -p0' > "$W/series"
"$RQ" push -a -d "$W" --threads 1 > "$W/out.txt" 2>&1; rc=$?
if [ ! -f "$W/sp ace2" ] || [ -e "$W/sp ace" ] || [ -e "$W/ace" ] || [ -e "$W/ace2" ]; then
  echo "VIOLATION (b): rc=$rc, rename not done; tree: $(cd "$W"; ls | tr '\n' ',')"; sed 's/^/    /' "$W/out.txt"; bad=1
fi

# (c) git --no-prefix mode change of "sp ace": exit 0, mode unchanged
W=$(mktemp -d); mkdir "$W/patches"
printf 'one\n' > "$W/sp ace"; chmod 644 "$W/sp ace"
printf 'diff --git sp ace sp ace\nold mode 100644\nnew mode 100755\n' > "$W/patches/p.patch"
echo 'p.patch -p0' > "$W/series"
"$RQ" push -a -d "$W" --threads 1 > "$W/out.txt" 2>&1; rc=$?
m=$(stat -c %a "$W/sp ace")
if [ "$m" != 755 ]; then
  echo "VIOLATION (c): rc=$rc, mode of 'sp ace' is $m, want 755"; bad=1
fi
exit $bad
