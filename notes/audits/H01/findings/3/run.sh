#!/bin/bash
# Finding 3: git "copy from/copy to" entries: the source is patched in place, the copy is never made.
RQ=${1:?usage: run.sh <rapidquilt binary>}
W=$(mktemp -d); mkdir "$W/patches"
seq 1 20 > "$W/f"; seq 1 20 > "$W/f.expected"
seq 1 20 | sed 's/^5$/five/' > "$W/g.expected"
cat > "$W/patches/p.patch" <<'EOP'
diff --git a/f b/g
similarity index 90%
copy from f
copy to g
index 0ff3bbb..fb3ced1 100644
--- a/f
+++ b/g
@@ -2,7 +2,7 @@
 2
 3
 4
-5
+five
 6
 7
 8
EOP
echo 'p.patch' > "$W/series"
"$RQ" push -a -d "$W" --threads 1 > "$W/out.txt" 2>&1; rc=$?
bad=0
cmp -s "$W/f" "$W/f.expected" || { echo "VIOLATION: rc=$rc, copy source 'f' was modified (line 5: $(sed -n 5p "$W/f"))"; bad=1; }
cmp -s "$W/g" "$W/g.expected" || { echo "VIOLATION: rc=$rc, copy destination 'g' missing or wrong"; bad=1; }
exit $bad
