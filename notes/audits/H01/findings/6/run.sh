#!/bin/bash
# Finding 6: ".orig"-style header (--- f.orig / +++ f) pushed onto a tree that holds A in f and
# also still has a backup f.orig: rapidquilt patches f.orig and leaves f alone (GNU patch patches f).
RQ=${1:?usage: run.sh <rapidquilt binary>}
W=$(mktemp -d); mkdir "$W/patches"
printf 'one\ntwo\nthree\n' > "$W/f"; cp "$W/f" "$W/f.orig"
printf -- '--- f.orig\t2020-01-01 00:00:00.000000000 +0000\n+++ f\t2020-01-01 00:00:01.000000000 +0000\n@@ -1,3 +1,3 @@\n one\n-two\n+2\n three\n' > "$W/patches/p.patch"
echo 'p.patch -p0' > "$W/series"
"$RQ" push -a -d "$W" --threads 1 > "$W/out.txt" 2>&1; rc=$?
bad=0
[ "$(cat "$W/f")" = "$(printf 'one\n2\nthree\n')" ] || { echo "VIOLATION: rc=$rc, f not patched: $(tr '\n' ' ' < "$W/f")"; bad=1; }
[ "$(cat "$W/f.orig")" = "$(printf 'one\ntwo\nthree\n')" ] || { echo "VIOLATION: rc=$rc, f.orig was touched: $(tr '\n' ' ' < "$W/f.orig")"; bad=1; }
exit $bad
