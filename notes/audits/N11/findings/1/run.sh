#!/bin/bash
# C11 (memory clause, series file / whole tool): a series file that names the same patch N times makes
# the tool read and keep N copies of that patch file (the arena never shares or frees a loaded file),
# so peak memory is N x patch size although the total input is only patch size + N short lines.
# Exits non-zero when the violation shows (peak RSS > 20 x total input size).
BIN=${1:?usage: run.sh <path-to-rapidquilt-binary>}
BIN=$(readlink -f "$BIN")
W=$(mktemp -d)
trap 'rm -rf "$W"' EXIT
mkdir -p "$W/patches"
# An 8 MB "patch" without any diff in it (e.g. a long mail body): parses fine as a patch with no
# file entries, applies fine as often as one likes.
head -c 8000000 /dev/zero | tr '\0' 'x' | fold -w 79 > "$W/patches/p.patch"
echo >> "$W/patches/p.patch"
N=150
for i in $(seq 1 $N); do echo p.patch; done > "$W/series"

peak_kb() { # peak RSS in KB of the given command; its exit status goes to $W/rc
    python3 - "$W/rc" "$@" <<'PY'
import resource, subprocess, sys
rc = subprocess.call(sys.argv[2:], stdout=subprocess.DEVNULL, stderr=subprocess.DEVNULL)
open(sys.argv[1], 'w').write(str(rc))
print(resource.getrusage(resource.RUSAGE_CHILDREN).ru_maxrss)
PY
}

input_kb=$(( ( $(stat -c %s "$W/patches/p.patch") + $(stat -c %s "$W/series") ) / 1024 ))
status=0
for threads in 1 2; do
    rm -rf "$W/.pc"
    rss=$(peak_kb "$BIN" push -a -d "$W" --threads $threads -q)
    rc=$(cat "$W/rc")
    echo "threads=$threads: exit status $rc, total input ${input_kb} KB, peak RSS ${rss} KB (x$(( rss / input_kb )))"
    if [ "$rss" -gt $(( 20 * input_kb )) ]; then
        echo "VIOLATION: memory grows with (number of series lines) x (patch size), out of proportion to the input"
        status=1
    fi
done
# for comparison: the same patch named once
echo p.patch > "$W/series"; rm -rf "$W/.pc"
rss=$(peak_kb "$BIN" push -a -d "$W" --threads 1 -q)
echo "named once: peak RSS ${rss} KB"
exit $status
