#!/bin/sh
# C13, clause "contains exactly the failed hunks ... with their original line
# content and line numbers" (literal reading; LOW severity, malformed header):
# a failing hunk whose header starts a non-empty side at line 0
# ("@@ -0,3 +0,3 @@") comes back in the reject file renumbered to line 1
# ("@@ -1,3 +1,3 @@"). GNU patch 2.7.6 writes "@@ -0,3 +0,3 @@" back.
# Cause: parser.rs parse_hunk::start() clamps max(line-1, 0) and
# writer.rs write_header_to() prints target_line+1, so the 0 is lost.
# usage: run.sh <path-to-rapidquilt-binary>; exits 1 if the violation shows.
BIN=${1:?usage: run.sh <path-to-binary>}
W=$(mktemp -d) || exit 2
trap 'rm -rf "$W"' EXIT
mkdir "$W/patches"
printf 'a\nb\nc\n' > "$W/f"
cat > "$W/patches/p1.patch" <<'EOP'
--- a/f
+++ b/f
@@ -0,3 +0,3 @@
 a
-x
+y
 c
EOP
echo p1.patch > "$W/series"
"$BIN" push -a -d "$W" -q --threads 1 >/dev/null 2>&1
[ -f "$W/f.rej" ] || { echo "no reject file at all"; exit 2; }
want='@@ -0,3 +0,3 @@'
got=$(grep '^@@' "$W/f.rej")
echo "patch header : $want"
echo "reject header: $got"
if [ "$got" != "$want" ]; then
    echo "VIOLATION (literal): line numbers of the failed hunk differ from the original"
    exit 1
fi
echo "ok"
exit 0
