#!/bin/bash
# C14 / verbosity: the "would apply with fuzz N" hint of the failure diagnostics
# (every verbosity but -q) tries fuzz 1..=max_useable_fuzz, and each try again
# runs through all fuzz levels below it and searches the whole file: cubic in
# the amount of context.  One failing hunk with N lines of context (a
# full-context diff, `diff -U999999`) keeps the push busy for minutes to hours
# where -q is done in milliseconds.  N can be given as 2nd argument.
BIN=${1:?usage: run.sh <path-to-rapidquilt>}
N=${2:-12000}
LIMIT=${3:-60}
T=$(mktemp -d) || exit 2
mk() {
    mkdir -p "$1/patches"
    awk -v n="$N" 'BEGIN { for (i = 0; i < n; i++) print "line " i }' > "$1/f"
    awk -v n="$N" 'BEGIN {
        m = int(n / 2);
        print "--- a/f"; print "+++ b/f"; printf "@@ -1,%d +1,%d @@\n", n, n;
        for (i = 0; i < n; i++) {
            if (i == m) { print "-line " i; print "+CHANGED"; }
            else if (i == m - 1 || i == m + 1) print " line " i " (differs)";
            else print " line " i;
        }
    }' > "$1/patches/p.patch"
    echo p.patch > "$1/series"
}
mk "$T/a"; mk "$T/b"
s=$(date +%s.%N)
timeout "$LIMIT" "$BIN" push -a -q --threads 1 -d "$T/a" >"$T/a.out" 2>&1; ra=$?
e=$(date +%s.%N)
timeout "$LIMIT" "$BIN" push -a    --threads 1 -d "$T/b" >"$T/b.out" 2>&1; rb=$?
e2=$(date +%s.%N)
echo "-q:                exit $ra after $(echo "$e - $s" | bc) s"
echo "default verbosity: exit $rb after $(echo "$e2 - $e" | bc) s (124 = killed after ${LIMIT}s; f.rej written: $([ -e "$T/b/f.rej" ] && echo yes || echo no))"
bad=0
if [ "$ra" != "$rb" ]; then echo "VIOLATION: default verbosity does not finish where -q does"; bad=1; fi
rm -rf "$T"; exit $bad
