#!/bin/bash
# C14 / --stats, verbosity: what is printed decides over the result as soon as
# stdout cannot be written (disk of the log file full: /dev/full gives the same
# ENOSPC).  `println!` panics; with --stats that happens when tree, backups and
# rejects are saved but before .pc/applied-patches is written.
BIN=${1:?usage: run.sh <path-to-rapidquilt>}
T=$(mktemp -d) || exit 2
mk() {
    mkdir -p "$1/patches"
    printf 'a\nb\nc\n' > "$1/f"
    cat > "$1/patches/p1.patch" <<'EOF'
--- a/f
+++ b/f
@@ -1,3 +1,3 @@
 a
-b
+B
 c
EOF
    echo p1.patch > "$1/series"
}
mk "$T/a"; mk "$T/b"; mk "$T/c"
"$BIN" push -a -q --threads 1         -d "$T/a" >/dev/full 2>"$T/a.err"; ra=$?
"$BIN" push -a -q --threads 1 --stats -d "$T/b" >/dev/full 2>"$T/b.err"; rb=$?
"$BIN" push -a    --threads 1         -d "$T/c" >/dev/full 2>"$T/c.err"; rc=$?
show() { echo "$1: exit $2, f: $(tr '\n' ' ' < "$T/$3/f"), applied-patches: $(cat "$T/$3/.pc/applied-patches" 2>/dev/null || echo '<missing>')"; }
show "-q              " $ra a
show "-q --stats      " $rb b
show "(default verb.) " $rc c
bad=0
if [ "$ra" != "$rb" ] || ! diff -r "$T/a" "$T/b" >/dev/null 2>&1; then echo "VIOLATION: --stats changes exit status / .pc (tree patched, applied-patches not written)"; bad=1; fi
if [ "$ra" != "$rc" ] || ! diff -r "$T/a" "$T/c" >/dev/null 2>&1; then echo "VIOLATION: -q vs default verbosity changes exit status / tree"; bad=1; fi
rm -rf "$T"; exit $bad
