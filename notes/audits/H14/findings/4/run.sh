#!/bin/bash
# C14 / --mmap: MmapArena trusts st_size.  A file whose st_size is 0 although it
# has content (anything in procfs, reached e.g. through a symbolic link in the
# tree) is an empty file for --mmap, and a file with its real content without.
BIN=${1:?usage: run.sh <path-to-rapidquilt>}
[ -r /proc/version ] || { echo "no /proc/version here; skipping"; exit 0; }
T=$(mktemp -d) || exit 2
mk() {
    mkdir -p "$1/patches"
    ln -s /proc/version "$1/ver"
    cat > "$1/patches/p.patch" <<'EOF'
--- a/ver
+++ b/ver
@@ -0,0 +1 @@
+first line
EOF
    echo p.patch > "$1/series"
}
mk "$T/a"; mk "$T/b"
"$BIN" push -a -q --threads 1        -d "$T/a" >"$T/a.out" 2>&1; ra=$?
"$BIN" push -a -q --threads 1 --mmap -d "$T/b" >"$T/b.out" 2>&1; rb=$?
echo "without --mmap: exit $ra, ver has $(wc -c < "$T/a/ver") bytes"
echo "with    --mmap: exit $rb, ver has $(wc -c < "$T/b/ver") bytes"
bad=0
if [ "$ra" != "$rb" ] || ! cmp -s "$T/a/ver" "$T/b/ver"; then echo "VIOLATION: --mmap changes the resulting file"; bad=1; fi
rm -rf "$T"; exit $bad
