#!/bin/bash
# C14 / --mmap: a file that rapidquilt itself truncates in place while it is
# still mapped.  `lnk` is a symbolic link `nd/../g`; `nd` does not exist yet,
# so `lnk` is "not there" when it is loaded, but once the patch has created
# `nd/k`, `File::create(lnk)` goes through the link and truncates `g` - whose
# old content is only held by the mapping.  Without --mmap the push succeeds,
# with --mmap the process dies of SIGBUS half way through saving.
BIN=${1:?usage: run.sh <path-to-rapidquilt>}
T=$(mktemp -d) || exit 2
mk() {
    mkdir -p "$1/patches"
    for i in $(seq 0 2999); do echo "line $i"; done > "$1/g"
    ln -s nd/../g "$1/r"
    cat > "$1/patches/p1.patch" <<'EOF'
--- /dev/null
+++ b/nd/k
@@ -0,0 +1 @@
+new
--- /dev/null
+++ b/r
@@ -0,0 +1 @@
+link content
--- a/g
+++ b/g
@@ -1,2 +1,2 @@
-line 0
+LINE 0
 line 1
EOF
    echo p1.patch > "$1/series"
}
mk "$T/a"; mk "$T/b"
"$BIN" push -a -q --threads 1 -d "$T/a" >"$T/a.out" 2>&1; ra=$?
"$BIN" push -a -q --threads 1 --mmap -d "$T/b" >"$T/b.out" 2>&1; rb=$?
echo "without --mmap: exit $ra, g has $(wc -l < "$T/a/g") lines, applied-patches: $(cat "$T/a/.pc/applied-patches" 2>/dev/null)"
echo "with    --mmap: exit $rb, g has $(wc -l < "$T/b/g") lines, applied-patches: $(cat "$T/b/.pc/applied-patches" 2>/dev/null)"
if [ "$ra" != "$rb" ] || ! diff -r "$T/a" "$T/b" >/dev/null 2>&1; then
    echo "VIOLATION: --mmap changes the result"
    rm -rf "$T"; exit 1
fi
rm -rf "$T"; exit 0
