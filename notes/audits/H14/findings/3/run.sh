#!/bin/bash
# C14 / --mmap: every non-empty file that is loaded (patch or source) stays
# mapped until the end of the run, one VMA each.  A series that needs more than
# vm.max_map_count (default 65530) files cannot be pushed with --mmap
# ("Cannot allocate memory", nothing applied, exit 1); without --mmap the very
# same push succeeds.
BIN=${1:?usage: run.sh <path-to-rapidquilt>}
MAX=$(cat /proc/sys/vm/max_map_count 2>/dev/null || echo 65530)
if [ "$MAX" -gt 300000 ]; then echo "vm.max_map_count=$MAX is too large to demonstrate this quickly; skipping"; exit 0; fi
N=$(( MAX / 2 + 1000 ))
T=$(mktemp -d) || exit 2
mkdir -p "$T/a/patches" "$T/a/s"
awk -v n="$N" -v d="$T/a" 'BEGIN {
    for (i = 0; i < n; i++) {
        name = sprintf("%06d", i);
        f = d "/s/" name; print "a" > f; close(f);
        p = d "/patches/" name ".patch";
        printf "--- a/s/%s\n+++ b/s/%s\n@@ -1 +1 @@\n-a\n+b\n", name, name > p; close(p);
        print name ".patch" > (d "/series");
    }
}'
cp -a "$T/a" "$T/b"
"$BIN" push -a -q --threads 1        -d "$T/a" >"$T/a.out" 2>&1; ra=$?
"$BIN" push -a -q --threads 1 --mmap -d "$T/b" >"$T/b.out" 2>&1; rb=$?
echo "$N patches on $N files (vm.max_map_count=$MAX)"
echo "without --mmap: exit $ra, $(cat "$T/a/.pc/applied-patches" 2>/dev/null | wc -l) patches recorded as applied"
echo "with    --mmap: exit $rb, $(cat "$T/b/.pc/applied-patches" 2>/dev/null | wc -l) patches recorded as applied; $(tail -n 2 "$T/b.out" | tr '\n' ' ')"
bad=0
if [ "$ra" != "$rb" ] || ! cmp -s "$T/a/.pc/applied-patches" "$T/b/.pc/applied-patches"; then echo "VIOLATION: --mmap changes the result"; bad=1; fi
rm -rf "$T"; exit $bad
