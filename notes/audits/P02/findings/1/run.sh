#!/bin/sh
# C02: a hunk whose header states line 0 (with a non-empty old side) is recorded
# with an offset that is one too small, so the next hunk is expected - and, in a
# repetitive file, placed - one line too early.
#   usage: run.sh <path-to-rapidquilt-binary>
BIN=${1:?usage: run.sh <path-to-binary>}
W=$(mktemp -d) || exit 2
trap 'rm -rf "$W"' EXIT
mkdir -p "$W/patches"
printf 'a\na\na\na\na\na\n' > "$W/f"
cat > "$W/patches/p.patch" <<'PATCH'
--- a/f
+++ b/f
@@ -0,1 +1,2 @@
+x
 a
@@ -3,1 +4,1 @@
-a
+B
PATCH
echo 'p.patch -p1' > "$W/series"
"$BIN" push -a -d "$W" -q --threads 1 >"$W/out" 2>&1
rc=$?
got=$(tr '\n' ' ' < "$W/f")
# Hunk 1: stated line 0, the only place it may go (start of file) is line 1 -> offset +1.
# Hunk 2: stated line 3, expected at 3+1 = line 4; lines 1..6 all match, nearest is line 4.
want='x a a a B a a '
echo "exit status: $rc"
echo "got : $got"
echo "want: $want   (GNU patch 2.7.6 gives this, too: 'Hunk #2 succeeded at 5 (offset 1 line)')"
if [ "$rc" -ne 0 ] || [ "$got" != "$want" ]; then
    echo "VIOLATION: second hunk was not placed at the match nearest to stated line + previous offset"
    exit 1
fi
echo "ok"
exit 0
