#!/bin/bash
# C16 finding 2: strip level larger than the depth of the name, working directory
# given implicitly (no -d). z.patch creates "g" but is applied with the default -p1,
# which uses the name up. With "-d ." the push is refused before anything is
# touched ("Failed to load file for patching: """). Without -d the empty name
# is looked up as "" -> ENOENT -> "file does not exist, may be created", the
# entry is accepted, and the push dies in the middle of saving: some of the files
# of m1..m12 are rewritten, others are not, nothing is recorded in .pc/applied-patches.
RQ=$(readlink -f "${1:?usage: run.sh <path-to-rapidquilt>}")
W=$(mktemp -d) || exit 2
mk() {
    mkdir -p "$1/patches"
    : > "$1/series"
    for i in 1 2 3 4 5 6 7 8 9 10 11 12; do
        printf 'one\n' > "$1/f$i"
        printf -- '--- a/f%s\n+++ b/f%s\n@@ -1 +1,2 @@\n one\n+two\n' $i $i > "$1/patches/m$i.patch"
        echo "m$i.patch" >> "$1/series"
    done
    printf -- '--- /dev/null\n+++ g\n@@ -0,0 +1 @@\n+new\n' > "$1/patches/z.patch"
    echo "z.patch" >> "$1/series"      # default -p1 uses up the name "g"
}
bad=0
for t in 1 3; do
    mk "$W/cwd$t"; mk "$W/dot$t"
    (cd "$W/dot$t" && "$RQ" push -a -q --threads $t -d . > ../dot$t.out 2>&1); rcdot=$?
    (cd "$W/cwd$t" && "$RQ" push -a -q --threads $t      > ../cwd$t.out 2>&1); rccwd=$?
    changed_dot=$(cd "$W/dot$t" && grep -l two f* 2>/dev/null | tr '\n' ' ')
    changed_cwd=$(cd "$W/cwd$t" && grep -l two f* 2>/dev/null | tr '\n' ' ')
    echo "--threads $t: with -d .: exit $rcdot, rewritten: [$changed_dot]; without -d: exit $rccwd, rewritten: [$changed_cwd], applied-patches: $(cat "$W/cwd$t/.pc/applied-patches" 2>/dev/null | wc -l) lines"
    sed 's/^/    /' "$W/cwd$t.out"
    n=$(echo $changed_cwd | wc -w)
    if [ $rccwd -ne 0 ] && [ $n -gt 0 ] && [ ! -s "$W/cwd$t/.pc/applied-patches" ]; then
        echo "VIOLATION: failed push rewrote $n of 12 files and recorded nothing"
        bad=1
    fi
done
rm -rf "$W"
exit $bad
