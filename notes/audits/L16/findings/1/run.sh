#!/bin/bash
# C16 finding 1: a deletion in `diff -N` style (the +++ side dated to the epoch)
# whose two names differ is resolved to the OLD name only. The property says the
# file patched is the old name if that file exists, otherwise the NEW name.
# Here f.orig does not exist, f does: f must be patched (GNU patch 2.7.6
# says "patching file f" and removes it). rapidquilt picks f.orig, fails and
# writes f.orig.rej. The same patch with any other time stamp on the +++
# line is resolved to f.
RQ=${1:?usage: run.sh <path-to-rapidquilt>}
W=$(mktemp -d) || exit 2
cd "$W" || exit 2
mkdir patches
printf 'one\ntwo\n' > f
cat > patches/del.patch <<'EOP'
--- f.orig	2020-01-01 00:00:00.000000000 +0000
+++ f	1970-01-01 00:00:00.000000000 +0000
@@ -1,2 +0,0 @@
-one
-two
EOP
echo 'del.patch -p0' > series
bad=0
for t in 1 3; do
    rm -rf "run$t"; mkdir "run$t"; cp -a f patches series "run$t/"
    "$RQ" push -a -d "run$t" --threads $t > "run$t.out" 2>&1
    rc=$?
    if [ $rc -ne 0 ] || [ -e "run$t/f" ] || [ -e "run$t/f.orig.rej" ]; then
        echo "VIOLATION (--threads $t): exit $rc; f $( [ -e run$t/f ] && echo still there || echo gone ); $(ls run$t | tr '\n' ' ')"
        sed 's/^/    /' "run$t.out"
        bad=1
    fi
done

# control: same entry, the +++ side not dated to the epoch -> f is chosen (and emptied)
mkdir ctl; cp -a f series ctl/; mkdir ctl/patches
sed 's/1970-01-01 00:00:00.000000000/2020-01-01 00:00:01.000000000/' patches/del.patch > ctl/patches/del.patch
"$RQ" push -a -d ctl --threads 1 > ctl.out 2>&1
echo "control (no epoch stamp): exit $?, f is $(wc -c < ctl/f 2>/dev/null || echo absent) bytes"

# second face: a creation whose --- side is dated to the epoch although that file exists
mkdir cr; mkdir cr/patches; printf 'one\ntwo\n' > cr/f
cat > cr/patches/cr.patch <<'EOP'
--- f	1970-01-01 00:00:00.000000000 +0000
+++ g	2020-01-01 00:00:00.000000000 +0000
@@ -0,0 +1 @@
+new
EOP
echo 'cr.patch -p0' > cr/series
"$RQ" push -a -d cr --threads 1 > cr.out 2>&1
rc=$?
if [ -e cr/g ]; then
    echo "VIOLATION (creation): old name f exists, yet g was created (exit $rc)"
    bad=1
fi
cd /; rm -rf "$W"
exit $bad
