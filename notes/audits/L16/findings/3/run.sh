#!/bin/bash
# C16 finding 3: "comments and blank lines [are] ignored" - but a comment that
# holds a byte which is not valid UTF-8 (a Latin-1 "Joerg" with o-umlaut, say)
# makes every push fail with "stream did not contain valid UTF-8", whether the
# comment is a line of its own or trails the options of an entry. quilt reads
# the series as bytes.
RQ=${1:?usage: run.sh <path-to-rapidquilt>}
W=$(mktemp -d) || exit 2
bad=0
n=0
for series in '# J\xf6rg: fixes\na.patch\n' 'a.patch -p1 # J\xf6rg\n' '#\xff\n\na.patch\n'; do
    n=$((n+1)); D="$W/$n"; mkdir -p "$D/patches"
    printf 'one\n' > "$D/f"
    printf -- '--- a/f\n+++ b/f\n@@ -1 +1,2 @@\n one\n+two\n' > "$D/patches/a.patch"
    printf "$series" > "$D/series"
    "$RQ" push -a -d "$D" --threads 1 > "$D.out" 2>&1
    rc=$?
    if [ $rc -ne 0 ] || ! grep -q two "$D/f"; then
        echo "VIOLATION: series $(printf "$series" | od -An -c | tr -s ' ' | tr '\n' ' '): exit $rc, f unchanged"
        sed 's/^/    /' "$D.out"
        bad=1
    fi
done
rm -rf "$W"
exit $bad
