#!/bin/sh
# C02, borderline: a hunk that consists of context lines only (no +/- line) and
# whose lines stand in the file exactly at the stated line is reported FAILED
# with --fuzz 0. The parser counts all its lines as prefix context and none as
# suffix context, so the hunk is treated as anchored to the end of the file.
# (GNU patch 2.7.6 refuses such a hunk as "malformed patch".)
# usage: run.sh <path-to-rapidquilt>; exits 1 when the behaviour shows.
RQ=${1:?usage: run.sh <path-to-rapidquilt>}
W=$(mktemp -d) || exit 2
trap 'rm -rf "$W"' EXIT
mkdir -p "$W/ws/patches"
cd "$W/ws" || exit 2
printf 'a\nb\nc\nd\ne\nf\ng\n' > f
cat > patches/p.patch <<'PATCH'
--- a/f
+++ b/f
@@ -2,3 +2,3 @@
 b
 c
 d
@@ -5,3 +5,4 @@
 e
 f
+X
 g
PATCH
echo 'p.patch -p1' > series
"$RQ" push -a -d . --fuzz 0 --threads 1 --color never > ../out 2>&1
rc=$?
cat ../out
echo "exit status: $rc"
if [ $rc -ne 0 ] && grep -q 'Hunk #1: FAILED' ../out; then
    echo "VIOLATION: hunk #1 (lines b,c,d, stated line 2) matches the file exactly at line 2, yet it is reported FAILED with fuzz 0"
    exit 1
fi
[ "$(cat f | tr '\n' ' ')" = "a b c d e f X g " ] || { echo "unexpected content"; exit 2; }
echo "no violation"
exit 0
