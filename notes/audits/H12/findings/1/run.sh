#!/bin/bash
# C12 finding 1: a git file patch without hunks whose only extended headers are
# "copy from/copy to" (or a lone "rename from"/"rename to") is accepted by the
# parser as a FilePatch (Modify a -> b, no hunks), but the writer emits no
# extended header line for it, so the written form re-parses to NO file patch.
#
# usage: run.sh <path-to-rapidquilt-binary>   (the libpatch rlib built next to it is used)
# exit 1 = violation shows, 0 = property holds, 99 = harness could not be built
BIN=${1:?usage: run.sh path-to-binary}
TDIR=$(cd "$(dirname "$BIN")" && pwd)
W=$(mktemp -d) || exit 99
trap 'rm -rf "$W"' EXIT
RLIB=$TDIR/liblibpatch.rlib
[ -f "$RLIB" ] || { echo "CANNOT RUN: $RLIB not found (build the crate first)"; exit 99; }

cat > "$W/rt.rs" <<'RS'
use std::os::unix::fs::PermissionsExt;
use libpatch::patch::unified::parser::parse_patch;
use libpatch::patch::unified::writer::UnifiedPatchWriter;
use libpatch::patch::*;
fn desc(p: &TextPatch) -> Vec<String> {
    p.file_patches.iter().map(|fp| {
        let mut s = format!("kind={:?} old={:?} new={:?} rename={} modes={:?}/{:?} hashes={:?}/{:?}",
            fp.kind(), fp.old_filename().map(|c| c.as_os_str().to_owned()), fp.new_filename().map(|c| c.as_os_str().to_owned()),
            fp.is_rename(), fp.old_permissions().map(|p| p.mode()), fp.new_permissions().map(|p| p.mode()),
            fp.old_hash().map(|h| h.to_vec()), fp.new_hash().map(|h| h.to_vec()));
        for h in fp.hunks() { s += &format!("\n  hunk -@{} {:?} +@{} {:?}", h.remove.target_line, h.remove.content.iter().map(|l| String::from_utf8_lossy(l).into_owned()).collect::<Vec<_>>(), h.add.target_line, h.add.content.iter().map(|l| String::from_utf8_lossy(l).into_owned()).collect::<Vec<_>>()); }
        s
    }).collect()
}
fn main() {
    let mut bad = false;
    for a in std::env::args().skip(1) {
        let data = std::fs::read(&a).unwrap();
        let p1 = match parse_patch(&data, 0, true) { Ok(p) => p, Err(e) => { println!("{}: not accepted by the parser ({}) - nothing to check", a, e); continue; } };
        let mut w1 = Vec::new(); p1.write_to(&mut w1).unwrap();
        println!("== {}: parsed {} file patch(es):\n{}\n-- written form:\n{}", a, p1.file_patches.len(), desc(&p1).join("\n"), String::from_utf8_lossy(&w1));
        match parse_patch(&w1, 0, true) {
            Err(e) => { println!("VIOLATION: the written form is rejected: {}", e); bad = true; }
            Ok(p2) => {
                if desc(&p1) != desc(&p2) { println!("VIOLATION: the written form describes other file patches ({}):\n{}", p2.file_patches.len(), desc(&p2).join("\n")); bad = true; }
                let mut w2 = Vec::new(); p2.write_to(&mut w2).unwrap();
                if w1 != w2 { println!("VIOLATION: writing the re-parsed patch is no fixed point; second written form:\n{}<end>", String::from_utf8_lossy(&w2)); bad = true; }
            }
        }
    }
    std::process::exit(if bad { 1 } else { 0 });
}
RS
rustc --edition 2018 "$W/rt.rs" -o "$W/rt" -L "dependency=$TDIR/deps" --extern "libpatch=$RLIB" 2>"$W/rustc.err" \
    || { echo "CANNOT RUN: harness does not compile"; cat "$W/rustc.err"; exit 99; }

# what `git diff -C` prints for an unchanged copy
printf 'diff --git a/orig.c b/copy.c\nsimilarity index 100%%\ncopy from orig.c\ncopy to copy.c\n' > "$W/copy.patch"
# the same followed by an ordinary file patch: 2 file patches become 1
printf 'diff --git a/orig.c b/copy.c\nsimilarity index 100%%\ncopy from orig.c\ncopy to copy.c\ndiff --git a/f b/f\n--- a/f\n+++ b/f\n@@ -1 +1 @@\n-x\n+y\n' > "$W/copy_then_modify.patch"
# a lone "rename from" keeps the entry alive as well
printf 'diff --git a/x b/y\nrename from x\n' > "$W/half_rename.patch"

"$W/rt" "$W/copy.patch" "$W/copy_then_modify.patch" "$W/half_rename.patch"
