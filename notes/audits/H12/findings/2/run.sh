#!/bin/bash
# C12 finding 2: a name that is not literally "/dev/null" but that
# FilePatch::strip() (run by parse_patch even for strip 0) normalises to it
# ("/dev/null/", "/dev/null/.", "/dev/null//") is kept as a REAL file name
# "/dev/null". The writer prints it plain, where the parser reads it as the
# "no file" marker: the name is lost, or - if it was the only name - the
# written form is rejected.
#
# usage: run.sh <path-to-rapidquilt-binary>   (the libpatch rlib built next to it is used)
# exit 1 = violation shows, 0 = property holds, 99 = harness could not be built
BIN=${1:?usage: run.sh path-to-binary}
TDIR=$(cd "$(dirname "$BIN")" && pwd)
W=$(mktemp -d) || exit 99
trap 'rm -rf "$W"' EXIT
RLIB=$TDIR/liblibpatch.rlib
[ -f "$RLIB" ] || { echo "CANNOT RUN: $RLIB not found (build the crate first)"; exit 99; }

cat > "$W/rt.rs" <<'RS'
use std::os::unix::fs::PermissionsExt;
use libpatch::patch::unified::parser::parse_patch;
use libpatch::patch::unified::writer::UnifiedPatchWriter;
use libpatch::patch::*;
fn desc(p: &TextPatch) -> Vec<String> {
    p.file_patches.iter().map(|fp| {
        let mut s = format!("kind={:?} old={:?} new={:?} rename={} modes={:?}/{:?} hashes={:?}/{:?}",
            fp.kind(), fp.old_filename().map(|c| c.as_os_str().to_owned()), fp.new_filename().map(|c| c.as_os_str().to_owned()),
            fp.is_rename(), fp.old_permissions().map(|p| p.mode()), fp.new_permissions().map(|p| p.mode()),
            fp.old_hash().map(|h| h.to_vec()), fp.new_hash().map(|h| h.to_vec()));
        for h in fp.hunks() { s += &format!("\n  hunk -@{} {:?} +@{} {:?}", h.remove.target_line, h.remove.content.iter().map(|l| String::from_utf8_lossy(l).into_owned()).collect::<Vec<_>>(), h.add.target_line, h.add.content.iter().map(|l| String::from_utf8_lossy(l).into_owned()).collect::<Vec<_>>()); }
        s
    }).collect()
}
fn main() {
    let mut bad = false;
    for a in std::env::args().skip(1) {
        let data = std::fs::read(&a).unwrap();
        let p1 = match parse_patch(&data, 0, true) { Ok(p) => p, Err(e) => { println!("{}: not accepted by the parser ({}) - nothing to check", a, e); continue; } };
        let mut w1 = Vec::new(); p1.write_to(&mut w1).unwrap();
        println!("== {}: parsed {} file patch(es):\n{}\n-- written form:\n{}", a, p1.file_patches.len(), desc(&p1).join("\n"), String::from_utf8_lossy(&w1));
        match parse_patch(&w1, 0, true) {
            Err(e) => { println!("VIOLATION: the written form is rejected: {}", e); bad = true; }
            Ok(p2) => {
                if desc(&p1) != desc(&p2) { println!("VIOLATION: the written form describes other file patches ({}):\n{}", p2.file_patches.len(), desc(&p2).join("\n")); bad = true; }
                let mut w2 = Vec::new(); p2.write_to(&mut w2).unwrap();
                if w1 != w2 { println!("VIOLATION: writing the re-parsed patch is no fixed point; second written form:\n{}<end>", String::from_utf8_lossy(&w2)); bad = true; }
            }
        }
    }
    std::process::exit(if bad { 1 } else { 0 });
}
RS
rustc --edition 2018 "$W/rt.rs" -o "$W/rt" -L "dependency=$TDIR/deps" --extern "libpatch=$RLIB" 2>"$W/rustc.err" \
    || { echo "CANNOT RUN: harness does not compile"; cat "$W/rustc.err"; exit 99; }

# old name "/dev/null/" is a real name for the parser -> written as /dev/null -> re-parsed as "no old name"
printf -- '--- /dev/null/\n+++ b\n@@ -0,0 +1 @@\n+x\n' > "$W/old_name_lost.patch"
# the only name of the file patch: the written form is not accepted at all
printf -- '--- /dev/null\n+++ /dev/null/.\n@@ -1 +1 @@\n-x\n+y\n' > "$W/written_form_rejected.patch"

"$W/rt" "$W/old_name_lost.patch" "$W/written_form_rejected.patch"
