#!/bin/bash
# C17: "... the push exits with status 1 and a message - never a crash".
# With stdout on a device that cannot take the output (here /dev/full; a pipe
# whose reader is gone does the same) the progress line / the --fuzz warning is
# written with println!, which panics: exit status 101 and a panic report
# instead of the refusal.  (Nothing in the tree is touched.)
# usage: run.sh <path-to-rapidquilt>; exits 1 if the violation shows.
RQ=${1:?usage: run.sh <path-to-binary>}
[ -c /dev/full ] || { echo "no /dev/full here, can not run"; exit 2; }
T=$(mktemp -d) || exit 2
trap 'rm -rf "$T"' EXIT
mkws() {
  W=$T/ws.$1; mkdir -p "$W/patches" "$W/.pc"
  for f in a b c; do
    printf '%s1\n%s2\n%s3\n' $f $f $f > "$W/$f.txt"
    printf -- '--- x/%s.txt\n+++ x/%s.txt\n@@ -1,3 +1,3 @@\n %s1\n-%s2\n+%s2 changed\n %s3\n' $f $f $f $f $f $f > "$W/patches/$f.patch"
  done
  printf 'a.patch\nb.patch\nc.patch\n' > "$W/series"
}
violations=0
check() { # $1 label, $2 rc
  if [ "$2" -ne 1 ]; then
    echo "VIOLATION [$1]: exit=$2 (want 1); stderr starts: $(grep -m1 -a panicked "$T/err")"
    violations=$((violations+1))
  else echo "ok        [$1]: exit 1"; fi
}
# (c) missing patch file, default verbosity
mkws 1; rm "$W/patches/b.patch"
"$RQ" push -a -d "$W" --threads 1 > "$T/out" 2> "$T/err";      check "control: missing patch, stdout to a file" $?
"$RQ" push -a -d "$W" --threads 1 > /dev/full 2> "$T/err";     check "missing patch, stdout=/dev/full, 1 thread" $?
"$RQ" push -a -d "$W" --threads 2 > /dev/full 2> "$T/err";     check "missing patch, stdout=/dev/full, 2 threads" $?
# (c) unparseable patch file
mkws 2; printf -- '--- x/a.txt\n+++ x/a.txt\n@@ -1,3 +1,3 @@\n a1\nxxx\n' > "$W/patches/a.patch"
"$RQ" push -d "$W" --threads 1 > /dev/full 2> "$T/err";        check "unparseable patch, stdout=/dev/full" $?
# (a) applied-patches is not a prefix of series, (b) unknown goal: with --fuzz the warning comes first
mkws 3; printf 'c.patch\n' > "$W/.pc/applied-patches"
"$RQ" push -d "$W" --fuzz 2 --threads 1 > /dev/full 2> "$T/err"; check "series/applied mismatch, --fuzz 2, stdout=/dev/full" $?
mkws 4
"$RQ" push -d "$W" --fuzz 2 nosuch.patch > /dev/full 2> "$T/err"; check "unknown goal, --fuzz 2, stdout=/dev/full" $?
[ $violations -eq 0 ] && { echo "no violation"; exit 0; }
echo "$violations violation(s)"; exit 1
