#!/bin/bash
# C17, clause 1: .pc/applied-patches that is not a prefix of the series must be
# refused (exit 1, message, nothing touched).  If reading applied-patches fails
# for ANY reason (a line the series-option parser rejects, a byte that is not
# UTF-8, EACCES, EISDIR ...) cmd.rs silently takes "no patch applied" and pushes.
# usage: run.sh <path-to-rapidquilt>; exits 1 if the violation shows.
RQ=${1:?usage: run.sh <path-to-binary>}
T=$(mktemp -d) || exit 2
trap 'rm -rf "$T"' EXIT
snap() { (cd "$1" && find . -printf '%p %y %m %s\n' | sort; find . -type f -exec md5sum {} + | sort -k2); }
mkws() {
  W=$T/ws.$1; mkdir -p "$W/patches" "$W/.pc"
  for f in a b c; do
    printf '%s1\n%s2\n%s3\n' $f $f $f > "$W/$f.txt"
    printf -- '--- x/%s.txt\n+++ x/%s.txt\n@@ -1,3 +1,3 @@\n %s1\n-%s2\n+%s2 changed\n %s3\n' $f $f $f $f $f $f > "$W/patches/$f.patch"
  done
  printf 'a.patch\nb.patch\nc.patch\n' > "$W/series"
}
violations=0
n=0
try() {  # $1 = label, $2 = printf format of applied-patches, rest = options
  label=$1; content=$2; shift 2
  n=$((n+1)); mkws $n
  printf "$content" > "$W/.pc/applied-patches"
  snap "$W" > "$T/before"
  "$RQ" push -d "$W" "$@" > "$T/out" 2> "$T/err"; rc=$?
  snap "$W" > "$T/after"
  if [ $rc -ne 1 ] || ! cmp -s "$T/before" "$T/after" || ! [ -s "$T/err" ]; then
    echo "VIOLATION [$label] opts='$*': exit=$rc (want 1), stderr: '$(head -c 200 "$T/err")'"
    diff "$T/before" "$T/after" | sed 's/^/    /'
    echo "    applied-patches now: $(tr '\n' '|' < "$W/.pc/applied-patches" | od -An -c | tr -s ' ' | tr -d '\n')"
    violations=$((violations+1))
  else
    echo "ok        [$label] opts='$*': refused, exit 1, tree untouched"
  fi
}
# control: plain mismatch is refused
try "control: c.patch first"              'c.patch\n'            --threads 1
# the same inconsistent state, but the line does not get through the option parser
try "c.patch first, doubled -R"           'c.patch -R -R\n'      --threads 1
try "c.patch first, doubled -R"           'c.patch -R -R\n'      --threads 2 -a
try "unknown patch, unknown option"       'zzz.patch -x\n'       --threads 1
try "reordered b,a; bad -p on 2nd line"   'b.patch\na.patch -pX\n' --threads 1 b.patch
try "name with a non-UTF-8 byte"          'b\377ad.patch\n'      --threads 1
try "longer than series, last line bad"   'a.patch\nb.patch\nc.patch\nd.patch -p\n' --threads 1 -a
[ $violations -eq 0 ] && { echo "no violation"; exit 0; }
echo "$violations violation(s)"; exit 1
