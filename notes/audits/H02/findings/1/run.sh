#!/bin/bash
# C02 finding 1: with fuzz > 0 the search is centred on the stated line of the UNTRIMMED hunk
# although the compared lines start prefix_fuzz lines later; the recorded offset is off by the same amount.
# usage: run.sh <path-to-rapidquilt>
# Clause: "that position is the match nearest to the expected line (stated line plus the previous hunk's offset, forward winning ties)".
# Code: src/libpatch/patch/mod.rs try_apply_hunk: Middle target = remove_target_line() + last_hunk_offset and
#       offset = target_line - remove_target_line(), but remove_content() starts prefix_fuzz lines into the hunk.
# Fix:  add hunk_view.prefix_fuzz to the expected line and subtract it from the reported offset.
RQ=${1:?usage: run.sh <rapidquilt binary>}
W=$(mktemp -d) || exit 2
trap 'rm -rf "$W"' EXIT
bad=0

# --- (a) wrong "nearest" match --------------------------------------------------------------
# hunk says: line 5 = "a", 6 = "c", 7 = "d".  No "a" in the file, so fuzz 0 fails; fuzz 1 drops one
# context line at each end and compares just the changed line "c", which the hunk states for line 6.
mkdir -p "$W/a/patches"; cd "$W/a"
printf 'x\nx\nx\nc\nd\nq\nc\nd\nz\n' > f
cat > patches/p.patch <<'P'
--- a/f
+++ b/f
@@ -5,3 +5,3 @@
 a
-c
+C
 d
P
echo p.patch > series
"$RQ" push -a --fuzz 1 --threads 1 -q >/dev/null 2>&1; rc=$?
# the changed line "c" is stated for line 6; "c" occurs on line 4 (distance 2) and line 7 (distance 1)
want=$(printf 'x\nx\nx\nc\nd\nq\nC\nd\nz\n')
got=$(cat f)
if [ $rc -ne 0 ] || [ "$got" != "$want" ]; then
    echo "VIOLATION (a): rc=$rc; expected the match 1 line after the stated place (line 7), got:"; tr '\n' ' ' < f; echo
    bad=1
fi

# --- (b) wrong offset handed to the next hunk -------------------------------------------------
mkdir -p "$W/b/patches"; cd "$W/b"
printf 'p\nb\nq\nk\nx\nx\nk\n' > f
cat > patches/p.patch <<'P'
--- a/f
+++ b/f
@@ -1,3 +1,3 @@
 Z
-b
+B
 q
@@ -5,1 +5,1 @@
-x
+X
P
echo p.patch > series
"$RQ" push -a --fuzz 1 --threads 1 -q >/dev/null 2>&1; rc=$?
# hunk 1 goes in exactly where it says (fuzz 1, offset 0), so hunk 2 must change line 5, not line 6
want=$(printf 'p\nB\nq\nk\nX\nx\nk\n')
got=$(cat f)
if [ $rc -ne 0 ] || [ "$got" != "$want" ]; then
    echo "VIOLATION (b): rc=$rc; hunk 2 must change line 5 (exact stated line, previous offset 0), got:"; tr '\n' ' ' < f; echo
    bad=1
fi
exit $bad
