#!/bin/bash
# C02 finding 4: a context-free hunk with new range "+0,0" in a patch whose file stays (both names real)
# is only ever tried at line 1: no offset search, stated line ignored.
# Clause: "that position is the match nearest to the expected line"; "reported failed for lack of a match => no admissible position matches".
# Code: src/libpatch/patch/mod.rs apply_delete (kind Delete chosen in parser.rs recognize_kind for a context-free `+0,0` hunk):
#       when the target name is real only `content[..n] == expected` is tried. Mirrored for -R.
# Fix:  in that branch treat the hunk as an ordinary Modify hunk (apply_modify).
RQ=${1:?usage: run.sh <rapidquilt binary>}
W=$(mktemp -d) || exit 2
trap 'rm -rf "$W"' EXIT
bad=0

# (a) an earlier patch of the same push put two lines on top; the hunk matches exactly at offset +2
mkdir -p "$W/a/patches"; cd "$W/a"
printf 'one\ntwo\nthree\n' > f
cat > patches/p1.patch <<'P'
--- a/f
+++ b/f
@@ -0,0 +1,2 @@
+h1
+h2
P
cat > patches/p2.patch <<'P'
--- a/f
+++ b/f
@@ -1 +0,0 @@
-one
P
printf 'p1.patch\np2.patch\n' > series
out=$("$RQ" push -a --threads 1 2>&1); rc=$?
if [ $rc -ne 0 ] || [ "$(cat f)" != "$(printf 'h1\nh2\ntwo\nthree\n')" ]; then
    echo "VIOLATION (a): rc=$rc, hunk reported failed although 'one' is at line 3 (offset +2); file:"; tr '\n' ' ' < f; echo
    echo "$out" | grep -i 'hunk #'
    bad=1
fi

# (b) stated line 5, match at line 5 AND at line 1: the one at the stated line must be taken
mkdir -p "$W/b/patches"; cd "$W/b"
printf 'a\nb\nx\ny\na\nb\nz\n' > f
cat > patches/p.patch <<'P'
--- a/f
+++ b/f
@@ -5,2 +0,0 @@
-a
-b
P
echo p.patch > series
"$RQ" push -a --threads 1 -q >/dev/null 2>&1; rc=$?
if [ $rc -ne 0 ] || [ "$(cat f)" != "$(printf 'a\nb\nx\ny\nz\n')" ]; then
    echo "VIOLATION (b): rc=$rc, lines 5-6 were stated (and match), but got:"; tr '\n' ' ' < f; echo
    bad=1
fi
exit $bad
