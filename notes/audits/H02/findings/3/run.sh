#!/bin/bash
# C02 finding 3: anchoring to the start of the file is decided by the NEW-side line number and the hunk is
# then pinned to the stated OLD line (not to line 1).
# Clause: "hunks anchored to file start/end apply only there" / "reported failed ... no admissible position matches".
#         man patch: "... must apply at the start of the file if their first line number is 1" (old side).
# Code: src/libpatch/patch/mod.rs HunkView::position(): `self.add_target_line() == 0`; try_apply_hunk Start => remove_target_line().
# Fix:  test remove_target_line() == 0.
RQ=${1:?usage: run.sh <rapidquilt binary>}
W=$(mktemp -d) || exit 2
trap 'rm -rf "$W"' EXIT
bad=0

# (a) old side says line 1, less leading than trailing context => may only apply at the start of the file
mkdir -p "$W/a/patches"; cd "$W/a"
printf 'q\nq\nq\nq\na\nb\nc\n' > f
cat > patches/p.patch <<'P'
--- a/f
+++ b/f
@@ -1,3 +4,3 @@
-a
+A
 b
 c
P
echo p.patch > series
"$RQ" push -a --threads 1 -q >/dev/null 2>&1; rc=$?
if [ $rc -eq 0 ] || [ "$(cat f)" != "$(printf 'q\nq\nq\nq\na\nb\nc\n')" ]; then
    echo "VIOLATION (a): rc=$rc, start-anchored hunk was applied at line 5:"; tr '\n' ' ' < f; echo
    bad=1
fi

# (b) old side says line 5 (not anchored), new side says line 1 => ordinary hunk, must be found at offset +2
mkdir -p "$W/b/patches"; cd "$W/b"
printf 'q\nq\nq\nq\nq\nq\na\nb\nc\nq\n' > f
cat > patches/p.patch <<'P'
--- a/f
+++ b/f
@@ -5,3 +1,3 @@
-a
+A
 b
 c
P
echo p.patch > series
"$RQ" push -a --threads 1 -q >/dev/null 2>&1; rc=$?
if [ $rc -ne 0 ] || [ "$(cat f)" != "$(printf 'q\nq\nq\nq\nq\nq\nA\nb\nc\nq\n')" ]; then
    echo "VIOLATION (b): rc=$rc, hunk reported failed although it matches exactly 2 lines further down:"; tr '\n' ' ' < f; echo
    bad=1
fi
exit $bad
