#!/bin/bash
# C02 finding 5: the search takes the nearest match even when it lies inside the lines frozen by the
# previous hunk and then gives up ("misordered") instead of taking the nearest match after them;
# with fuzz allowed it then patches some other place with a higher fuzz level.
# Clauses: "reported failed ... no admissible position matches at any permitted fuzz"; "the lowest fuzz level admitting a position is the one used".
# Code: src/libpatch/patch/mod.rs try_apply_hunk: the scan stops at the nearest match anywhere, the frozen-line check comes afterwards.
# Fix:  positions < last_frozen_line must not count as matches (first guess and both scan ranges), as in GNU patch (min_where).
# Caveat: the reported reason is "misordered", so on a narrow reading only case (b) (wrong bytes, exit 0) violates the text.
RQ=${1:?usage: run.sh <rapidquilt binary>}
W=$(mktemp -d) || exit 2
trap 'rm -rf "$W"' EXIT
bad=0
mk() {
    mkdir -p "$1/patches"; cd "$1"
    printf '{\nx\n}\np1\np2\np3\nx\np5\np6\np7\np8\np9\np10\n{\nx\n}\n' > f
    cat > patches/p.patch <<'P'
--- a/f
+++ b/f
@@ -1,3 +1,3 @@
 {
-x
+X
 }
@@ -5,3 +5,3 @@
 {
-x
+Y
 }
P
    echo p.patch > series
}
want=$(printf '{\nX\n}\np1\np2\np3\nx\np5\np6\np7\np8\np9\np10\n{\nY\n}\n')

# (a) fuzz 0: the second block "{ x }" (lines 14-16) is an exact, non-overlapping match
mk "$W/a"
out=$("$RQ" push -a --threads 1 2>&1); rc=$?
if [ $rc -ne 0 ] || [ "$(cat f)" != "$want" ]; then
    echo "VIOLATION (a): rc=$rc, hunk 2 reported failed although lines 14-16 match exactly:"; tr '\n' ' ' < f; echo
    echo "$out" | grep -i 'hunk #'
    bad=1
fi
# (b) fuzz 1: same input, now hunk 2 is applied with fuzz 1 to the lone "x" on line 7
mk "$W/b"
"$RQ" push -a --fuzz 1 --threads 1 -q >/dev/null 2>&1; rc=$?
if [ $rc -ne 0 ] || [ "$(cat f)" != "$want" ]; then
    echo "VIOLATION (b): rc=$rc, fuzz 0 admits lines 14-16 but the hunk went in elsewhere with fuzz 1:"; tr '\n' ' ' < f; echo
    bad=1
fi
exit $bad
