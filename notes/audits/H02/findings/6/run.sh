#!/bin/bash
# C02 finding 6: a hugely negative expected line (small stated line + large negative offset from the
# previous hunk) makes the forward scan walk over ~2*10^18 impossible negative positions: the push hangs.
# Clause: quantification over stated line numbers "too small, too large, beyond EOF"; a hang.
# Code: src/libpatch/patch/mod.rs try_apply_hunk: forward_indexes = (target_line + 1)..=... with target_line ~ -2e18
#       (parser allows line numbers up to isize::MAX/4; offset of previous hunk = -(stated-1)). Also reached from
#       apply/diagnostics.rs test_apply_with_fuzzes (without -q) when the hunk only becomes Middle at fuzz >= 1.
# Fix:  start the forward range at max(target_line + 1, 0).
RQ=${1:?usage: run.sh <rapidquilt binary>}
W=$(mktemp -d) || exit 2
trap 'rm -rf "$W"' EXIT
mkdir -p "$W/a/patches"; cd "$W/a"
printf 'a\nb\nc\nd\ne\nf\ng\nh\n' > f
cat > patches/p.patch <<'P'
--- a/f
+++ b/f
@@ -2000000000000000000,2 +2000000000000000000,2 @@
-a
+A
 b
@@ -6,3 +6,3 @@
 e
-f
+F
 g
P
echo p.patch > series
timeout 30 "$RQ" push -a --threads 1 -q >/dev/null 2>&1; rc=$?
# hunk 1 matches at line 1 (offset -1999999999999999999); hunk 2: the only match "e f g" is at line 5.
# Either outcome (applied at line 5, or a clean failure) would terminate.
if [ $rc -eq 124 ]; then
    echo "VIOLATION: rapidquilt did not finish within 30 s (rc=124)"
    exit 1
fi
if [ $rc -ne 0 ] || [ "$(cat f)" != "$(printf 'A\nb\nc\nd\ne\nF\ng\nh\n')" ]; then
    echo "unexpected: rc=$rc file: $(tr '\n' ' ' < f)"
    exit 1
fi
exit 0
