#!/bin/bash
# C02 finding 2: a hunk without leading context that starts exactly where the previous hunk's changed
# lines end is refused as "misordered" (off-by-one in the frozen-line check); with fuzz the refusal makes
# rapidquilt go on to a higher fuzz level and patch another place.
# Clauses: "reported failed ... no admissible position matches"; "the lowest fuzz level admitting a position is the one used".
# Code: src/libpatch/patch/mod.rs try_apply_hunk: `target_line + prefix_context <= last_frozen_line`, while apply_modify sets
#       last_frozen_line = line + remove_len - suffix_context (exclusive end). Misordered counts as no-match, so the fuzz loop goes on.
# Fix:  keep only `target_line < last_frozen_line`.
RQ=${1:?usage: run.sh <rapidquilt binary>}
W=$(mktemp -d) || exit 2
trap 'rm -rf "$W"' EXIT
bad=0

# (a) fuzz 0: two adjacent one-line changes
mkdir -p "$W/a/patches"; cd "$W/a"
printf 'a\nb\nc\n' > f
cat > patches/p.patch <<'P'
--- a/f
+++ b/f
@@ -1,1 +1,1 @@
-a
+A
@@ -2,1 +2,1 @@
-b
+B
P
echo p.patch > series
out=$("$RQ" push -a --threads 1 2>&1); rc=$?
if [ $rc -ne 0 ] || [ "$(cat f)" != "$(printf 'A\nB\nc\n')" ]; then
    echo "VIOLATION (a): rc=$rc, both hunks match exactly at their stated lines and do not overlap; file:"; tr '\n' ' ' < f; echo
    echo "$out" | grep -i 'hunk #'
    bad=1
fi

# (b) fuzz 1: exact fuzz-0 match at offset -2 is thrown away, hunk goes in with fuzz 1 elsewhere
mkdir -p "$W/b/patches"; cd "$W/b"
printf 'a\nb\nc\nb\nd\n' > f
cat > patches/p.patch <<'P'
--- a/f
+++ b/f
@@ -1,1 +1,1 @@
-a
+A
@@ -4,2 +4,2 @@
-b
+B
 c
P
echo p.patch > series
"$RQ" push -a --fuzz 1 --threads 1 -q >/dev/null 2>&1; rc=$?
# "b c" exists only at line 2 (fuzz 0, offset -2): lowest fuzz level must win
if [ $rc -ne 0 ] || [ "$(cat f)" != "$(printf 'A\nB\nc\nb\nd\n')" ]; then
    echo "VIOLATION (b): rc=$rc, expected 'A B c b d' (fuzz 0 at line 2), got:"; tr '\n' ' ' < f; echo
    bad=1
fi
exit $bad
