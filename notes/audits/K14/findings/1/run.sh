#!/bin/bash
# C14: --mmap changes the result when a name is an empty directory whose st_size is 0
# (btrfs - the openSUSE default -, ramfs, sysfs ...): MmapArena::load_file returns
# Ok(&[]) for every zero-length *open-able* object, directories included, while
# FileArena (fs::read) fails with EISDIR.
#
# usage: run.sh <path-to-rapidquilt>       exit 1 = violation shown, 0 = not shown
BIN=$(readlink -f "$1")
[ -x "$BIN" ] || { echo "usage: $0 <rapidquilt binary>"; exit 2; }

snapshot() { # tree listing with modes and content hashes, without the mount point itself
    (cd "$1" && find . -mindepth 1 | LC_ALL=C sort | while read -r f; do
        if [ -f "$f" ]; then echo "$f $(stat -c %a "$f") $(sha1sum < "$f")"; else echo "$f dir"; fi
    done)
}

make_ws() { # $1 = workspace
    mkdir -p "$1/patches" "$1/d" "$1/patches/p2.patch"      # d and p2.patch: EMPTY DIRECTORIES
    printf 'one\n' > "$1/a"
    cat > "$1/patches/p0.patch" <<'P'
--- a/a
+++ b/a
@@ -1 +1 @@
-one
+two
P
    cat > "$1/patches/p1.patch" <<'P'
--- a/d
+++ b/d
@@ -1 +1 @@
-x
+y
P
}

run_cases() { # $1 = directory on a file system whose empty directories have size 0
    top=$1
    rc=0
    # case A: the target "d" of p1 is an empty directory
    for v in plain mmap; do
        make_ws "$top/A-$v"; printf 'p0.patch\np1.patch\n' > "$top/A-$v/series"
    done
    "$BIN" push -a -q --threads 1        -d "$top/A-plain" >"$top/A-plain.out" 2>&1; ea=$?
    "$BIN" push -a -q --threads 1 --mmap -d "$top/A-mmap"  >"$top/A-mmap.out"  2>&1; eb=$?
    snapshot "$top/A-plain" > "$top/A-plain.snap"; snapshot "$top/A-mmap" > "$top/A-mmap.snap"
    echo "case A (target is an empty directory): exit $ea without --mmap, $eb with --mmap"
    if ! diff "$top/A-plain.snap" "$top/A-mmap.snap"; then
        echo "VIOLATION: tree/.pc/rejects differ between plain and --mmap run"; rc=1
    fi
    # case B: the patch file "p2.patch" named in series is an empty directory
    for v in plain mmap; do
        make_ws "$top/B-$v"; printf 'p0.patch\np2.patch\n' > "$top/B-$v/series"
    done
    "$BIN" push -a -q --threads 1        -d "$top/B-plain" >"$top/B-plain.out" 2>&1; ea=$?
    "$BIN" push -a -q --threads 1 --mmap -d "$top/B-mmap"  >"$top/B-mmap.out"  2>&1; eb=$?
    snapshot "$top/B-plain" > "$top/B-plain.snap"; snapshot "$top/B-mmap" > "$top/B-mmap.snap"
    echo "case B (patch file is an empty directory): exit $ea without --mmap, $eb with --mmap"
    if [ "$ea" != "$eb" ] || ! diff "$top/B-plain.snap" "$top/B-mmap.snap"; then
        echo "VIOLATION: exit status or tree differ between plain and --mmap run"; rc=1
    fi
    return $rc
}

if [ -n "$K14_INNER" ]; then
    # we are inside a private mount namespace: put a ramfs on the scratch directory
    mount -t ramfs none "$K14_INNER" || exit 77
    mkdir "$K14_INNER/probe"
    [ "$(stat -c %s "$K14_INNER/probe")" = 0 ] || exit 77
    run_cases "$K14_INNER"; rc=$?
    umount -l "$K14_INNER"
    exit $rc
fi

T=$(mktemp -d) || exit 2
trap 'rm -rf "$T"' EXIT
mkdir "$T/probe"
if [ "$(stat -c %s "$T/probe")" = 0 ]; then
    echo "empty directories have size 0 here, using $T directly"
    run_cases "$T"; exit $?
fi

mkdir "$T/m"
K14_INNER="$T/m" unshare -m -- "$0" "$BIN"; rc=$?
if [ $rc != 77 ]; then exit $rc; fi

# No way to get a ramfs. Last resort: sysfs directories have size 0 as well. The
# patch named in series is a symbolic link to /sys/kernel (a directory).
echo "cannot mount a ramfs, falling back to a sysfs directory as 'patch file'"
[ -d /sys/kernel ] && [ "$(stat -c %s /sys/kernel)" = 0 ] || { echo "SKIP: no zero-size directory available"; exit 0; }
rc=0
for v in plain mmap; do
    mkdir -p "$T/C-$v/patches"; printf 'one\n' > "$T/C-$v/a"
    ln -s /sys/kernel "$T/C-$v/patches/p2.patch"; echo p2.patch > "$T/C-$v/series"
done
"$BIN" push -a -q --threads 1        -d "$T/C-plain" >/dev/null 2>&1; ea=$?
"$BIN" push -a -q --threads 1 --mmap -d "$T/C-mmap"  >/dev/null 2>&1; eb=$?
echo "case C: exit $ea without --mmap, $eb with --mmap; applied-patches with --mmap: $(cat "$T/C-mmap/.pc/applied-patches" 2>/dev/null)"
if [ "$ea" != "$eb" ]; then echo "VIOLATION: exit status differs"; rc=1; fi
exit $rc
