#!/bin/bash
# C09 finding 5: with two or more threads a failing push re-writes files that
# only patches AFTER the failing one name (a worker ran ahead, rolled back and
# "saves" the file: unlink + create).  A symlink becomes a regular file, a hard
# link is broken.  With one thread such files are never touched.
RQ=$(readlink -f "${1:?usage: run.sh <path-to-rapidquilt>}")
W=$(mktemp -d)
bad=0
mk() {
    mkdir -p "$1/patches"; seq 1 200000 > "$1/f"; printf 'x\ny\n' > "$1/target"; ln -s target "$1/g"; ln "$1/target" "$1/h"
    printf -- '--- a/f\n+++ b/f\n@@ -1,3 +1,3 @@\n-1\n+A\n 2\n 3\n' > "$1/patches/p1.patch"      # applies
    printf -- '--- a/f\n+++ b/f\n@@ -1,3 +1,3 @@\n A\n-x\n+B\n 3\n' > "$1/patches/p2.patch"      # fails
    printf -- '--- a/g\n+++ b/g\n@@ -1,2 +1,2 @@\n-x\n+X\n y\n--- a/h\n+++ b/h\n@@ -1,2 +1,2 @@\n-x\n+X\n y\n' > "$1/patches/p3.patch"   # never reached
    printf 'p1.patch\np2.patch\np3.patch\n' > "$1/series"
}
mk "$W/seq"; "$RQ" push -a -q -d "$W/seq" --threads 1 2>/dev/null
[ -L "$W/seq/g" ] || { echo "unexpected: sequential push replaced the symlink"; bad=1; }
for i in 1 2 3 4 5; do
    mk "$W/par$i"; "$RQ" push -a -q -d "$W/par$i" --threads 2 2>/dev/null
    if [ ! -L "$W/par$i/g" ] || [ "$(stat -c %h "$W/par$i/h")" != 2 ]; then
        echo "VIOLATION (run $i, --threads 2): g is $([ -L "$W/par$i/g" ] && echo 'still a symlink' || echo 'now a regular file'), h has $(stat -c %h "$W/par$i/h") link(s); applied: $(tr '\n' ' ' < "$W/par$i/.pc/applied-patches")(p3 was never applied)"
        bad=1; break
    fi
done
rm -rf "$W"
exit $bad
