#!/bin/bash
# C09 finding 1: two patches that modify the same file under the names "./f" and
# "f" (-p0).  One push of both loses one patch's change silently (exit 0, both
# patches recorded as applied); pushing them one by one applies both.
# A second part shows the same through a symlink alias.
RQ=$(readlink -f "${1:?usage: run.sh <path-to-rapidquilt>}")
W=$(mktemp -d)
bad=0

mk() {
    mkdir -p "$1/patches"
    seq 1 20 > "$1/f"
    cat > "$1/patches/p1.patch" <<'P'
--- ./f
+++ ./f
@@ -1,3 +1,3 @@
-1
+ONE
 2
 3
P
    cat > "$1/patches/p2.patch" <<'P'
--- f
+++ f
@@ -18,3 +18,3 @@
 18
 19
-20
+TWENTY
P
    printf 'p1.patch -p0\np2.patch -p0\n' > "$1/series"
}

mk "$W/split"
"$RQ" push -q -d "$W/split" --threads 1 || bad=1
"$RQ" push -q -d "$W/split" --threads 1 || bad=1

for T in 1 2 3; do
    mk "$W/one$T"
    "$RQ" push -a -q -d "$W/one$T" --threads $T; rc=$?
    if ! cmp -s "$W/one$T/f" "$W/split/f" || ! cmp -s "$W/one$T/.pc/applied-patches" "$W/split/.pc/applied-patches" || [ $rc -ne 0 ]; then
        echo "VIOLATION (./f vs f, --threads $T): exit $rc, applied: $(tr '\n' ' ' < "$W/one$T/.pc/applied-patches")"
        echo "  single push: first line '$(head -1 "$W/one$T/f")' last line '$(tail -1 "$W/one$T/f")'"
        echo "  split  push: first line '$(head -1 "$W/split/f")' last line '$(tail -1 "$W/split/f")'"
        bad=1
    fi
done

# symlink alias
mk2() {
    mkdir -p "$1/patches"
    seq 1 20 > "$1/f"; ln -s f "$1/l"
    cat > "$1/patches/p1.patch" <<'P'
--- a/f
+++ b/f
@@ -1,3 +1,3 @@
-1
+ONE
 2
 3
P
    cat > "$1/patches/p2.patch" <<'P'
--- a/l
+++ b/l
@@ -18,3 +18,3 @@
 18
 19
-20
+TWENTY
P
    printf 'p1.patch\np2.patch\n' > "$1/series"
}
mk2 "$W/s_one";   "$RQ" push -a -q -d "$W/s_one" --threads 1
mk2 "$W/s_split"; "$RQ" push -q -d "$W/s_split" --threads 1; "$RQ" push -q -d "$W/s_split" --threads 1
if ! cmp -s "$W/s_one/l" "$W/s_split/l"; then
    echo "VIOLATION (symlink alias): file 'l' after one push starts with '$(head -1 "$W/s_one/l")', after two pushes with '$(head -1 "$W/s_split/l")'"
    bad=1
fi

rm -rf "$W"
exit $bad
