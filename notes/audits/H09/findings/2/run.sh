#!/bin/bash
# C09 finding 2: a path that is a file before and a directory after (or the
# other way round).  Pushing the patches one by one works, one push of the
# same patches dies with ENOTDIR / EISDIR (exit 1, nothing applied); and a
# series where one push works while the split one dies.
RQ=$(readlink -f "${1:?usage: run.sh <path-to-rapidquilt>}")
W=$(mktemp -d)
bad=0

state() { (cd "$1" && find . -path ./patches -prune -o -path ./.pc -prune -o -print | sort | while read -r p; do if [ -f "$p" ]; then echo "$p: $(cat "$p")"; else echo "$p/"; fi; done; echo "applied: $(cat .pc/applied-patches 2>/dev/null | tr "\n" " ")"); }

# (a) file "a" deleted by p1, "a/b" created by p2
mk_a() {
    mkdir -p "$1/patches"; printf 'hello\n' > "$1/a"
    printf -- '--- a/a\n+++ /dev/null\n@@ -1 +0,0 @@\n-hello\n' > "$1/patches/p1.patch"
    printf -- '--- /dev/null\n+++ b/a/b\n@@ -0,0 +1 @@\n+world\n' > "$1/patches/p2.patch"
    printf 'p1.patch\np2.patch\n' > "$1/series"
}
# (b) "a/b" (only file of directory a) deleted by p1, file "a" created by p2
mk_b() {
    mkdir -p "$1/patches" "$1/a"; printf 'hello\n' > "$1/a/b"
    printf -- '--- a/a/b\n+++ /dev/null\n@@ -1 +0,0 @@\n-hello\n' > "$1/patches/p1.patch"
    printf -- '--- /dev/null\n+++ b/a\n@@ -0,0 +1 @@\n+world\n' > "$1/patches/p2.patch"
    printf 'p1.patch\np2.patch\n' > "$1/series"
}
# (c) p1 creates "a/b"; p2 deletes "a/b" and creates the file "a"
mk_c() {
    mkdir -p "$1/patches"
    printf -- '--- /dev/null\n+++ b/a/b\n@@ -0,0 +1 @@\n+hello\n' > "$1/patches/p1.patch"
    printf -- '--- a/a/b\n+++ /dev/null\n@@ -1 +0,0 @@\n-hello\n--- /dev/null\n+++ b/a\n@@ -0,0 +1 @@\n+world\n' > "$1/patches/p2.patch"
    printf 'p1.patch\np2.patch\n' > "$1/series"
}

for v in a b c; do
    for T in 1 2; do
        mk_$v "$W/$v.one$T";   "$RQ" push -a -q -d "$W/$v.one$T" --threads $T 2> "$W/$v.one$T.err"; r1=$?
        mk_$v "$W/$v.split$T"; "$RQ" push -q -d "$W/$v.split$T" --threads $T 2> "$W/$v.split$T.err"; "$RQ" push -q -d "$W/$v.split$T" --threads $T 2>> "$W/$v.split$T.err"; r2=$?
        if [ $r1 -ne $r2 ] || [ "$(state "$W/$v.one$T")" != "$(state "$W/$v.split$T")" ]; then
            echo "VIOLATION (variant $v, --threads $T): one push exits $r1, split push exits $r2"
            echo "  one push:   $(state "$W/$v.one$T" | tr '\n' ';') $(tr '\n' ' ' < "$W/$v.one$T.err")"
            echo "  split push: $(state "$W/$v.split$T" | tr '\n' ';') $(tr '\n' ' ' < "$W/$v.split$T.err")"
            bad=1
        fi
    done
done
rm -rf "$W"
exit $bad
