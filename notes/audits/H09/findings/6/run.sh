#!/bin/bash
# C09 finding 6: an I/O error while saving leaves the tree half saved and
# .pc/applied-patches untouched.  Repeating the push then stops at ANOTHER
# patch (an already-saved one, "FAILED" with a reject) instead of giving the
# same result, and the state differs from pushing the patches one by one.
RQ=$(readlink -f "${1:?usage: run.sh <path-to-rapidquilt>}")
W=$(mktemp -d); chmod 755 "$W"
bad=0
if [ "$(id -u)" = 0 ]; then
    command -v setpriv >/dev/null || { echo "need setpriv to drop root"; exit 0; }
    run() { setpriv --reuid=65534 --regid=65534 --clear-groups "$@"; }
    # the binary must be reachable for the unprivileged user
    cp "$RQ" "$W/rq"; chmod 755 "$W/rq"; RQ="$W/rq"
else
    run() { "$@"; }
fi
FILES="x1 x2 x3 x4 x5 x6 x7 x8 ro/zz"
mk() {
    mkdir -p "$1/patches" "$1/ro"; i=0
    for n in $FILES; do i=$((i+1)); printf 'a\nb\nc\n' > "$1/$n"
        printf -- "--- a/$n\n+++ b/$n\n@@ -1,3 +1,3 @@\n-a\n+A\n b\n c\n" > "$1/patches/p$i.patch"; echo "p$i.patch" >> "$1/series"; done
    chmod 555 "$1/ro"          # files in ro/ cannot be replaced
    [ "$(id -u)" = 0 ] && chown -R 65534:65534 "$1"
}
state() { (cd "$1"; for n in $FILES; do printf '%s=%s ' $n "$(head -1 $n)"; done; echo; echo "applied: $(cat .pc/applied-patches 2>/dev/null | tr '\n' ' ')"; echo "rejects: $(find . -name '*.rej' | sort | tr '\n' ' ')"); }

mk "$W/one"
run "$RQ" push -a -q -d "$W/one" --threads 1 2> "$W/err1"; r1=$?; s1=$(state "$W/one")
run "$RQ" push -a -q -d "$W/one" --threads 1 2> "$W/err2"; r2=$?; s2=$(state "$W/one")
echo "first  push -a: exit $r1: $(head -1 "$W/err1")"; echo "$s1" | sed 's/^/    /'
echo "second push -a: exit $r2: $(head -1 "$W/err2")"; echo "$s2" | sed 's/^/    /'
if [ "$s1" != "$s2" ] || [ "$(head -1 "$W/err1")" != "$(head -1 "$W/err2")" ]; then
    echo "VIOLATION: the push after the failed push does not stop at the same place with the same result"; bad=1
fi
mk "$W/split"
for i in 1 2 3 4 5 6 7 8 9; do run "$RQ" push -q -d "$W/split" --threads 1 2>/dev/null; done; s3=$(state "$W/split")
echo "nine times push:"; echo "$s3" | sed 's/^/    /'
if [ "$s1" != "$s3" ]; then echo "VIOLATION: one push -a and nine single pushes leave different trees / applied-patches"; bad=1; fi
chmod -R u+w "$W" 2>/dev/null; rm -rf "$W"
exit $bad
