#!/bin/bash
# C09 finding 7: directories depend on where the series was cut.
#  (a) tree has an empty directory d; p1 creates d/f, p2 deletes d/f:
#      one push keeps d, two pushes remove it (and then a reject for a later
#      failing patch on d/g is written in one case, bypassed in the other)
#  (b) d (mode 0700) holds only d/f; p1 deletes d/f, p2 re-creates it:
#      one push keeps d as it is, two pushes re-create it with default mode
RQ=$(readlink -f "${1:?usage: run.sh <path-to-rapidquilt>}")
W=$(mktemp -d)
bad=0
mk_a() {
    mkdir -p "$1/patches" "$1/d"
    printf -- '--- /dev/null\n+++ b/d/f\n@@ -0,0 +1 @@\n+hello\n' > "$1/patches/p1.patch"
    printf -- '--- a/d/f\n+++ /dev/null\n@@ -1 +0,0 @@\n-hello\n' > "$1/patches/p2.patch"
    printf -- '--- a/d/g\n+++ b/d/g\n@@ -1 +1 @@\n-x\n+y\n' > "$1/patches/p3.patch"     # fails: no such file
    printf 'p1.patch\np2.patch\np3.patch\n' > "$1/series"
}
mk_b() {
    mkdir -p "$1/patches"; mkdir -m 0700 "$1/d"; echo hello > "$1/d/f"
    printf -- '--- a/d/f\n+++ /dev/null\n@@ -1 +0,0 @@\n-hello\n' > "$1/patches/p1.patch"
    printf -- '--- /dev/null\n+++ b/d/f\n@@ -0,0 +1 @@\n+hello\n' > "$1/patches/p2.patch"
    printf 'p1.patch\np2.patch\n' > "$1/series"
}
state() { (cd "$1" && find . -path ./patches -prune -o -path ./.pc -prune -o -printf '%p %M\n' | sort | tr '\n' ';'; echo " applied: $(cat .pc/applied-patches 2>/dev/null | tr '\n' ' ')"); }
for v in a b; do
  for T in 1 2; do
    mk_$v "$W/$v.one$T";   "$RQ" push -a -q -d "$W/$v.one$T" --threads $T 2>/dev/null
    mk_$v "$W/$v.split$T"; "$RQ" push -q -d "$W/$v.split$T" --threads $T 2>/dev/null; "$RQ" push -a -q -d "$W/$v.split$T" --threads $T 2>/dev/null
    if [ "$(state "$W/$v.one$T")" != "$(state "$W/$v.split$T")" ]; then
        echo "VIOLATION (variant $v, --threads $T):"
        echo "   push -a      : $(state "$W/$v.one$T")"
        echo "   push; push -a: $(state "$W/$v.split$T")"
        bad=1
    fi
  done
done
rm -rf "$W"
exit $bad
