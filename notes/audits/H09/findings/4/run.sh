#!/bin/bash
# C09 finding 4: with two or more threads, a problem in a patch AFTER the
# failing one changes the outcome of the push; with one thread it does not.
#  (a) deterministic: a later patch file is missing / unparsable
#  (b) a later patch hits an error while loading its target (worker ran ahead)
RQ=$(readlink -f "${1:?usage: run.sh <path-to-rapidquilt>}")
W=$(mktemp -d)
bad=0
state() { (cd "$1" && echo "f: $(head -1 f)"; echo "f.rej: $([ -e f.rej ] && echo yes || echo no)"; echo "applied: $(cat .pc/applied-patches 2>/dev/null | tr '\n' ' ')"); }

mk() {  # $2 = variant
    mkdir -p "$1/patches"; seq 1 200000 > "$1/f"; printf 'x\n' > "$1/plainfile"
    printf -- '--- a/f\n+++ b/f\n@@ -1,3 +1,3 @@\n-1\n+A\n 2\n 3\n' > "$1/patches/p1.patch"      # applies
    printf -- '--- a/f\n+++ b/f\n@@ -1,3 +1,3 @@\n A\n-x\n+B\n 3\n' > "$1/patches/p2.patch"      # fails
    if [ "$2" = b ]; then   # p3: its target cannot be loaded (ENOTDIR)
        printf -- '--- /dev/null\n+++ b/plainfile/sub\n@@ -0,0 +1 @@\n+X\n' > "$1/patches/p3.patch"
    fi                      # variant a: p3.patch does not exist
    printf 'p1.patch\np2.patch\np3.patch\n' > "$1/series"
}
for v in a b; do
    mk "$W/$v.seq" $v; "$RQ" push -a -q -d "$W/$v.seq" --threads 1 2>/dev/null; r1=$?
    ref=$(state "$W/$v.seq")
    for T in 2 3; do
        mk "$W/$v.par$T" $v; "$RQ" push -a -q -d "$W/$v.par$T" --threads $T 2> "$W/err"; r2=$?
        if [ "$(state "$W/$v.par$T")" != "$ref" ]; then
            echo "VIOLATION (variant $v): --threads 1 (exit $r1): $(echo "$ref" | tr '\n' ';')"
            echo "                       --threads $T (exit $r2): $(state "$W/$v.par$T" | tr '\n' ';') [$(head -2 "$W/err" | tr '\n' ' ')]"
            bad=1
        fi
    done
done
rm -rf "$W"
exit $bad
