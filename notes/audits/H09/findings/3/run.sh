#!/bin/bash
# C09 finding 3: a line without newline that ends up in the middle of a file is
# glued to its successor on disk ("b" + "c\n" = "bc\n") but stays two lines in
# the memory of the running push.  The next patch therefore sees different
# lines depending on whether a save/reload happened in between.
RQ=$(readlink -f "${1:?usage: run.sh <path-to-rapidquilt>}")
W=$(mktemp -d)
bad=0
mk() {
    mkdir -p "$1/patches"; printf 'a\nb' > "$1/f"      # no newline at the end
    printf -- '--- a/f\n+++ b/f\n@@ -2,0 +3 @@\n+c\n' > "$1/patches/p1.patch"              # append a line (diff -U0 style)
    printf -- '--- a/f\n+++ b/f\n@@ -1,2 +1,2 @@\n a\n-bc\n+X\n' > "$1/patches/p2.patch"    # written against the result on disk
    printf 'p1.patch\np2.patch\n' > "$1/series"
}
mk "$W/split"; "$RQ" push -q -d "$W/split" --threads 1; "$RQ" push -q -d "$W/split" --threads 1 2>/dev/null; r2=$?
for T in 1 2; do
    mk "$W/one$T"; "$RQ" push -a -q -d "$W/one$T" --threads $T 2>/dev/null; r1=$?
    if [ $r1 -ne $r2 ] || ! cmp -s "$W/one$T/f" "$W/split/f" || ! cmp -s "$W/one$T/.pc/applied-patches" "$W/split/.pc/applied-patches" || [ -e "$W/one$T/f.rej" ]; then
        echo "VIOLATION (--threads $T): one push exit $r1, f=$(od -An -c "$W/one$T/f" | tr -s ' '), applied: $(tr '\n' ' ' < "$W/one$T/.pc/applied-patches"), f.rej: $([ -e "$W/one$T/f.rej" ] && echo yes || echo no)"
        echo "           split push exit $r2, f=$(od -An -c "$W/split/f" | tr -s ' '), applied: $(tr '\n' ' ' < "$W/split/.pc/applied-patches")"
        bad=1
    fi
done
rm -rf "$W"
exit $bad
