#!/bin/bash
# C09 finding 8: "push N" with a huge N: first_patch + N overflows.
# With nothing applied `push 18446744073709551615` equals `push -a`; once one
# patch is applied the same command panics (debug build) or silently does
# nothing and exits 0 (release build, the sum wraps around).
RQ=$(readlink -f "${1:?usage: run.sh <path-to-rapidquilt>}")
W=$(mktemp -d)
bad=0
mk() {
    mkdir -p "$1/patches"; printf 'a\nb\nc\n' > "$1/f"
    printf -- '--- a/f\n+++ b/f\n@@ -1,3 +1,3 @@\n-a\n+A\n b\n c\n' > "$1/patches/p1.patch"
    printf -- '--- a/f\n+++ b/f\n@@ -1,3 +1,3 @@\n A\n-b\n+B\n c\n' > "$1/patches/p2.patch"
    printf -- '--- a/f\n+++ b/f\n@@ -1,3 +1,3 @@\n A\n B\n-c\n+C\n' > "$1/patches/p3.patch"
    printf 'p1.patch\np2.patch\np3.patch\n' > "$1/series"
}
mk "$W/one";   "$RQ" push -q -d "$W/one" 18446744073709551615 2>/dev/null; r1=$?
mk "$W/split"; "$RQ" push -q -d "$W/split" 2>/dev/null; "$RQ" push -q -d "$W/split" 18446744073709551615 2> "$W/err"; r2=$?
if [ $r1 -ne $r2 ] || ! cmp -s "$W/one/f" "$W/split/f" || ! cmp -s "$W/one/.pc/applied-patches" "$W/split/.pc/applied-patches"; then
    echo "VIOLATION: push HUGE                : exit $r1, f=$(tr '\n' ' ' < "$W/one/f"), applied: $(tr '\n' ' ' < "$W/one/.pc/applied-patches")"
    echo "           push; push HUGE          : exit $r2, f=$(tr '\n' ' ' < "$W/split/f"), applied: $(tr '\n' ' ' < "$W/split/.pc/applied-patches") [$(grep -m1 -E 'panicked|overflow' "$W/err" | tr -d '\n') $(grep -m1 overflow "$W/err")]"
    bad=1
fi
rm -rf "$W"
exit $bad
