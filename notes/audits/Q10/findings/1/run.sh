#!/bin/bash
# C10: --dry-run reports success, the real run on the same input fails.
# A tracked file whose path is just short of PATH_MAX can be loaded and saved,
# but its quilt backup ".pc/<patch>/<path>" is 12 bytes longer and can not be
# created (ENAMETOOLONG). Nothing in the dry run looks at that.
# usage: run.sh <path-to-rapidquilt>; exits 1 if the violation shows.
set -u
BIN=$(readlink -f "$1")
TOP=$(mktemp -d)
trap 'rm -rf "$TOP"' EXIT

comp=$(printf 'd%.0s' $(seq 1 203))
p=""
for i in $(seq 1 20); do p="$p$comp/"; done      # 20 * 204 = 4080 bytes
file="${p}ffffff"                                 # 4086 bytes; ".pc/p1.patch/" + that > 4095

mk() {   # $1 = workspace name; paths are used relative to the workspace
    mkdir "$TOP/$1" && cd "$TOP/$1" || exit 2
    mkdir -p "$p" patches || exit 2
    echo hello > "$file" || exit 2
    printf -- '--- a/%s\n+++ b/%s\n@@ -1 +1 @@\n-hello\n+world\n' "$file" "$file" > patches/p1.patch
    printf -- '--- a/%s\n+++ b/%s\n@@ -1 +1 @@\n-nothing like this\n+x\n' "$file" "$file" > patches/p2.patch
    printf '%s\n' "$2" > series
}

rc=0

# Variant A: one patch, --backup always
mk dryA "p1.patch";  "$BIN" push -a --backup always --dry-run >/dev/null 2>dry.err; dry=$?
mk realA "p1.patch"; "$BIN" push -a --backup always >/dev/null 2>real.err; real=$?
echo "A: dry-run exit $dry, real run exit $real; file now: $(cat "$file"); applied-patches: $(cat .pc/applied-patches 2>/dev/null || echo '<none>')"
cut -c1-100 real.err | head -2
[ "$dry" != "$real" ] && { echo "VIOLATION A: exit status differs"; rc=1; }

# Variant B: default backup mode (onfail), second patch fails
mk dryB  $'p1.patch\np2.patch'; "$BIN" push -a --dry-run >/dev/null 2>dry.err; dry=$?
dryf=$(grep -o 'Patch [^ ]* FAILED' dry.err)
mk realB $'p1.patch\np2.patch'; "$BIN" push -a >/dev/null 2>real.err; real=$?
realf=$(grep -o 'Patch [^ ]* FAILED' real.err)
echo "B: dry-run exit $dry reports '$dryf'; real run exit $real reports '$realf'"
[ "$dryf" != "$realf" ] && { echo "VIOLATION B: failing patch reported differs"; rc=1; }

cd /
exit $rc
