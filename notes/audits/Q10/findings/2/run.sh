#!/bin/bash
# C10: --dry-run reports success, the real run on the same input fails after the tree was saved.
# As an ordinary user: a directory that can be searched and written but not listed (mode 0311).
# A patch deletes a file in it. All loads and all writes succeed; then clean_empty_directories()
# tries to list the directory, gets EACCES and (since the repair "a directory that can not be
# listed is an error") ends the push with an error: exit 1, nothing in .pc/applied-patches.
# The dry run never lists directories and says exit 0.
# usage: run.sh <path-to-rapidquilt>; exits 1 if the violation shows. Needs to be root (drops to
# uid 65534 with setpriv) or an ordinary user.
set -u
TOP=$(mktemp -d)
trap 'chmod -R u+rwx "$TOP" 2>/dev/null; rm -rf "$TOP"' EXIT
cp "$(readlink -f "$1")" "$TOP/rapidquilt" || exit 2
chmod 755 "$TOP" "$TOP/rapidquilt"
BIN="$TOP/rapidquilt"

if [ "$(id -u)" = 0 ]; then
    command -v setpriv >/dev/null || { echo "need setpriv to drop privileges"; exit 2; }
    AS="setpriv --reuid=65534 --regid=65534 --clear-groups"
else
    AS=""
fi

mk() {
    W="$TOP/$1"; mkdir -p "$W/d" "$W/patches"
    printf 'x\n' > "$W/d/f"; printf 'y\n' > "$W/d/keep"
    printf -- '--- a/d/f\n+++ /dev/null\n@@ -1 +0,0 @@\n-x\n' > "$W/patches/p.patch"
    echo p.patch > "$W/series"
    chmod 0311 "$W/d"
    [ -n "$AS" ] && chown -R 65534:65534 "$W"
}

mk dry;  $AS "$BIN" push -a -d "$TOP/dry" --dry-run >/dev/null 2>"$TOP/dry.err"; dry=$?
mk real; $AS "$BIN" push -a -d "$TOP/real" >/dev/null 2>"$TOP/real.err"; real=$?
echo "dry-run exit $dry, real run exit $real"
head -2 "$TOP/real.err"
echo "d/f after the real run: $([ -e "$TOP/real/d/f" ] && echo still there || echo deleted); applied-patches: $(cat "$TOP/real/.pc/applied-patches" 2>/dev/null || echo '<none>')"
if [ "$dry" != "$real" ]; then echo "VIOLATION: exit status differs"; exit 1; fi
exit 0
