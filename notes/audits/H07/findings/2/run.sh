#!/bin/bash
# C07, "consequently no file is ever loaded or written by two workers":
# the quilt backup of file x for patch p1.patch lives at .pc/p1.patch/x. If an
# (earlier) patch of the same push names the file ".pc/p1.patch/x", that file
# belongs to one worker (which writes it in save_modified_files) while the
# backup of x is written to the very same path by the worker owning x, in the
# same unsynchronised save phase. The final content of .pc/p1.patch/x depends
# on which worker comes last: the single-threaded run always leaves the backup
# ("orig"), parallel runs leave "orig" or "from-p0" at random.
# usage: run.sh <path-to-rapidquilt>
BIN=${1:?usage: run.sh <path-to-rapidquilt>}
BIN=$(readlink -f "$BIN")
W=$(mktemp -d) || exit 99
trap 'rm -rf "$W"' EXIT
mkdir -p "$W/base/patches"
cd "$W/base" || exit 99
printf 'orig\n' > x
# p0 creates .pc/p1.patch/x (first name seen => worker 0) and changes 30 big
# files that are tied to that name through their +++ line, so that worker 0 is
# busy saving while worker 1 (owner of x) saves x and writes its backup.
cat > patches/p0.patch <<'EOP'
--- /dev/null
+++ b/.pc/p1.patch/x
@@ -0,0 +1 @@
+from-p0
EOP
for i in $(seq 1 30); do
    { echo first; head -c 3000000 /dev/zero | tr '\0' 'a' | fold -w 100; echo; } > big$i
    cat >> patches/p0.patch <<EOP
--- a/big$i
+++ b/.pc/p1.patch/x
@@ -1 +1 @@
-first
+FIRST
EOP
done
cat > patches/p1.patch <<'EOP'
--- a/x
+++ b/x
@@ -1 +1 @@
-orig
+new
EOP
printf 'p0.patch -p1\np1.patch -p1\n' > series
cd "$W" || exit 99
bad=0
cp -a base r; "$BIN" push -a -d r --threads 1 -q --backup always; rc=$?
ref=$(cat r/.pc/p1.patch/x); echo "threads=1 rc=$rc .pc/p1.patch/x=[$ref]"; rm -rf r
for run in 1 2 3 4 5 6 7 8 9 10 11 12; do
    cp -a base r; "$BIN" push -a -d r --threads 2 -q --backup always; rc=$?
    res=$(cat r/.pc/p1.patch/x); echo "threads=2 run=$run rc=$rc .pc/p1.patch/x=[$res]"; rm -rf r
    if [ "$res" != "$ref" ]; then echo "  -> differs from the --threads 1 run: the path was written by two workers"; bad=1; fi
done
exit $bad
