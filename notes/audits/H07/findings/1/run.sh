#!/bin/bash
# C07, "consequently no file is ever loaded or written by two workers":
# a directory that is reachable under two names (symbolic link to a directory
# inside the tree) makes real/f and link/f two unrelated names for the
# distributor. Both names are loaded (same bytes), patched separately and
# written to the same inode: one patch's change is lost although both patches
# are recorded as applied, and WHICH one is lost depends on the thread count.
# usage: run.sh <path-to-rapidquilt>
BIN=${1:?usage: run.sh <path-to-rapidquilt>}
BIN=$(readlink -f "$BIN")
W=$(mktemp -d) || exit 99
trap 'rm -rf "$W"' EXIT
mkdir -p "$W/base/patches" "$W/base/real"
cd "$W/base" || exit 99
printf 'l1\nl2\nl3\nl4\nl5\nl6\nl7\nl8\n' > real/f
ln -s real link
cat > patches/p1.patch <<'EOP'
--- a/real/f
+++ b/real/f
@@ -1,3 +1,3 @@
-l1
+L1
 l2
 l3
EOP
cat > patches/p2.patch <<'EOP'
--- a/link/f
+++ b/link/f
@@ -6,3 +6,3 @@
 l6
 l7
-l8
+L8
EOP
printf 'p1.patch -p1\np2.patch -p1\n' > series
cd "$W" || exit 99
bad=0
for t in 1 2 3 4; do
    cp -a base r$t
    "$BIN" push -a -d r$t --threads $t -q; rc=$?
    res=$(tr '\n' ' ' < r$t/real/f)
    applied=$(tr '\n' ' ' < r$t/.pc/applied-patches 2>/dev/null)
    echo "threads=$t rc=$rc applied=[$applied] real/f=[$res]"
    [ $t = 1 ] && ref=$res
    if [ "$res" != "$ref" ]; then echo "  -> result differs from the --threads 1 run"; bad=1; fi
    if [ $rc = 0 ] && [ "$res" != "L1 l2 l3 l4 l5 l6 l7 L8 " ]; then echo "  -> both patches recorded as applied, but one change is missing"; bad=1; fi
done
exit $bad
