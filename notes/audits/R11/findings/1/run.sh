#!/bin/bash
# usage: run.sh <rapidquilt binary>
# N small patches touch file "f"; patch N+1 has M sections for "f" that all fail.
# The failure report lists the N previous patches once per failing section:
# M x N lines, all collected in memory before printing.
BIN=$(readlink -f "$1"); N=${N:-1500}; M=${M:-1500}
W=$(mktemp -d /tmp/r11f1.XXXXXX); trap 'rm -rf "$W"' EXIT
cd "$W" && mkdir patches && printf 'a\n' > f
python3 - "$N" "$M" <<'PY'
import sys
n, m = int(sys.argv[1]), int(sys.argv[2])
pad = "p" * 180
with open("series", "w") as s:
    for i in range(n):
        name = "%s%05d.patch" % (pad, i)
        a, b = ("a", "b") if i % 2 == 0 else ("b", "a")
        open("patches/" + name, "w").write("--- a/f\n+++ b/f\n@@ -1 +1 @@\n-%s\n+%s\n" % (a, b))
        s.write(name + "\n")
    open("patches/last.patch", "w").write("--- a/f\n+++ b/f\n@@ -1 +1 @@\n-zz\n+y\n" * m)
    s.write("last.patch\n")
PY
IN=$(cat series patches/* f | wc -c)
# --dry-run everywhere: nothing is written, every run starts from the same state
/usr/bin/time -f %M -o rss.q "$BIN" push -a -d . --threads 1 --dry-run -q >/dev/null 2>&1
/usr/bin/time -f %M -o rss "$BIN" push -a -d . --threads 1 --dry-run > out.txt 2> err.txt; RC=$?
OUT=$(cat out.txt err.txt | wc -c); RSS=$(tail -1 rss); RSSQ=$(tail -1 rss.q)
echo "input bytes=$IN  report bytes=$OUT  exit=$RC  peak RSS KiB: normal=$RSS  -q=$RSSQ"
# under a 512 MiB address-space limit: -q is harmless, default verbosity aborts
( ulimit -v 524288; "$BIN" push -a -d . --threads 1 --dry-run -q >/dev/null 2>&1 ); RCQ=$?
( ulimit -v 524288; "$BIN" push -a -d . --threads 1 --dry-run >/dev/null 2>lim.err ); RCL=$?
echo "exit under ulimit -v 512MiB: -q=$RCQ  normal=$RCL  ($(grep -m1 'memory allocation' lim.err))"
BAD=0
[ "$RCL" -gt 1 ] && { echo "PROBLEM: killed/aborted under memory limit"; BAD=1; }
[ "$OUT" -gt $((IN * 50)) ] && { echo "PROBLEM: report is more than 50x the input"; BAD=1; }
exit $BAD
