#!/bin/bash
# C19 (minor): clean_empty_directories() climbs one step too far: the parent of
# a top-level file name is "" and base_dir.join("") is the working directory
# itself, so when the push leaves the working directory empty it is rmdir()ed
# (an entry of the *parent* directory is deleted) and later re-created by
# save_applied_patches() as a new inode with default mode (0700 -> 0755).
BIN=${1:?usage: run.sh <path-to-rapidquilt>}
T=$(mktemp -d) || exit 2
trap 'rm -rf "$T"' EXIT
bad=0
for threads in 1 3; do
  rm -rf "$T/ws" "$T/pp"
  mkdir -p "$T/ws" "$T/pp"
  chmod 700 "$T/ws"
  printf 'p.patch\n' > "$T/ws/series"
  cat > "$T/pp/p.patch" <<'P'
--- a/series
+++ /dev/null
@@ -1 +0,0 @@
-p.patch
P
  before=$(stat -c '%i %a' "$T/ws")
  "$BIN" push -a -d "$T/ws" -p "$T/pp" --backup never --threads $threads >"$T/log" 2>&1
  rc=$?
  after=$(stat -c '%i %a' "$T/ws" 2>/dev/null || echo gone)
  if [ "$before" != "$after" ]; then
    echo "VIOLATION (threads=$threads, exit $rc): working directory itself was removed/re-created: inode+mode '$before' -> '$after'"
    bad=1
  fi
done
[ $bad = 0 ] && echo "no violation observed"
exit $bad
