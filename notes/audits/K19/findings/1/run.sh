#!/bin/bash
# C19: a safe in-tree file name ("etc/motd") makes the push overwrite a file
# OUTSIDE the working directory, because the quilt backup path
# .pc/<patch>/<file> is followed through a symbolic link that is already in the
# tree (.pc/p1.patch/etc -> outside). check_symlinks() guards only the patch
# target, not the backup copy. Default options (--backup onfail + a later
# failing patch) are enough; --backup always does it on a successful push too.
BIN=${1:?usage: run.sh <path-to-rapidquilt>}
T=$(mktemp -d) || exit 2
trap 'rm -rf "$T"' EXIT
bad=0
for threads in 1 3; do
  for mode in onfail always; do
    rm -rf "$T/ws" "$T/outside"
    mkdir -p "$T/ws/patches" "$T/ws/etc" "$T/outside" "$T/ws/.pc/p1.patch"
    echo "precious"          > "$T/outside/motd"          # the victim, not part of the tree
    echo "attacker content"  > "$T/ws/etc/motd"           # in-tree file, safe name
    ln -s "$T/outside" "$T/ws/.pc/p1.patch/etc"           # link leaving the tree, shipped with the tree
    cat > "$T/ws/patches/p1.patch" <<'P'
--- a/etc/motd
+++ b/etc/motd
@@ -1 +1 @@
-attacker content
+whatever
P
    cat > "$T/ws/patches/p2.patch" <<'P'
--- a/etc/motd
+++ b/etc/motd
@@ -1 +1 @@
-does not match
+x
P
    if [ $mode = onfail ]; then
      printf 'p1.patch\np2.patch\n' > "$T/ws/series"; opt=""
    else
      printf 'p1.patch\n' > "$T/ws/series"; opt="--backup always"
    fi
    "$BIN" push -a -d "$T/ws" --threads $threads $opt >"$T/log" 2>&1
    rc=$?
    if [ "$(cat "$T/outside/motd")" != "precious" ]; then
      echo "VIOLATION (threads=$threads, backup=$mode, exit $rc): file outside the tree now contains: $(cat "$T/outside/motd")"
      bad=1
    fi
  done
done
[ $bad = 0 ] && echo "no violation observed"
exit $bad
