#!/bin/bash
# C09: the second of three patches can not be loaded (missing here; a syntax error,
# a ".." name or a target that is a directory do the same). One push -a leaves the
# tree untouched and records nothing; push 1 + push -a leaves the first patch applied
# and recorded. Both stop with exit 1 "at the same patch", but with different trees.
B=${1:?usage: run.sh <path-to-rapidquilt>}; B=$(readlink -f "$B")
W=$(mktemp -d)
snap() { (cd "$1" && find . -mindepth 1 \( -path ./patches -o -path ./series -o -path "./.pc/*" ! -path ./.pc/applied-patches \) -prune -o -printf "%y %m %p\n" | sort; find . -type f ! -path "./patches/*" ! -name series \( ! -path "./.pc/*" -o -path ./.pc/applied-patches \) -print0 | sort -z | xargs -0 -r sha1sum); }
mk() { mkdir -p $1/patches; echo a > $1/f
printf -- '--- a/f\n+++ b/f\n@@ -1 +1 @@\n-a\n+b\n' > "$1/patches/x.patch"
printf -- '--- a/f\n+++ b/f\n@@ -1 +1 @@\n-b\n+c\n' > "$1/patches/z.patch"
printf 'x.patch\ny.patch\nz.patch\n' > $1/series
case $2 in
 missing) ;;
 garbled) printf -- '--- a/f\n+++ b/f\n@@ -1 +1 @@\n-b\n' > $1/patches/y.patch;;
 isdir) mkdir $1/dir; printf -- '--- a/dir\n+++ b/dir\n@@ -1 +1 @@\n-b\n+c\n' > $1/patches/y.patch;;
esac; }
rc=0
for kind in missing garbled isdir; do for T in 1 3; do
mk $W/one$kind$T $kind; mk $W/two$kind$T $kind
"$B" push -a -d $W/one$kind$T --threads $T -q 2>/dev/null; r1=$?
"$B" push 1 -d $W/two$kind$T --threads $T -q
"$B" push -a -d $W/two$kind$T --threads $T -q 2>/dev/null; r2=$?
if [ $r1 != $r2 ] || ! diff <(snap $W/one$kind$T) <(snap $W/two$kind$T) >$W/diff; then echo "VIOLATION ($kind, threads $T, exit $r1/$r2): trees differ (left: one push, right: two pushes)"; cat $W/diff; rc=1; fi
done; done
exit $rc
