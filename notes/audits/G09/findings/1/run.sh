#!/bin/bash
# C09: a patch whose name starts with '#' (series line with a leading blank, which
# quilt and rapidquilt both read as a patch name) is written to .pc/applied-patches
# as "#x.patch" and read back as a comment: the next push applies it a second time.
B=${1:?usage: run.sh <path-to-rapidquilt>}; B=$(readlink -f "$B")
W=$(mktemp -d)
snap() { (cd "$1" && find . -mindepth 1 \( -path ./patches -o -path ./series -o -path "./.pc/*" ! -path ./.pc/applied-patches \) -prune -o -printf "%y %m %p\n" | sort; find . -type f ! -path "./patches/*" ! -name series \( ! -path "./.pc/*" -o -path ./.pc/applied-patches \) -print0 | sort -z | xargs -0 -r sha1sum); }
mk() { mkdir -p $1/patches; printf 'a\n' > $1/f
printf -- '--- a/f\n+++ b/f\n@@ -1 +1 @@\n-a\n+b\n' > "$1/patches/#x.patch"
printf -- '--- a/f\n+++ b/f\n@@ -1 +1 @@\n-b\n+c\n' > "$1/patches/y.patch"
printf ' #x.patch\ny.patch\n' > $1/series; }
mk $W/one; mk $W/two
"$B" push -a -d $W/one --threads 1 -q; r1=$?
"$B" push 1 -d $W/two --threads 1 -q
"$B" push -a -d $W/two --threads 1 -q; r2=$?
echo "one push: exit $r1; push 1 + push -a: exit $r2"
if [ $r1 != $r2 ] || ! diff <(snap $W/one) <(snap $W/two); then echo "VIOLATION: split pushes differ from one push"; exit 1; fi
echo "no violation"; exit 0
