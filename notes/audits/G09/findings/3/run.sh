#!/bin/bash
# C09: directory d (mode 0700) holds only d/f. Patch x deletes d/f, patch y creates d/g.
# One push keeps the original directory (mode 0700); push 1 + push 1 removes d and
# makes a new one with the default mode (0755).
B=${1:?usage: run.sh <path-to-rapidquilt>}; B=$(readlink -f "$B")
W=$(mktemp -d)
snap() { (cd "$1" && find . -mindepth 1 \( -path ./patches -o -path ./series -o -path "./.pc/*" ! -path ./.pc/applied-patches \) -prune -o -printf "%y %m %p\n" | sort; find . -type f ! -path "./patches/*" ! -name series \( ! -path "./.pc/*" -o -path ./.pc/applied-patches \) -print0 | sort -z | xargs -0 -r sha1sum); }
mk() { mkdir -p $1/patches $1/d; chmod 700 $1/d; echo a > $1/d/f
printf -- '--- a/d/f\n+++ /dev/null\n@@ -1 +0,0 @@\n-a\n' > "$1/patches/x.patch"
printf -- '--- /dev/null\n+++ b/d/g\n@@ -0,0 +1 @@\n+a\n' > "$1/patches/y.patch"
printf 'x.patch\ny.patch\n' > $1/series; }
rc=0
for T in 1 3; do
mk $W/one$T; mk $W/two$T
"$B" push -a -d $W/one$T --threads $T -q
"$B" push 1 -d $W/two$T --threads $T -q
"$B" push -a -d $W/two$T --threads $T -q
if ! diff <(snap $W/one$T) <(snap $W/two$T); then echo "VIOLATION (threads $T): trees differ (left: one push, right: two pushes)"; rc=1; fi
done
exit $rc
