#!/bin/bash
# C09 ("a push after a failed push stops at the same patch with the same result"):
# the tree holds f and a tracked file f.rej. Patch x changes f.rej (fine) and f (rejected).
# The failed push rolls x back and then writes the rejects of f over the tracked f.rej.
# The same push again: now the f.rej entry fails too, a second reject file f.rej.rej appears.
B=${1:?usage: run.sh <path-to-rapidquilt>}; B=$(readlink -f "$B")
W=$(mktemp -d)
snap() { (cd "$1" && find . -mindepth 1 \( -path ./patches -o -path ./series -o -path "./.pc/*" ! -path ./.pc/applied-patches \) -prune -o -printf "%y %m %p\n" | sort; find . -type f ! -path "./patches/*" ! -name series \( ! -path "./.pc/*" -o -path ./.pc/applied-patches \) -print0 | sort -z | xargs -0 -r sha1sum); }
mk() { mkdir -p $1/patches; echo a > $1/f; echo r1 > $1/f.rej
printf -- '--- a/f.rej\n+++ b/f.rej\n@@ -1 +1 @@\n-r1\n+r2\n--- a/f\n+++ b/f\n@@ -1 +1 @@\n-zzz\n+b\n' > "$1/patches/x.patch"
printf 'x.patch\n' > $1/series; }
mk $W/one; mk $W/two
"$B" push -a -d $W/one --threads 1 -q 2>/dev/null; r1=$?
"$B" push -a -d $W/two --threads 1 -q 2>/dev/null
"$B" push -a -d $W/two --threads 1 -q 2>/dev/null; r2=$?
if [ $r1 != $r2 ] || ! diff <(snap $W/one) <(snap $W/two); then echo "VIOLATION: the repeated failed push leaves something else (left: one failed push, right: the same push twice)"; exit 1; fi
echo "no violation"; exit 0
