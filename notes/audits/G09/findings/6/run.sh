#!/bin/bash
# C09: patch x adds an empty line marked "\ No newline at end of file" at the end of f:
# nothing is added to the file on disk, but in memory f has one more (zero-byte) line.
# Patch y appends a line behind the last real line (a hunk tied to the end of the file).
# One push: y is rejected (the end of the file is the phantom line). push 1 + push 1: y applies.
B=${1:?usage: run.sh <path-to-rapidquilt>}; B=$(readlink -f "$B")
W=$(mktemp -d)
snap() { (cd "$1" && find . -mindepth 1 \( -path ./patches -o -path ./series -o -path "./.pc/*" ! -path ./.pc/applied-patches \) -prune -o -printf "%y %m %p\n" | sort; find . -type f ! -path "./patches/*" ! -name series \( ! -path "./.pc/*" -o -path ./.pc/applied-patches \) -print0 | sort -z | xargs -0 -r sha1sum); }
mk() { mkdir -p $1/patches; echo a > $1/f
printf -- '--- a/f\n+++ b/f\n@@ -1 +1,2 @@\n a\n+\n\\ No newline at end of file\n' > "$1/patches/x.patch"
printf -- '--- a/f\n+++ b/f\n@@ -1 +1,2 @@\n a\n+b\n' > "$1/patches/y.patch"
printf 'x.patch\ny.patch\n' > $1/series; }
rc=0
for T in 1 3; do
mk $W/one$T; mk $W/two$T
"$B" push -a -d $W/one$T --threads $T -q 2>/dev/null; r1=$?
"$B" push 1 -d $W/two$T --threads $T -q
"$B" push -a -d $W/two$T --threads $T -q 2>/dev/null; r2=$?
if [ $r1 != $r2 ] || ! diff <(snap $W/one$T) <(snap $W/two$T); then echo "VIOLATION (threads $T, exit $r1/$r2): (left: one push, right: two pushes)"; rc=1; fi
done
exit $rc
