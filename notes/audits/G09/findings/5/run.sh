#!/bin/bash
# C09: git patch x adds a symbolic link (new file mode 120000): rapidquilt writes a
# regular file and chmods it to 120000 & 07777 = 0000. Patch y changes the "link".
# One push applies both (y works on the copy in memory); push 1 + push 1 fails in the
# second push with EACCES when it tries to read the mode-0000 file. Needs a non-root
# user to show: when run as root the script drops to nobody with setpriv.
# (Same with any "new mode" that lacks the owner's read bit, e.g. 100200.)
B=${1:?usage: run.sh <path-to-rapidquilt>}; B=$(readlink -f "$B")
W=$(mktemp -d); chmod 755 $W
snap() { (cd "$1" && find . -mindepth 1 \( -path ./patches -o -path ./series -o -path "./.pc/*" ! -path ./.pc/applied-patches \) -prune -o -printf "%y %m %p\n" | sort; find . -type f ! -path "./patches/*" ! -name series \( ! -path "./.pc/*" -o -path ./.pc/applied-patches \) -print0 | sort -z | xargs -0 -r sha1sum); }
U=""
if [ "$(id -u)" = 0 ]; then
  U="setpriv --reuid=65534 --regid=65534 --clear-groups"
  cp "$B" $W/rapidquilt; chmod 755 $W/rapidquilt; B=$W/rapidquilt
  if ! $U "$B" --version >/dev/null 2>&1; then echo "can not run the binary as nobody (is $W reachable?)"; exit 2; fi
fi
mk() { mkdir -p $1/patches; echo a > $1/f
cat > $1/patches/x.patch <<'EOP'
diff --git a/link b/link
new file mode 120000
index 0000000..1234567
--- /dev/null
+++ b/link
@@ -0,0 +1 @@
+f
\ No newline at end of file
EOP
cat > $1/patches/y.patch <<'EOP'
diff --git a/link b/link
index 1234567..2345678 120000
--- a/link
+++ b/link
@@ -1 +1 @@
-f
\ No newline at end of file
+g
\ No newline at end of file
EOP
printf 'x.patch\ny.patch\n' > $1/series; }
mk $W/one; mk $W/two; [ -n "$U" ] && chown -R 65534:65534 $W/one $W/two
$U "$B" push -a -d $W/one --threads 1 -q; r1=$?
$U "$B" push 1 -d $W/two --threads 1 -q
$U "$B" push -a -d $W/two --threads 1 -q; r2=$?
echo "one push: exit $r1; push 1 + push -a: exit $r2"
if [ $r1 != $r2 ] || ! diff <(snap $W/one) <(snap $W/two); then echo "VIOLATION: split pushes differ from one push"; exit 1; fi
echo "no violation"; exit 0
