#!/bin/bash
# C09: an empty directory d that is there before the push. Patch x creates d/f,
# patch y deletes d/f. One push leaves d (the file never reaches the disk, nothing
# is cleaned); push 1 + push 1 removes d (deleting d/f cleans the emptied directory).
B=${1:?usage: run.sh <path-to-rapidquilt>}; B=$(readlink -f "$B")
W=$(mktemp -d)
snap() { (cd "$1" && find . -mindepth 1 \( -path ./patches -o -path ./series -o -path "./.pc/*" ! -path ./.pc/applied-patches \) -prune -o -printf "%y %m %p\n" | sort; find . -type f ! -path "./patches/*" ! -name series \( ! -path "./.pc/*" -o -path ./.pc/applied-patches \) -print0 | sort -z | xargs -0 -r sha1sum); }
mk() { mkdir -p $1/patches $1/d
printf -- '--- /dev/null\n+++ b/d/f\n@@ -0,0 +1 @@\n+a\n' > "$1/patches/x.patch"
printf -- '--- a/d/f\n+++ /dev/null\n@@ -1 +0,0 @@\n-a\n' > "$1/patches/y.patch"
printf 'x.patch\ny.patch\n' > $1/series; }
rc=0
for T in 1 3; do
mk $W/one$T; mk $W/two$T
"$B" push -a -d $W/one$T --threads $T -q
"$B" push 1 -d $W/two$T --threads $T -q
"$B" push -a -d $W/two$T --threads $T -q
if ! diff <(snap $W/one$T) <(snap $W/two$T); then echo "VIOLATION (threads $T): trees differ (left: one push, right: two pushes)"; rc=1; fi
done
exit $rc
