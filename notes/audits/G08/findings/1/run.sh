#!/bin/bash
# C08, prior applied state: a patch whose name starts with '#' (series line with
# leading blank, accepted like quilt does) is written to .pc/applied-patches, but
# the next invocation reads that file with the series parser, takes the line for
# a comment and applies the patch a second time.
BIN=${1:?usage: run.sh <path-to-rapidquilt>}
W=$(mktemp -d)
trap 'rm -rf "$W"' EXIT
mkdir -p "$W/patches"
printf 'l1\nl2\n' > "$W/a"
printf 'k1\n' > "$W/b"
cat > "$W/patches/p0.patch" <<'P'
--- a/b
+++ b/b
@@ -1 +1 @@
-k1
+K1
P
cat > "$W/patches/#top.patch" <<'P'
--- a/a
+++ b/a
@@ -0,0 +1 @@
+top
P
printf 'p0.patch\n #top.patch\n' > "$W/series"

"$BIN" push -a -d "$W" --backup always -q --threads 1 || { echo "first push failed (unexpected)"; exit 2; }
cp "$W/a" "$W/a.after1"; cp "$W/.pc/applied-patches" "$W/ap.after1"
# Everything is applied. A second push must find nothing to do.
"$BIN" push -a -d "$W" --backup always -q --threads 1; rc=$?
echo "second push rc=$rc"
echo "--- a after first push:";  cat "$W/a.after1"
echo "--- a after second push:"; cat "$W/a"
echo "--- applied-patches after second push:"; cat "$W/.pc/applied-patches"
echo "--- .pc/#top.patch/a (should be the file before the patch: l1 l2):"; cat "$W/.pc/#top.patch/a"
bad=0
cmp -s "$W/a" "$W/a.after1" || { echo "VIOLATION: second push changed the tree (patch applied twice)"; bad=1; }
cmp -s "$W/.pc/applied-patches" "$W/ap.after1" || { echo "VIOLATION: applied-patches is no longer the applied prefix of series"; bad=1; }
printf 'l1\nl2\n' | cmp -s - "$W/.pc/#top.patch/a" || { echo "VIOLATION: backup of a no longer holds the content before the patch"; bad=1; }
exit $bad
