#!/bin/sh
# C14 (borderline: cost, not bytes): the failure diagnostics, which run only
# without -q, need time quadratic in the size of the input.  A failing patch
# that -q handles in a fraction of a second keeps the default run busy for
# minutes (release build) up to hours (debug build, or a bigger input); until
# then there is no tree, no .pc, no reject and no exit status.
#
# usage: run.sh <path-to-rapidquilt> ; env: N (lines, default 300000),
#        LIMIT (seconds granted to the default run, default 60), SHAPE (cmp|fuzz)
# exit 1 = violation shows, 0 = both runs finished in comparable time with equal results
BIN=${1:?usage: run.sh <path-to-binary>}
N=${N:-300000}
LIMIT=${LIMIT:-60}
SHAPE=${SHAPE:-cmp}
W=$(mktemp -d) || exit 2
trap 'rm -rf "$W"' EXIT

mkdir -p "$W/q/patches"
seq 1 "$N" | sed 's/^/x/' > "$W/q/f"
if [ "$SHAPE" = cmp ]; then
    # one hunk replacing the whole file; none of its lines is in the file
    { printf -- '--- a/f\n+++ b/f\n@@ -1,%d +1 @@\n' "$N"
      seq 1 "$N" | sed 's/^/-y/'
      echo '+z'; } > "$W/q/patches/p.patch"
else
    # diff -U<huge> style: one hunk, N lines of context before and after one change
    { printf -- '--- a/f\n+++ b/f\n@@ -1,%d +1,%d @@\n' $((2*N+1)) $((2*N+1))
      seq 1 "$N" | sed 's/^/ y/'
      printf -- '-old\n+new\n'
      seq 1 "$N" | sed 's/^/ w/'; } > "$W/q/patches/p.patch"
fi
echo p.patch > "$W/q/series"
cp -r "$W/q" "$W/n"

t0=$(date +%s)
"$BIN" push -a -d "$W/q" --threads 1 -q >/dev/null 2>&1; rcq=$?
t1=$(date +%s)
echo "quiet run:   exit $rcq after $((t1-t0)) s"

timeout "$LIMIT" "$BIN" push -a -d "$W/n" --threads 1 >/dev/null 2>&1; rcn=$?
t2=$(date +%s)
echo "default run: exit $rcn after $((t2-t1)) s (limit $LIMIT s)"

if [ "$rcn" = 124 ]; then
    echo "VIOLATION: without -q the same push did not finish within $LIMIT s (quiet: $((t1-t0)) s);"
    echo "           nothing has been written yet:"; ls -A "$W/n"
    exit 1
fi
if [ "$rcq" != "$rcn" ]; then echo "VIOLATION: exit status differs"; exit 1; fi
rm -rf "$W/q/patches" "$W/n/patches"
if ! diff -r "$W/q" "$W/n" >/dev/null; then echo "VIOLATION: trees differ"; exit 1; fi
echo "no violation shown (try a larger N)"
exit 0
