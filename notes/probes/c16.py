#!/usr/bin/env python3
import os, subprocess, shutil, collections
RQ='/repo/target/debug/rapidquilt'; WS='/dev/shm/cp/ws16'
def run(seriesline, patchpaths, reverse_expected, strip):
    shutil.rmtree(WS,ignore_errors=True); os.makedirs(WS+'/patches'); os.makedirs(WS+'/d')
    src='l1\nl2\nl3\n'; dst='l1\nL2\nl3\n'
    open(WS+'/d/f','w').write(dst if reverse_expected else src)
    old,new=patchpaths
    open(WS+'/patches/p.patch','w').write('--- %s\n+++ %s\n@@ -1,3 +1,3 @@\n l1\n-l2\n+L2\n l3\n'%(old,new))
    open(WS+'/series','w').write('# comment\n\n   \n'+seriesline+'\n#trailing\n')
    p=subprocess.run([RQ,'push','-a','-d',WS,'-q','--threads','1','--backup','never'],env={'PATH':'/usr/bin'},stdout=subprocess.PIPE,stderr=subprocess.PIPE)
    got=open(WS+'/d/f').read()
    return p.returncode, got==(src if reverse_expected else dst), p.stderr.decode()[:100].replace('\n',' ')
paths={0:('d/f','d/f'),1:('a/d/f','b/d/f'),2:('x/a/d/f','y/b/d/f'),3:('/x/a/d/f','/y/b/d/f')}
for strip in (0,1,2,3):
    for rev in (False,True):
        sp=['-p%d'%strip,'-p %d'%strip,'--strip=%d'%strip,'--strip %d'%strip]
        for s in sp:
            variants=[s+(' -R' if rev else ''), ('-R ' if rev else '')+s]
            if rev and s.startswith('-p') and ' ' not in s: variants.append('-R'+s[1:])  # -Rp1
            if rev: variants.append(s+' --reverse')
            for v in set(variants):
                rc,ok,err=run('p.patch '+v, paths[strip], rev, strip)
                if rc!=0 or not ok: print('FAIL strip=%d rev=%s line=%r rc=%d ok=%s %s'%(strip,rev,v,rc,ok,err))
# default strip (no option) = 1, with -R only
for v,rev in (('',False),('-R',True)):
    rc,ok,err=run('p.patch '+v, paths[1], rev, 1); 
    if rc!=0 or not ok: print('FAIL default',v,rc,ok,err)
# tab separated, leading whitespace
for v in ('\tp.patch\t-p1','  p.patch -p1  ','p.patch -p1 # trailing comment'):
    shutil.rmtree(WS,ignore_errors=True)
    rc,ok,err=run(v.replace('p.patch ','p.patch ',1) if False else v, paths[1], False, 1) if False else (None,None,None)
print('done')
