#!/usr/bin/env python3
"""probe: C10 dry-run purity + status prediction, C15 hard-linked twin, C09 invocation graph, C08 backup counts, C20 fuzz monotone (CLI)"""
import os, subprocess, shutil, itertools, collections, sys, hashlib
RQ='/dev/shm/probe/target-rqs/debug/rapidquilt'; WS='/dev/shm/cp/wsx'; TW='/dev/shm/cp/twin'; SHIM='/dev/shm/cp/shim.so'
F6='l1\nl2\nl3\nl4\nl5\nl6\n'
def P(f,i,old,new,ctx=1):
    lines=['l%d'%k for k in range(1,7)]
    return None
def mod(f,lines,i,new):
    s=max(0,i-1); e=min(len(lines),i+2)
    body=''.join(' '+l+'\n' for l in lines[s:i])+'-'+lines[i]+'\n+'+new+'\n'+''.join(' '+l+'\n' for l in lines[i+1:e])
    return '--- a/%s\n+++ b/%s\n@@ -%d,%d +%d,%d @@\n'%(f,f,s+1,e-s,s+1,e-s)+body
BASE=['l1','l2','l3','l4','l5','l6']
WORK={}
def w(name, files, patches): WORK[name]=(files,patches)
w('ok3',{'f':F6,'d/g':F6,'keep':F6},[mod('f',BASE,1,'A'),mod('d/g',BASE,2,'B'),mod('f',['l1','A','l3','l4','l5','l6'],4,'C')])
w('fail2',{'f':F6,'d/g':F6,'keep':F6},[mod('f',BASE,1,'A'),mod('d/g',['l1','zz','l3','l4','l5','l6'],1,'B'),mod('f',BASE,4,'C')])
w('create-delete',{'f':F6,'d/g':F6,'keep':F6},['--- /dev/null\n+++ b/n/new\n@@ -0,0 +1 @@\n+x\n','--- a/d/g\n+++ /dev/null\n@@ -1,6 +0,0 @@\n'+''.join('-'+l+'\n' for l in BASE),mod('f',BASE,1,'A')])
w('rename-mode',{'f':F6,'d/g':F6,'keep':F6},['diff --git a/f b/h\nrename from f\nrename to h\n','diff --git a/d/g b/d/g\nold mode 100644\nnew mode 100755\n',mod('h',BASE,1,'A')])
w('fail-after-all',{'f':F6,'d/g':F6,'keep':F6},['--- /dev/null\n+++ b/n/new\n@@ -0,0 +1 @@\n+x\n'+'diff --git a/f b/h\nrename from f\nrename to h\n', mod('d/g',BASE,1,'A'), mod('keep2',BASE,1,'Z')])
def write(name):
    files,patches=WORK[name]
    shutil.rmtree(WS,ignore_errors=True); shutil.rmtree(TW,ignore_errors=True); os.makedirs(WS+'/patches')
    for f,c in files.items():
        p=os.path.join(WS,f); os.makedirs(os.path.dirname(p),exist_ok=True); open(p,'w').write(c)
    for i,c in enumerate(patches): open(WS+'/patches/p%d.patch'%i,'w').write(c)
    open(WS+'/series','w').write(''.join('p%d.patch\n'%i for i in range(len(patches))))
def twin():
    for root,dirs,files in os.walk(WS):
        rel=os.path.relpath(root,WS)
        if rel.startswith('patches'): continue
        os.makedirs(os.path.join(TW,rel),exist_ok=True)
        for f in files:
            if rel=='.' and f=='series': continue
            os.link(os.path.join(root,f),os.path.join(TW,rel,f))
def snap(d,meta=True,skip_patches=True):
    out={}
    for root,dirs,files in os.walk(d):
        rel=os.path.relpath(root,d)
        if skip_patches and rel.startswith('patches'): continue
        st=os.stat(root); 
        if meta: out[rel+'/']=(st.st_mode,st.st_ino,st.st_mtime_ns)
        for f in files:
            p=os.path.join(root,f); st=os.stat(p)
            out[os.path.normpath(os.path.join(rel,f))]=(open(p,'rb').read(),st.st_mode&0o7777)+((st.st_ino,st.st_mtime_ns) if meta else ())
    return out
def run(args,shim=False,sched=True):
    env={'PATH':'/usr/bin'}
    if sched: env['RQ_VERIF_SCHED']=''
    if shim: env['LD_PRELOAD']=SHIM; env['RQ_LOG']='/dev/shm/cp/logx.txt'; 
    if os.path.exists('/dev/shm/cp/logx.txt'): os.unlink('/dev/shm/cp/logx.txt')
    p=subprocess.run([RQ,'push','-d',WS]+args,env=env,stdout=subprocess.PIPE,stderr=subprocess.PIPE,timeout=30)
    log=open('/dev/shm/cp/logx.txt').read().splitlines() if os.path.exists('/dev/shm/cp/logx.txt') else []
    return p.returncode,p.stderr.decode(errors='replace'),log
issues=collections.Counter(); ex={}
def note(k,e): issues[k]+=1; ex.setdefault(k,e)
# ---- C09 invocation graph
def tree_key():
    s=snap(WS,meta=False); s={k:v for k,v in s.items() if not (k.startswith('.pc/') and k!='.pc/applied-patches')}
    if s.get('.pc/applied-patches',(b'',))[0]==b'': s.pop('.pc/applied-patches',None)
    return hashlib.sha1(repr(sorted(s.items())).encode()).hexdigest()[:10], len(s.get('.pc/applied-patches',(b'',))[0].split())
for name in WORK:
    n=len(WORK[name][1])
    edges=[[ ]]+[[str(m)] for m in range(0,n+2)]+[['p%d.patch'%i] for i in range(n)]+[['-a']]
    # reference: single invocation to k
    ref={}
    for k in range(0,n+1):
        write(name); rc,_,_=run([str(k),'-q','--threads','1','--backup','never']); ref[k]=tree_key()
    def goal_of(hist_edges):
        applied=0; g=0
        for (e,t,applied_after) in hist_edges:
            if not e: tgt=applied+1
            elif e[0]=='-a': tgt=n
            elif e[0].isdigit(): tgt=applied+int(e[0])
            else:
                idx=int(e[0][1:-6]); tgt=idx+1 if idx>=applied else None   # already applied => refused
            if tgt is not None: g=max(g,min(tgt,n))
            applied=applied_after
        return g
    # BFS by replaying histories
    seen={}; frontier=[[]]; states=0; trans=0
    write(name); k0=tree_key(); seen[k0]=[]; meta={}
    while frontier:
        nxt=[]
        for hist in frontier:
            for e in edges:
                for t in ('1','2'):
                    write(name); he=[]
                    for (e0,t0) in hist:
                        run(e0+['-q','--threads',t0,'--backup','never']); he.append((e0,t0,tree_key()[1]))
                    rc,err,_=run(e+['-q','--threads',t,'--backup','never']); trans+=1
                    key=tree_key(); he.append((e,t,key[1]))
                    g=goal_of(he)
                    if ref[g]!=key: note(('C09 STATE-DIFFERS',name),(hist,e,t,key,'goal',g,ref[g]))
                    if key not in seen: seen[key]=hist+[(e,t)]; nxt.append(hist+[(e,t)])
        frontier=nxt
    print('C09',name,'states',len(seen),'transitions',trans,'applied-counts',sorted({k[1] for k in seen}))
for k,v in sorted(issues.items()): print(k,v,ex[k])
