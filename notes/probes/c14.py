#!/usr/bin/env python3
import os, subprocess, shutil, itertools, collections
RQ='/repo/target/debug/rapidquilt'; WS='/dev/shm/cp/ws14'
def write(files, patches, series=None):
    shutil.rmtree(WS,ignore_errors=True); os.makedirs(WS+'/patches')
    for f,c in files.items():
        p=os.path.join(WS,f); os.makedirs(os.path.dirname(p),exist_ok=True); open(p,'w').write(c)
    for n,c in patches.items(): open(WS+'/patches/'+n,'w').write(c)
    open(WS+'/series','w').write(series if series is not None else ''.join(n+'\n' for n in patches))
def snap():
    out={}
    for root,dirs,files in os.walk(WS):
        rel=os.path.relpath(root,WS)
        if rel.startswith('patches'): continue
        for f in files:
            p=os.path.join(root,f); out[os.path.relpath(p,WS)]=(open(p,'rb').read(),os.stat(p).st_mode&0o777)
    return out
F6='l1\nl2\nl3\nl4\nl5\nl6\n'
OK='--- a/f\n+++ b/f\n@@ -1,3 +1,3 @@\n l1\n-l2\n+L2\n l3\n'
FAIL='--- a/f\n+++ b/f\n@@ -1,3 +1,3 @@\n l1\n-zz\n+L2\n l3\n'
FAILEND='--- a/f\n+++ b/f\n@@ -1,8 +1,8 @@\n l1\n l2\n l3\n l4\n l5\n l6\n l7\n-zz\n+L2\n'   # End-anchored, longer than file
AMBIG='--- a/g\n+++ b/g\n@@ -2,1 +2,1 @@\n-x\n+y\n'
WORK={
 'ok':({'f':F6},{'p1.patch':OK}),
 'fail':({'f':F6},{'p1.patch':OK,'p2.patch':FAIL}),
 'failend':({'f':F6},{'p1.patch':FAILEND}),
 'zerolen-src':({'f':F6,'e':''},{'p1.patch':'--- a/e\n+++ b/e\n@@ -0,0 +1 @@\n+x\n'}),
 'zerolen-patch':({'f':F6},{'p1.patch':'','p2.patch':OK}),
 'ambig':({'g':'x\nq\nx\nq\nx\n'},{'p1.patch':AMBIG}),
 'dupfail':({'f':F6},{'p1.patch':'--- a/f\n+++ b/f\n@@ -1,2 +1,2 @@\n-l1\n+A\n l2\n@@ -5,2 +5,2 @@\n zzz\n-l6\n+F\n--- a/f\n+++ b/f\n@@ -1,2 +1,2 @@\n-A\n+AA\n l2\n'}),
 'emptyseries':({'f':F6},{}),
}
opts=[['--mmap'],['-q'],['-v'],['-v','-v'],['--color','always'],['--stats'],['-A','multiapply']]
cls=collections.Counter(); ex={}
for wn,(files,patches) in WORK.items():
    for threads in ('1','2'):
        write(files,patches); b=subprocess.run([RQ,'push','-a','-d',WS,'-q','--threads',threads],env={'PATH':'/usr/bin'},stdout=subprocess.PIPE,stderr=subprocess.PIPE); base=(b.returncode,snap())
        for mask in range(1,1<<len(opts)):
            sel=[o for i,o in enumerate(opts) if mask>>i&1]
            flat=[x for o in sel for x in o]
            if '-q' in flat and '-v' in flat: continue
            if mask & 0b1100 == 0b1100: continue
            write(files,patches); p=subprocess.run([RQ,'push','-a','-d',WS,'--threads',threads]+flat,env={'PATH':'/usr/bin'},stdout=subprocess.PIPE,stderr=subprocess.PIPE,timeout=30)
            got=(p.returncode,snap())
            if got!=base:
                k=(wn, 'rc %d->%d'%(base[0],p.returncode), tuple(o[0] for o in sel if o[0] in ('--mmap','-q','-v')) )
                cls[k]+=1; ex.setdefault(k,(threads,flat,p.stderr.decode()[:130].replace('\n',' ')))
for k,v in sorted(cls.items()): print(k,v,ex[k])
