#!/usr/bin/env python3
import os, subprocess, sys, shutil, hashlib, json, re
RQ='/dev/shm/probe/target-rqs/debug/rapidquilt'
def snap(d):
    out=[]
    for root, dirs, files in os.walk(d):
        dirs.sort()
        rel=os.path.relpath(root,d)
        if rel.startswith('patches'): continue
        out.append(('D',rel))
        for f in sorted(files):
            p=os.path.join(root,f)
            if rel=='.' and f=='series': continue
            out.append(('F',os.path.join(rel,f),open(p,'rb').read(),oct(os.stat(p).st_mode&0o7777)))
    return out
def run(mk, sched, threads, extra):
    ws='/dev/shm/sx/ws'
    subprocess.check_call([mk, ws])
    tr='/dev/shm/sx/trace.txt'
    if os.path.exists(tr): os.unlink(tr)
    env={'PATH':'/usr/bin:/bin'}
    if sched is not None:
        env['RQ_VERIF_SCHED']=','.join(map(str,sched)); env['RQ_VERIF_TRACE']=tr
    p=subprocess.run([RQ,'push','-a','-d',ws,'-q','--threads',str(threads)]+extra,env=env,stdout=subprocess.PIPE,stderr=subprocess.PIPE,timeout=20)
    decisions=[]
    if os.path.exists(tr):
        for line in open(tr):
            m=re.match(r'D (\d+) phase=(\w+) enabled=\[(.*?)\] cur=(\w+)(?:\((\d+)\))? chosen=(\d+) ev=(.*)',line)
            if m:
                en=[int(x) for x in m.group(3).split(',') if x.strip()]
                cur=int(m.group(5)) if m.group(5) else None
                decisions.append((en,cur,int(m.group(6)),m.group(2),m.group(7).strip()))
    return p.returncode, snap(ws), decisions, p.stderr.decode(errors='replace')
def explore(mk, threads, bound, extra):
    rc0,s0,_,_=run(mk,None,1,extra)
    ref=(rc0,s0)
    seen=0; outcomes={}; stack=[([],0)]
    bad=[]
    while stack:
        prefix,cost=stack.pop()
        rc,s,dec,err=run(mk,prefix,threads,extra)
        seen+=1
        key=hashlib.sha1(repr((rc,s)).encode()).hexdigest()[:8]
        outcomes.setdefault(key,[]).append(prefix)
        if (rc,s)!=ref: bad.append((prefix,rc,err.strip().splitlines()[:3]))
        # compute preemptions along executed path
        pre=0
        for i,(en,cur,ch,ph,ev) in enumerate(dec):
            if i>=len(prefix):
                for alt in en:
                    if alt==ch: continue
                    c=pre+(1 if (cur is not None and cur in en and alt!=cur) else 0)
                    if c<=bound:
                        stack.append(([d[2] for d in dec[:i]]+[alt],c))
            if cur is not None and cur in en and ch!=cur: pre+=1
    return seen,outcomes,bad,ref
if __name__=='__main__':
    mk=sys.argv[1]; threads=int(sys.argv[2]); bound=int(sys.argv[3]); extra=sys.argv[4:]
    seen,outcomes,bad,ref=explore(mk,threads,bound,extra)
    print('schedules',seen,'distinct outcomes',len(outcomes),'violations',len(bad),'ref rc',ref[0])
    for b in bad[:3]: print('  BAD schedule',b)
