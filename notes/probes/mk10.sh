#!/bin/bash
# build workspace $1 for defect #10
rm -rf "$1"; mkdir -p "$1/patches"
printf 'f1\nf2\nf3\n' > "$1/f"; printf 'g1\ng2\ng3\n' > "$1/g"
cat > "$1/patches/p1.patch" <<'P'
--- a/f
+++ b/f
@@ -1,3 +1,3 @@
-f1
+F1
 f2
 f3
P
cat > "$1/patches/p2.patch" <<'P'
--- a/f
+++ b/f
@@ -1,3 +1,3 @@
 F1
-nomatch
+f2x
 f3
P
cat > "$1/patches/p3.patch" <<'P'
diff --git a/g b/h
rename from g
rename to h
--- a/g
+++ b/h
@@ -1,3 +1,3 @@
 g1
-g2
+G2
 g3
P
printf 'p1.patch\np2.patch\np3.patch\n' > "$1/series"
