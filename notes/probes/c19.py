#!/usr/bin/env python3
import os, subprocess, shutil, itertools, collections
RQ='/repo/target/debug/rapidquilt'; J='/dev/shm/cp/jail'; WS=J+'/a/b/ws'
def snapj():
    out={}
    for root,dirs,files in os.walk(J):
        if root.startswith(WS): dirs[:]=[]; continue
        for f in files:
            p=os.path.join(root,f); st=os.stat(p); out[os.path.relpath(p,J)]=(open(p,'rb').read(),st.st_ino)
        for d in dirs: out[os.path.relpath(os.path.join(root,d),J)+'/']=None
    return out
names=['../x','a/../../x','b/../../x','./../x','x/../../x','"..\\057x"','"b/..\\057..\\057x"', J+'/abs', 'a//../../x', '../../b/x']
cls=collections.Counter(); ex={}
for name in names:
  for strip in ('0','1','2'):
    for kind in ('create','modify','delete','createB','renameto'):
      for threads in ('1','2'):
        shutil.rmtree(J,ignore_errors=True); os.makedirs(WS+'/patches')
        for decoy in [J+'/x', J+'/a/x', J+'/a/b/x', J+'/abs', J+'/a/b/b/x']:
            os.makedirs(os.path.dirname(decoy),exist_ok=True); open(decoy,'w').write('d1\nd2\n')
        open(WS+'/f','w').write('d1\nd2\n')
        if kind=='create': t='--- /dev/null\n+++ %s\n@@ -0,0 +1 @@\n+X\n'%name
        elif kind=='createB': t='--- %s\n+++ %s\n@@ -0,0 +1 @@\n+X\n'%(name,name)
        elif kind=='modify': t='--- %s\n+++ %s\n@@ -1,2 +1,2 @@\n-d1\n+X\n d2\n'%(name,name)
        elif kind=='delete': t='--- %s\n+++ /dev/null\n@@ -1,2 +0,0 @@\n-d1\n-d2\n'%name
        else: t='diff --git a/f %s\nrename from f\nrename to x\n'%name if strip=='1' else None
        if t is None: continue
        open(WS+'/patches/p.patch','w').write(t); open(WS+'/series','w').write('p.patch -p%s\n'%strip)
        before=snapj()
        p=subprocess.run([RQ,'push','-a','-d',WS,'-q','--threads',threads],env={'PATH':'/usr/bin'},stdout=subprocess.PIPE,stderr=subprocess.PIPE,timeout=20)
        after=snapj()
        if after!=before:
            ch=sorted(x for x in set(after)|set(before) if after.get(x)!=before.get(x))
            k=(kind,'ESCAPED rc=%d'%p.returncode); cls[k]+=1; ex.setdefault(k,(name,strip,threads,ch))
        elif p.returncode not in (0,1): k=(kind,'CRASH'); cls[k]+=1; ex.setdefault(k,(name,strip,p.stderr.decode()[:100]))
for k,v in sorted(cls.items()): print(k,v,ex[k])
