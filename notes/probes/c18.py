#!/usr/bin/env python3
import os, subprocess, shutil, sys, collections
RQ='/dev/shm/probe/target-rqs/debug/rapidquilt'   # hooked build (scheduler) for deterministic parallel order
WS='/dev/shm/cp/ws'; SHIM='/dev/shm/cp/shim.so'
def mk(fail):
    shutil.rmtree(WS,ignore_errors=True); os.makedirs(WS+'/patches'); os.makedirs(WS+'/d')
    open(WS+'/f','w').write('f1\nf2\nf3\n'); open(WS+'/d/g','w').write('g1\ng2\ng3\n')
    open(WS+'/patches/p1.patch','w').write('--- a/f\n+++ b/f\n@@ -1,3 +1,3 @@\n-f1\n+F1\n f2\n f3\n--- /dev/null\n+++ b/n/new\n@@ -0,0 +1 @@\n+new\n')
    open(WS+'/patches/p2.patch','w').write('--- a/d/g\n+++ /dev/null\n@@ -1,3 +0,0 @@\n-g1\n-g2\n-g3\n')
    p3='--- a/f\n+++ b/f\n@@ -1,3 +1,3 @@\n F1\n-%s\n+F2\n f3\n'%('nomatch' if fail else 'f2')
    open(WS+'/patches/p3.patch','w').write(p3)
    open(WS+'/series','w').write('p1.patch\np2.patch\np3.patch\n')
def run(threads, backup, k=None, errno=5, short=None):
    env={'PATH':'/usr/bin','LD_PRELOAD':SHIM,'RQ_LOG':'/dev/shm/cp/log.txt','RQ_VERIF_SCHED':''}
    if os.path.exists('/dev/shm/cp/log.txt'): os.unlink('/dev/shm/cp/log.txt')
    if k: env['RQ_FAIL_AT']=str(k); env['RQ_FAIL_ERRNO']=str(errno)
    if short: env['RQ_SHORT_AT']=str(short)
    p=subprocess.run([RQ,'push','-a','-d',WS,'-q','--threads',str(threads),'--backup',backup],env=env,stdout=subprocess.PIPE,stderr=subprocess.PIPE,timeout=20)
    log=open('/dev/shm/cp/log.txt').read().splitlines() if os.path.exists('/dev/shm/cp/log.txt') else []
    ap=open(WS+'/.pc/applied-patches').read().split() if os.path.exists(WS+'/.pc/applied-patches') else []
    return p.returncode,p.stderr.decode(errors='replace'),log,ap
classes=collections.Counter(); ex={}
for fail in (False,True):
  for threads in (1,2):
    for backup in ('always','never'):
        mk(fail); rc0,_,log0,ap0=run(threads,backup); n=len(log0)
        for k in range(1,n+1):
            for errno in (5,28):
                mk(fail); rc,err,log,ap=run(threads,backup,k,errno)
                fl=[l for l in log if l.endswith('FAULT')]
                if not fl: continue
                op,path=fl[0].split()[1:3]
                base=os.path.basename(path)
                v=[]
                if rc==0: v.append('EXIT0')
                elif rc!=1: v.append('CRASH%d'%rc)
                if rc==1 and base not in err and path not in err: v.append('NONAME')
                if ap: v.append('RECORDED%d'%len(ap))
                key='%s %s'%(op, 'pc/applied' if 'applied-patches' in path else ('pc/backup' if '/.pc/' in path else ('rej' if path.endswith('.rej') else ('dir' if op in('mkdir','rmdir') else 'file'))))
                for x in v:
                    classes[(x,key)]+=1; ex.setdefault((x,key),(fail,threads,backup,k,errno,fl[0],err.strip().replace('\n',' | ')[:160]))
        # short writes
        for k in range(1,n+1):
            if ' write ' not in log0[k-1]: continue
            mk(fail); rc,err,log,ap=run(threads,backup,None,5,short=k)
            if rc!=rc0 or ap!=ap0: classes[('SHORTWRITE-DIFF','write')]+=1; ex.setdefault(('SHORTWRITE-DIFF','write'),(fail,threads,backup,k,rc,ap,err[:100]))
        print('fail=%s threads=%d backup=%s n=%d rc0=%d'%(fail,threads,backup,n,rc0))
for k,v in sorted(classes.items()): print(k,v,'\n    e.g.',ex[k])
