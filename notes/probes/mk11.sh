#!/bin/bash
rm -rf "$1"; mkdir -p "$1/patches" "$1/d"
printf 'a1\na2\n' > "$1/d/a"; printf 'b1\nb2\nb3\n' > "$1/d/b"
cat > "$1/patches/p1.patch" <<'P'
--- a/d/a
+++ /dev/null
@@ -1,2 +0,0 @@
-a1
-a2
--- a/d/b
+++ b/d/b
@@ -1,3 +1,3 @@
 b1
-b2
+B2
 b3
P
printf 'p1.patch\n' > "$1/series"
