#!/usr/bin/env python3
import os, subprocess, shutil, itertools, collections
RQ='/repo/target/debug/rapidquilt'; WS='/dev/shm/cp/ws17'
def mk(series, applied, badpos=None, badkind=None):
    shutil.rmtree(WS,ignore_errors=True); os.makedirs(WS+'/patches')
    open(WS+'/f','w').write('l1\nl2\nl3\nl4\nl5\nl6\n')
    for i,n in enumerate(['p1','p2','p3']):
        open(WS+'/patches/%s.patch'%n,'w').write('--- a/f\n+++ b/f\n@@ -%d,1 +%d,1 @@\n-l%d\n+L%d\n'%(2*i+1,2*i+1,2*i+1,2*i+1))
    if badkind=='missing': os.unlink(WS+'/patches/%s.patch'%badpos)
    if badkind=='unparseable': open(WS+'/patches/%s.patch'%badpos,'w').write('--- a/f\n+++ b/f\n@@ -1,2 +1,2 @@\n l1\n')
    open(WS+'/series','w').write(''.join(s+'.patch\n' for s in series))
    if applied is not None:
        os.makedirs(WS+'/.pc'); open(WS+'/.pc/applied-patches','w').write(''.join(s+'.patch\n' for s in applied))
        # make the tree consistent with applied prefix when it is a prefix
        lines=['l1','l2','l3','l4','l5','l6']
        for a in applied:
            i={'p1':0,'p2':1,'p3':2}[a]; lines[2*i]='L%d'%(2*i+1)
        open(WS+'/f','w').write(''.join(l+'\n' for l in lines))
def snap():
    out={}
    for root,dirs,files in os.walk(WS):
        for f in files:
            p=os.path.join(root,f); st=os.stat(p); out[os.path.relpath(p,WS)]=(open(p,'rb').read(),st.st_mode,st.st_ino,st.st_mtime_ns)
        for d in dirs:
            p=os.path.join(root,d); st=os.stat(p); out[os.path.relpath(p,WS)+'/']=(st.st_mode,st.st_ino,st.st_mtime_ns)
    return out
names=['p1','p2','p3']
seqs=[()]+[s for n in (1,2,3) for s in itertools.permutations(names,n)]
goals=[[],['0'],['1'],['2'],['4'],['-a'],['p1.patch'],['p2.patch'],['p3.patch'],['nope.patch']]
cls=collections.Counter(); ex={}; runs=0
for series in seqs:
    for applied in [None]+seqs:
        ap=applied or ()
        isprefix = len(ap)<=len(series) and tuple(series[:len(ap)])==tuple(ap)
        for goal in goals:
            for threads in ('1','2'):
                mk(series,applied); before=snap()
                p=subprocess.run([RQ,'push','-d',WS,'-q','--threads',threads,'--backup','never']+goal,env={'PATH':'/usr/bin'},stdout=subprocess.PIPE,stderr=subprocess.PIPE,timeout=20); runs+=1
                after=snap()
                g=goal[0] if goal else ''
                must_refuse = (not isprefix) or (g.endswith('.patch') and (g[:-6] not in series or g[:-6] in ap))
                if p.returncode not in (0,1): k=('CRASH%d'%p.returncode, 'prefix' if isprefix else ('longer' if len(ap)>len(series) else 'mismatch')); cls[k]+=1; ex.setdefault(k,(series,applied,goal,threads,p.stderr.decode()[:120].replace('\n',' ')))
                elif must_refuse:
                    if p.returncode!=1: k=('NOT-REFUSED rc0', 'longer' if len(ap)>len(series) else ('mismatch' if not isprefix else 'goal')); cls[k]+=1; ex.setdefault(k,(series,applied,goal,threads))
                    elif after!=before: k=('REFUSED-BUT-CHANGED',''); cls[k]+=1; ex.setdefault(k,(series,applied,goal,threads,[x for x in set(after)|set(before) if after.get(x)!=before.get(x)]))
                    elif not p.stderr.strip(): k=('NO-MESSAGE',''); cls[k]+=1; ex.setdefault(k,(series,applied,goal,threads))
print('runs',runs)
for k,v in sorted(cls.items()): print(k,v,'\n   e.g.',ex[k])
# bad patch positions
for badkind in ('missing','unparseable'):
  for pos in names:
    for threads in ('1','2'):
      for applied in [(),('p1',)]:
        if pos in applied: continue
        mk(names,applied,pos,badkind); before=snap()
        p=subprocess.run([RQ,'push','-a','-d',WS,'-q','--threads',threads,'--backup','never'],env={'PATH':'/usr/bin'},stdout=subprocess.PIPE,stderr=subprocess.PIPE,timeout=20)
        after=snap()
        if p.returncode!=1 or after!=before: print('BADPATCH',badkind,pos,threads,applied,p.returncode,[x for x in set(after)|set(before) if after.get(x)!=before.get(x)])
print('badpatch done')
