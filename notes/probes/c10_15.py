#!/usr/bin/env python3
"""probe: C10 dry-run purity + status prediction, C15 hard-linked twin, C09 invocation graph, C08 backup counts, C20 fuzz monotone (CLI)"""
import os, subprocess, shutil, itertools, collections, sys, hashlib
RQ='/dev/shm/probe/target-rqs/debug/rapidquilt'; WS='/dev/shm/cp/wsx'; TW='/dev/shm/cp/twin'; SHIM='/dev/shm/cp/shim.so'
F6='l1\nl2\nl3\nl4\nl5\nl6\n'
def P(f,i,old,new,ctx=1):
    lines=['l%d'%k for k in range(1,7)]
    return None
def mod(f,lines,i,new):
    s=max(0,i-1); e=min(len(lines),i+2)
    body=''.join(' '+l+'\n' for l in lines[s:i])+'-'+lines[i]+'\n+'+new+'\n'+''.join(' '+l+'\n' for l in lines[i+1:e])
    return '--- a/%s\n+++ b/%s\n@@ -%d,%d +%d,%d @@\n'%(f,f,s+1,e-s,s+1,e-s)+body
BASE=['l1','l2','l3','l4','l5','l6']
WORK={}
def w(name, files, patches): WORK[name]=(files,patches)
w('ok3',{'f':F6,'d/g':F6,'keep':F6},[mod('f',BASE,1,'A'),mod('d/g',BASE,2,'B'),mod('f',['l1','A','l3','l4','l5','l6'],4,'C')])
w('fail2',{'f':F6,'d/g':F6,'keep':F6},[mod('f',BASE,1,'A'),mod('d/g',['l1','zz','l3','l4','l5','l6'],1,'B'),mod('f',BASE,4,'C')])
w('create-delete',{'f':F6,'d/g':F6,'keep':F6},['--- /dev/null\n+++ b/n/new\n@@ -0,0 +1 @@\n+x\n','--- a/d/g\n+++ /dev/null\n@@ -1,6 +0,0 @@\n'+''.join('-'+l+'\n' for l in BASE),mod('f',BASE,1,'A')])
w('rename-mode',{'f':F6,'d/g':F6,'keep':F6},['diff --git a/f b/h\nrename from f\nrename to h\n','diff --git a/d/g b/d/g\nold mode 100644\nnew mode 100755\n',mod('h',BASE,1,'A')])
w('fail-after-all',{'f':F6,'d/g':F6,'keep':F6},['--- /dev/null\n+++ b/n/new\n@@ -0,0 +1 @@\n+x\n'+'diff --git a/f b/h\nrename from f\nrename to h\n', mod('d/g',BASE,1,'A'), mod('keep2',BASE,1,'Z')])
def write(name):
    files,patches=WORK[name]
    shutil.rmtree(WS,ignore_errors=True); shutil.rmtree(TW,ignore_errors=True); os.makedirs(WS+'/patches')
    for f,c in files.items():
        p=os.path.join(WS,f); os.makedirs(os.path.dirname(p),exist_ok=True); open(p,'w').write(c)
    for i,c in enumerate(patches): open(WS+'/patches/p%d.patch'%i,'w').write(c)
    open(WS+'/series','w').write(''.join('p%d.patch\n'%i for i in range(len(patches))))
def twin():
    for root,dirs,files in os.walk(WS):
        rel=os.path.relpath(root,WS)
        if rel.startswith('patches'): continue
        os.makedirs(os.path.join(TW,rel),exist_ok=True)
        for f in files:
            if rel=='.' and f=='series': continue
            os.link(os.path.join(root,f),os.path.join(TW,rel,f))
def snap(d,meta=True,skip_patches=True):
    out={}
    for root,dirs,files in os.walk(d):
        rel=os.path.relpath(root,d)
        if skip_patches and rel.startswith('patches'): continue
        st=os.stat(root); 
        if meta: out[rel+'/']=(st.st_mode,st.st_ino,st.st_mtime_ns)
        for f in files:
            p=os.path.join(root,f); st=os.stat(p)
            out[os.path.normpath(os.path.join(rel,f))]=(open(p,'rb').read(),st.st_mode&0o7777)+((st.st_ino,st.st_mtime_ns) if meta else ())
    return out
def run(args,shim=False,sched=True):
    env={'PATH':'/usr/bin'}
    if sched: env['RQ_VERIF_SCHED']=''
    if shim: env['LD_PRELOAD']=SHIM; env['RQ_LOG']='/dev/shm/cp/logx.txt'; 
    if os.path.exists('/dev/shm/cp/logx.txt'): os.unlink('/dev/shm/cp/logx.txt')
    p=subprocess.run([RQ,'push','-d',WS]+args,env=env,stdout=subprocess.PIPE,stderr=subprocess.PIPE,timeout=30)
    log=open('/dev/shm/cp/logx.txt').read().splitlines() if os.path.exists('/dev/shm/cp/logx.txt') else []
    return p.returncode,p.stderr.decode(errors='replace'),log
issues=collections.Counter(); ex={}
def note(k,e): issues[k]+=1; ex.setdefault(k,e)
# ---- C10
for name in WORK:
    for threads in ('1','2','3'):
        for backup in ('always','onfail','never'):
            for verb in ([],['-q']):
                write(name); before=snap(WS,skip_patches=False)
                rc,err,log=run(['-a','--threads',threads,'--backup',backup,'--dry-run']+verb,shim=True)
                after=snap(WS,skip_patches=False)
                if after!=before: note(('C10 CHANGED',name),(threads,backup,[k for k in set(after)|set(before) if after.get(k)!=before.get(k)]))
                mut=[l for l in log if WS in l or not l.split()[2].startswith('/')]
                if mut: note(('C10 MUTATING-CALLS',name),(threads,backup,mut[:3]))
                failed=[l for l in err.splitlines() if 'FAILED' in l and l.startswith('Patch')]
                write(name); rc2,err2,_=run(['-a','--threads',threads,'--backup',backup]+verb)
                failed2=[l for l in err2.splitlines() if 'FAILED' in l and l.startswith('Patch')]
                if rc!=rc2 or failed!=failed2: note(('C10 PREDICTION',name),(threads,backup,rc,rc2,failed,failed2))
# ---- C15
for name in WORK:
    for threads in ('1','2'):
        for mm in ([],['--mmap']):
            write(name); twin(); tb=snap(TW); wsb=snap(WS)
            rc,err,log=run(['-a','-q','--threads',threads,'--backup','always']+mm,shim=True)
            ta=snap(TW); wsa=snap(WS)
            # twin: content/mode/inode unchanged (mtime too)
            for k in tb:
                if k.endswith('/'): continue
                if ta.get(k)!=tb[k]: note(('C15 TWIN-CHANGED',name),(threads,mm,k))
            named=set()
            for c in WORK[name][1]:
                for l in c.splitlines():
                    if l.startswith('--- a/') or l.startswith('+++ b/'): named.add(l[6:])
                    if l.startswith('diff --git'): named.update(x[2:] for x in l.split()[2:4])
            for k,v in wsb.items():
                if k.endswith('/') or k=='series' or k.startswith('.pc'): continue
                if k not in named:
                    if wsa.get(k)!=v: note(('C15 UNNAMED-TOUCHED',name),(threads,mm,k))
                    if any((' '+WS+'/'+k) in l or l.endswith(' '+WS+'/'+k) for l in log): note(('C15 UNNAMED-SYSCALL',name),(threads,mm,k,[l for l in log if k in l][:2]))
                else:
                    if k in wsa and wsa[k][0]!=v[0] and wsa[k][2]==v[2]: note(('C15 SAME-INODE-REWRITE',name),(threads,mm,k))
print('C10/C15 done'); 
# ---- C09 invocation graph
def tree_key():
    s=snap(WS,meta=False); s={k:v for k,v in s.items() if not (k.startswith('.pc/') and k!='.pc/applied-patches')}
    if s.get('.pc/applied-patches',(b'',))[0]==b'': s.pop('.pc/applied-patches',None)
    return hashlib.sha1(repr(sorted(s.items())).encode()).hexdigest()[:10], len(s.get('.pc/applied-patches',(b'',))[0].split())
for name in WORK:
    n=len(WORK[name][1])
    edges=[[ ]]+[[str(m)] for m in range(0,n+2)]+[['p%d.patch'%i] for i in range(n)]+[['-a']]
    # reference: single invocation to k
    ref={}
    for k in range(0,n+1):
        write(name); rc,_,_=run([str(k),'-q','--threads','1','--backup','never']); key,cnt=tree_key(); ref.setdefault(cnt,key)
    # BFS by replaying histories
    seen={}; frontier=[[]]; states=0; trans=0
    write(name); k0=tree_key(); seen[k0]=[]
    while frontier:
        nxt=[]
        for hist in frontier:
            for e in edges:
                for t in ('1','2'):
                    write(name)
                    for (e0,t0) in hist: run(e0+['-q','--threads',t0,'--backup','never'])
                    rc,err,_=run(e+['-q','--threads',t,'--backup','never']); trans+=1
                    key=tree_key()
                    if key[1] in ref and ref[key[1]]!=key[0]: note(('C09 STATE-DIFFERS',name),(hist,e,t,key))
                    if key not in seen: seen[key]=hist+[(e,t)]; nxt.append(hist+[(e,t)])
        frontier=nxt
    print('C09',name,'states',len(seen),'transitions',trans,'applied-counts',sorted({k[1] for k in seen}))
for k,v in sorted(issues.items()): print(k,v,ex[k])
