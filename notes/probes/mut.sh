#!/bin/bash
# usage: mut.sh <name> <file> <python-replace-old> <python-replace-new> [probe args...]
name=$1; file=$2; old=$3; new=$4; shift 4
cd /dev/shm/rqfix && rsync -a --exclude target --exclude .git /repo/ ./ 
python3 - "$file" "$old" "$new" <<'PY'
import sys
f,old,new=sys.argv[1:4]
s=open(f).read()
assert s.count(old)>=1, "pattern not found"
s=s.replace(old,new,1)
open(f,'w').write(s)
PY
[ $? -eq 0 ] || { echo "$name: PATTERN NOT FOUND"; exit 1; }
res=$(CARGO_NET_OFFLINE=true CARGO_TARGET_DIR=/dev/shm/probe/target-rq cargo test --offline 2>&1 | grep -E '^test result|^error' | tr '\n' ';')
echo "MUTANT $name :: suite: $res"
if [ $# -gt 0 ]; then
 cd /dev/shm/probe && CARGO_NET_OFFLINE=true CARGO_TARGET_DIR=/dev/shm/probe/target cargo build --offline 2>&1 | grep -E '^error' -A5
 ./target/debug/probe "$@" 2>&1 | grep -E '^total|^---' | head -6
fi
