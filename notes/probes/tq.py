#!/usr/bin/env python3
"""Throw-away prototype of the 'toy quilt' reference model + workspace sweep (C05/C08/C13)."""
import os, sys, subprocess, shutil, itertools, copy, collections, hashlib
RQ='/repo/target/debug/rapidquilt'
ROOT='/dev/shm/tq/ws'

def hunk(lines, i, kind, new=None, ctx=1, wrong=0):
    """one hunk changing line i of `lines` (list of bytes w/o newline). kind: rep/del/ins. returns (text, newlines)"""
    n=len(lines)
    if kind=='ins': a,b=i,i
    else: a,b=i,i+1
    s=max(0,a-ctx); e=min(n,b+ctx)
    old=lines[s:e]; 
    body=[]
    for l in lines[s:a]: body.append(b' '+l)
    if kind in('rep','del'): body.append(b'-'+lines[i])
    if kind in('rep','ins'): body.append(b'+'+new)
    for l in lines[b:e]: body.append(b' '+l)
    oc=e-s; nc=oc+(1 if kind=='ins' else 0)-(1 if kind=='del' else 0)
    os_=s+1 if oc>0 else s; ns=s+1 if nc>0 else s
    txt=b'@@ -%d,%d +%d,%d @@\n'%(os_+wrong,oc,ns+wrong,nc)+b''.join(x+b'\n' for x in body)
    newlines=lines[:a]+([new] if kind in('rep','ins') else [])+lines[b:]
    return txt,newlines

class Model:
    def __init__(s): s.t={}   # path -> (lines, mode)
    def clone(s): m=Model(); m.t={k:(list(v[0]),v[1]) for k,v in s.t.items()}; return m

counter=[0]
def fresh():
    counter[0]+=1; return b'N%d'%counter[0]

# A file patch instance: dict(text=bytes, ok=bool, target=path(s) touched, apply=fn(model), failing_hunks=int)
def t_mod(m,f,ctx=1,wrong=0,i=2):
    if f not in m.t or len(m.t[f][0])<=i: return None
    lines,mode=m.t[f]; h,new=hunk(lines,i,'rep',fresh(),ctx,wrong)
    def ap(mm): mm.t[f]=(new,mode)
    return dict(text=b'--- a/%s\n+++ b/%s\n'%(f.encode(),f.encode())+h, ok=True, files=[f], apply=ap, name='mod(%s)'%f)
def t_modfail(m,f):
    if f not in m.t or len(m.t[f][0])<3: return None
    lines,mode=m.t[f]
    bad=list(lines); bad[1]=b'ZZZ'
    h,_=hunk(bad,1,'rep',b'Q',1)
    return dict(text=b'--- a/%s\n+++ b/%s\n'%(f.encode(),f.encode())+h, ok=False, files=[f], rej=[f], apply=None, name='modfail(%s)'%f)
def t_partial(m,f):
    if f not in m.t or len(m.t[f][0])<6: return None
    lines,mode=m.t[f]
    h1,new=hunk(lines,0,'rep',fresh(),1)
    bad=list(lines); bad[4]=b'ZZZ'
    h2,_=hunk(bad,4,'rep',b'Q',1)
    return dict(text=b'--- a/%s\n+++ b/%s\n'%(f.encode(),f.encode())+h1+h2, ok=False, files=[f], rej=[f], apply=None, name='partial(%s)'%f)
def t_create(m,f,both):
    if f in m.t: return None
    new=[fresh(),fresh()]
    txt=(b'--- a/%s\n'%f.encode() if both else b'--- /dev/null\n')+b'+++ b/%s\n@@ -0,0 +1,2 @@\n'%f.encode()+b''.join(b'+'+l+b'\n' for l in new)
    def ap(mm): mm.t[f]=(new,None)
    return dict(text=txt, ok=True, files=[f], apply=ap, name='create%s(%s)'%('B' if both else 'N',f))
def t_create_over(m,f):
    if f not in m.t or not m.t[f][0]: return None
    txt=b'--- /dev/null\n+++ b/%s\n@@ -0,0 +1,1 @@\n+X\n'%f.encode()
    return dict(text=txt, ok=False, files=[f], rej=[f], apply=None, name='createover(%s)'%f)
def t_delete(m,f,both):
    if f not in m.t or not m.t[f][0]: return None
    lines,mode=m.t[f]
    txt=b'--- a/%s\n'%f.encode()+(b'+++ b/%s\n'%f.encode() if both else b'+++ /dev/null\n')+b'@@ -1,%d +0,0 @@\n'%len(lines)+b''.join(b'-'+l+b'\n' for l in lines)
    def ap(mm):
        if both: mm.t[f]=([],mode)
        else: del mm.t[f]
    return dict(text=txt, ok=True, files=[f], apply=ap, name='delete%s(%s)'%('B' if both else 'N',f))
def t_delete_mismatch(m,f):
    if f not in m.t or len(m.t[f][0])<2: return None
    lines,mode=m.t[f]; bad=list(lines); bad[0]=b'ZZZ'
    txt=b'--- a/%s\n+++ /dev/null\n@@ -1,%d +0,0 @@\n'%(f.encode(),len(bad))+b''.join(b'-'+l+b'\n' for l in bad)
    return dict(text=txt, ok=False, files=[f], rej=[f], apply=None, name='delmismatch(%s)'%f)
def t_missing(m,f):
    if f in m.t: return None
    txt=b'--- a/%s\n+++ b/%s\n@@ -1,2 +1,2 @@\n a\n-b\n+c\n'%(f.encode(),f.encode())
    return dict(text=txt, ok=False, files=[f], rej=[f], apply=None, name='missing(%s)'%f)
def t_rename(m,f,g,withhunk):
    if f not in m.t or g in m.t or len(m.t[f][0])<3: return None
    lines,mode=m.t[f]
    txt=b'diff --git a/%s b/%s\nrename from %s\nrename to %s\n'%(f.encode(),g.encode(),f.encode(),g.encode())
    new=lines
    if withhunk:
        h,new=hunk(lines,1,'rep',fresh(),1); txt+=b'--- a/%s\n+++ b/%s\n'%(f.encode(),g.encode())+h
    def ap(mm): del mm.t[f]; mm.t[g]=(new,mode)
    return dict(text=txt, ok=True, files=[f,g], apply=ap, name='rename(%s->%s,%s)'%(f,g,withhunk))

FILES=['f','d/g','d/h','e/i']
NEWFILES=['n','d/n','x/y/n']
def templates(m):
    out=[]
    for f in FILES:
        out+= [t_mod(m,f), t_mod(m,f,ctx=0), t_mod(m,f,ctx=3,wrong=1), t_modfail(m,f), t_partial(m,f), t_delete(m,f,False), t_delete(m,f,True), t_delete_mismatch(m,f), t_create_over(m,f)]
        for g in NEWFILES: out.append(t_rename(m,f,g,True)); 
        out.append(t_rename(m,f,NEWFILES[0],False))
    for g in NEWFILES+FILES:
        out+= [t_create(m,g,False), t_create(m,g,True), t_missing(m,g)]
    return [t for t in out if t]

def initial():
    m=Model()
    for f in FILES: m.t[f]=([('%s%d'%(f.replace('/','_'),i)).encode() for i in range(6)],0o644)
    return m

def write_ws(m, series):
    shutil.rmtree(ROOT,ignore_errors=True); os.makedirs(ROOT+'/patches')
    for f,(lines,mode) in m.t.items():
        p=os.path.join(ROOT,f); os.makedirs(os.path.dirname(p),exist_ok=True)
        open(p,'wb').write(b''.join(l+b'\n' for l in lines)); os.chmod(p,mode)
    names=[]
    for i,patch in enumerate(series):
        n='p%d.patch'%i; names.append(n)
        def g(fp):
            t=fp['text']
            if t.startswith(b'diff --git'): return t
            a=fp['files'][0].encode(); return b'diff --git a/%s b/%s\n'%(a,a)+t
        open(ROOT+'/patches/'+n,'wb').write(b''.join(g(fp) for fp in patch))
    open(ROOT+'/series','w').write(''.join(n+'\n' for n in names))
    return names

def snap():
    out={}
    for root,dirs,files in os.walk(ROOT):
        rel=os.path.relpath(root,ROOT)
        if rel=='patches' or rel.startswith('patches/'): continue
        for f in files:
            p=os.path.normpath(os.path.join(rel,f))
            if p=='series': continue
            out[p]=(open(os.path.join(root,f),'rb').read(), os.stat(os.path.join(root,f)).st_mode&0o777)
        if not files and not dirs and rel!='.': out[rel+'/']=None
    return out

def expect(m0, series, names):
    m=m0.clone(); k=len(series); pre=[]; rej=set()
    for i,patch in enumerate(series):
        if not all(fp['ok'] for fp in patch):
            k=i
            for fp in patch:
                if not fp['ok']:
                    for r in fp.get('rej',[]):
                        d=os.path.dirname(r)
                        if d=='' or any(k.startswith(d+'/') for k in m.t): rej.add(r)
            break
        pre.append((names[i], m.clone(), [f for fp in patch for f in fp['files']]))
        for fp in patch: fp['apply'](m)
    exp={}
    for f,(lines,mode) in m.t.items(): exp[f]=(b''.join(l+b'\n' for l in lines), mode if mode is not None else 0o644)
    return k,exp,pre,rej

def check(m0, series, threads, backup):
    names=write_ws(m0,series)
    p=subprocess.run([RQ,'push','-a','-d',ROOT,'-q','--threads',str(threads),'--backup',backup],env={'PATH':'/usr/bin'},stdout=subprocess.PIPE,stderr=subprocess.PIPE)
    got=snap(); k,exp,pre,rej=expect(m0,series,names)
    errs=[]
    if p.returncode not in (0,1): errs.append('CRASH rc=%d %s'%(p.returncode,p.stderr.decode()[:150].replace('\n',' ')))
    if (p.returncode==0)!=(k==len(series)): errs.append('EXIT rc=%d k=%d'%(p.returncode,k))
    tree={f:v for f,v in got.items() if not f.startswith('.pc/') and not f.endswith('.rej')}
    if tree!=exp:
        d=[f for f in set(tree)|set(exp) if tree.get(f)!=exp.get(f)]
        errs.append('TREE diff at %s'%sorted(d))
    ap=got.get('.pc/applied-patches',(b'',0))[0].decode().split()
    if ap!=names[:k]: errs.append('APPLIED %s vs %s'%(ap,names[:k]))
    gotrej={f[:-4] for f in got if f.endswith('.rej') and not f.startswith('.pc/')}
    if gotrej!=rej: errs.append('REJ got=%s want=%s'%(sorted(gotrej),sorted(rej)))
    if backup=='always' and p.returncode in (0,1):
        expb={}
        for (pn,pm,files) in pre:
            for f in files:
                if ('.pc/%s/%s'%(pn,f)) in expb: continue
                if f in pm.t: expb['.pc/%s/%s'%(pn,f)]=(b''.join(l+b'\n' for l in pm.t[f][0]), pm.t[f][1] if pm.t[f][1] is not None else 0o644)
                else: expb['.pc/%s/%s'%(pn,f)]=(b'',0o644)
        gotb={f:v for f,v in got.items() if f.startswith('.pc/') and f!='.pc/applied-patches' and v is not None}
        if gotb!=expb:
            d=[f for f in set(gotb)|set(expb) if gotb.get(f)!=expb.get(f)]
            errs.append('BACKUP diff at %s'%sorted(d)[:4])
    return errs

def main():
    maxfp=int(sys.argv[1]) if len(sys.argv)>1 else 2
    m0=initial(); stats=collections.Counter(); classes={}
    def rec(m, series, cur, nfp, dev):
        # try running current series (with cur closed)
        full=series+([cur] if cur else [])
        if full:
            for threads in (1,2):
                for backup in ('always','never'):
                    stats['runs']+=1
                    errs=check(m0, full, threads, backup)
                    for e in errs:
                        key=e.split(' ')[0]+' t=%d b=%s :: '%(threads,backup)+' | '.join('+'.join(fp['name'].split('(')[0] for fp in p) for p in full)
                        k2=e.split(' ')[0]+' :: '+' | '.join('+'.join(fp['name'].split('(')[0] for fp in p) for p in full)
                        if k2 not in classes: classes[k2]=(e, [[fp['name'] for fp in p] for p in full], threads, backup)
                        stats['viol']+=1
        if nfp==maxfp: return
        if full and not all(fp['ok'] for p in full for fp in p): return  # after failure nothing more is applied; keep small
        for t in templates(m):
            d=dev+(0 if t['name'].startswith('mod(') else 1)
            if d>2: continue
            m2=m.clone()
            if t['ok']: t['apply'](m2)
            # same patch
            rec(m2, series, cur+[t], nfp+1, d)
            # new patch
            if cur: rec(m2, series+[cur], [t], nfp+1, d)
    rec(m0, [], [], 0, 0)
    print(dict(stats)); print('classes',len(classes))
    for k,(e,s,t,b) in sorted(classes.items()): print('---',k,'::',e[:90],'t=%d b=%s'%(t,b))
main()
